#pragma once
#include <cstdio>
#include <cstdlib>

#ifdef TEAKRA_VERIF
// Verification hook: a deliberate ASSERT/UNREACHABLE becomes a catchable outcome instead of abort()
namespace Teakra {
struct VerifAssertion {
    const char* expression;
    const char* file;
    int line;
};
} // namespace Teakra
#endif

[[noreturn]] inline void Assert(const char* expression, const char* file, int line) {
#ifdef TEAKRA_VERIF
    throw Teakra::VerifAssertion{expression, file, line};
#endif
    std::fprintf(stderr, "Assertion '%s' failed, file '%s' line '%d'.", expression, file, line);
    std::abort();
}

#define ASSERT(EXPRESSION) ((EXPRESSION) ? (void)0 : Assert(#EXPRESSION, __FILE__, __LINE__))
#define UNREACHABLE() Assert("UNREACHABLE", __FILE__, __LINE__)
