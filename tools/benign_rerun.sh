#!/bin/bash
# Re-run every filed behaviour-preserving refactoring against the current /repo HEAD and the current checks: each check must
# exit 0 without a VIOLATION line (a build failure counts as an alarm).
#   tools/benign_rerun.sh [name-glob]
# Prints a table and merges it into seeded/benign/RERUN_quick.txt; exit 1 if any check alarms.  Nothing is left under /tmp.
set -u
GLOB=${1:-*}
V=/verif; R=/repo
J=${SEED_JOBS:-4}
run_one() {
  d=$1; name=$(basename $d); prop=${name%%-*}
  wt=/tmp/benignrerun-$name
  rm -rf $wt; git -C $R worktree prune
  git -C $R worktree add -q --detach $wt HEAD || { echo "$name WORKTREE-FAIL"; return; }
  if ! git -C $wt apply $d/patch.diff 2>/dev/null; then
    echo "$name PATCH-DOES-NOT-APPLY"
  else
    ids=$prop
    if grep -q "src/interpreter.h\|impl/register.h\|src/decoder.h\|src/operand.h" $d/patch.diff && [ $prop != C01 ]; then ids="$ids C01"; fi
    res=""
    for id in $ids; do
      out=$(cd ${VERIF_CHECK_DIR:-$V} && VERIF_REPO=$wt VERIF_NO_EVIDENCE=1 ./check $id quick 2>&1); rc=$?
      nv=$(echo "$out" | grep -c '^VIOLATION')
      if [ $rc -eq 0 ] && [ $nv -eq 0 ]; then res="$res $id:silent"; else res="$res $id:ALARM(rc=$rc,violations=$nv)"; fi
    done
    case "$res" in *ALARM*) echo "$name ALARM$res";; *) echo "$name SILENT$res";; esac
  fi
  git -C $R worktree remove --force $wt 2>/dev/null; rm -rf $wt
}
export -f run_one; export V R
ls -d $V/seeded/benign/$GLOB/ | xargs -P $J -I{} bash -c 'run_one {}' | tee /tmp/benign_rerun.$$
bad=0; grep -vq SILENT /tmp/benign_rerun.$$ && bad=1
touch $V/seeded/benign/RERUN_quick.txt
awk 'NR==FNR{seen[$1]=1; print; next} !($1 in seen)' /tmp/benign_rerun.$$ $V/seeded/benign/RERUN_quick.txt | sort > /tmp/benign_rerun.$$.m
mv /tmp/benign_rerun.$$.m $V/seeded/benign/RERUN_quick.txt; rm -f /tmp/benign_rerun.$$
exit $bad
