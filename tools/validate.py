#!/usr/bin/env python3-vt
import json, sys, glob, jsonschema
m = json.load(open('/verif/MANIFEST.json'))
jsonschema.validate(m, json.load(open('/root/.vp/MANIFEST.schema.json')))
es = json.load(open('/root/.vp/EVIDENCE.schema.json'))
n = 0
for f in sorted(glob.glob('/verif/evidence/*.json')):
    jsonschema.validate(json.load(open(f)), es); n += 1
ids = {json.loads(l)['id'] for l in open('/verif/properties.jsonl')}
claimed = {c['property_id'] for c in m['checks']}
na = {c['property_id'] for c in m.get('not_applicable', [])}
assert claimed | na == ids and not (claimed & na), (claimed, na)
print('manifest ok; %d evidence files ok; claimed=%d na=%d' % (n, len(claimed), len(na)))
