#!/bin/bash
# Re-run every filed seeded defect against the current /repo HEAD and the current checks.
#   tools/seed_rerun.sh [tier] [name-glob]      (default: quick, all)
# For each /verif/seeded/<name>/patch.diff: scratch worktree of /repo HEAD under /tmp, apply, run
# VERIF_REPO=<wt> ./check <prop> <tier>, expect exit 1 with a VIOLATION line.  Prints a table; exit 1 if any
# defect is missed or a patch no longer applies.  Nothing is left under /tmp.
set -u
TIER=${1:-quick}; GLOB=${2:-*}
V=/verif; R=/repo; bad=0
J=${SEED_JOBS:-4}
run_one() {
  d=$1; name=$(basename $d); prop=${name%%-*}
  wt=/tmp/seedrerun-$name
  rm -rf $wt; git -C $R worktree prune
  git -C $R worktree add -q --detach $wt HEAD || { echo "$name WORKTREE-FAIL"; return; }
  if ! git -C $wt apply $d/patch.diff 2>/dev/null; then
    echo "$name PATCH-DOES-NOT-APPLY"
  else
    out=$(cd ${VERIF_CHECK_DIR:-$V} && VERIF_REPO=$wt VERIF_NO_EVIDENCE=1 ./check $prop $TIER 2>&1); rc=$?
    nv=$(echo "$out" | grep -c '^VIOLATION')
    if [ $rc -eq 1 ] && [ $nv -ge 1 ]; then echo "$name DETECTED violations=$nv"; else echo "$name MISSED rc=$rc"; fi
  fi
  git -C $R worktree remove --force $wt 2>/dev/null; rm -rf $wt
}
export -f run_one; export V R TIER
ls -d $V/seeded/$GLOB/ | xargs -P $J -I{} bash -c 'run_one {}' | tee /tmp/seed_rerun.$$ 
grep -vq DETECTED /tmp/seed_rerun.$$ && bad=1
# merge into the table (entries of names not re-run are kept)
touch $V/seeded/RERUN_$TIER.txt
awk 'NR==FNR{seen[$1]=1; print; next} !($1 in seen)' /tmp/seed_rerun.$$ $V/seeded/RERUN_$TIER.txt | sort > /tmp/seed_rerun.$$.m
mv /tmp/seed_rerun.$$.m $V/seeded/RERUN_$TIER.txt; rm -f /tmp/seed_rerun.$$
exit $bad
