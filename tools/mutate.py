#!/usr/bin/env python3
"""tools/mutate.py — systematic first-order mutation campaign against the quick checks (testing the checks, not the property).

  tools/mutate.py list  <file>...                 print the mutants (id, line, operator, old -> new)
  tools/mutate.py run   <slots> <out.tsv> <file>...   run every mutant of the files on <slots> parallel scratch worktrees

For every mutant: a scratch worktree of /repo's HEAD under /tmp/mut/slot<k> gets the one-line change, the checks listed for
that file run with VERIF_REPO pointing there (own build root, wiped after each mutant) and stop at the first one that reports a
VIOLATION. Result line: file, line, operator, old, new, verdict (detected-by=<Cxx> | SURVIVED | BUILD-FAILED | ENGINE-FAILED).
Survivors are triaged by hand (equivalent / outside every property / a gap to close); nothing here is evidence.
"""
import os, re, subprocess, sys, shutil, time, json
from concurrent.futures import ThreadPoolExecutor

REPO = "/repo"
VERIF = os.path.dirname(os.path.dirname(os.path.abspath(__file__)))
ORDER = {
    "default": ["C11", "C13", "C15", "C14", "C16", "C12", "C06", "C17", "C07"],
    "apbp.cpp": ["C14", "C12", "C06", "C17", "C07", "C19"],
    "dma.cpp": ["C13", "C12", "C17", "C06"],
    "ahbm.cpp": ["C13", "C12", "C17", "C06"],
    "timer.cpp": ["C15", "C06", "C12", "C17", "C07"],
    "btdmp.cpp": ["C16", "C06", "C12", "C17", "C07"],
    "icu.h": ["C07", "C12", "C17", "C06", "C14"],
}
OPS = [
    (r"==", "!="), (r"!=", "=="), (r"<=", "<"), (r">=", ">"), (r"(?<![<>=\-])<(?![<=])", "<="), (r"(?<![<>=\-])>(?![>=])", ">="),
    (r"&&", "||"), (r"\|\|", "&&"), (r"\+\+", "--"), (r"--", "++"), (r"(?<![+\-])\+(?![+=])", "-"), (r"(?<![+\-e])-(?![\-=>])", "+"),
    (r"<<(?!=)", ">>"), (r">>(?!=)", "<<"), (r"\|=", "&="), (r"&=", "|="), (r"(?<![&])&(?![&=])", "|"), (r"(?<![|])\|(?![|=])", "&"),
    (r"\btrue\b", "false"), (r"\bfalse\b", "true"), (r"\b0x([0-9A-Fa-f]+)\b", "HEX+1"), (r"(?<![\w.])(\d+)(?![\w.])", "DEC+1"),
    (r"!(?=[A-Za-z_(])", ""),
]
SKIP = re.compile(r"^\s*(#|//|\*|/\*|template|using|namespace|class|struct|public:|private:|protected:|ASSERT|UNREACHABLE|static_assert|std::printf|printf)")


def mutants(path):
    lines = open(os.path.join(REPO, path)).read().split("\n")
    out = []
    in_guard = 0
    for i, l in enumerate(lines):
        if "TEAKRA_VERIF" in l:
            in_guard += 1
        if in_guard and l.strip().startswith("#endif"):
            in_guard = 0
            continue
        if in_guard or SKIP.match(l) or not l.strip():
            continue
        code = l.split("//")[0]
        for pat, rep in OPS:
            for m in re.finditer(pat, code):
                # template angle brackets and includes are not comparison operators
                if rep in ("<=", ">=") and re.search(r"(std::|<u\d+|<\w+>|template|static_cast|Cell|array|vector|function|unique_ptr|shared_ptr|atomic|queue|optional)", code):
                    continue
                if rep == "HEX+1":
                    new = "0x%X" % (int(m.group(1), 16) + 1)
                elif rep == "DEC+1":
                    new = str(int(m.group(1)) + 1)
                else:
                    new = rep
                ml = code[:m.start()] + new + code[m.end():]
                out.append((i, pat, l, ml))
        s = code.strip()
        if s.endswith(";") and not re.match(r"^(return|break|continue|u\d+|int|bool|auto|const|static|std::|case|default|else|\}|[A-Za-z_:<>]+\s+[A-Za-z_]+\s*(=|;|\{))", s) and "=" in s or (s.endswith(");") and re.match(r"^[A-Za-z_.\->\[\]]+\(", s)):
            out.append((i, "DELETE", l, re.match(r"^\s*", l).group(0) + ";"))
    if os.environ.get("MUT_PER_LINE"):
        # one mutant per source line: the first operator mutant, else the statement deletion
        best = {}
        for m in out:
            if m[0] not in best or (best[m[0]][1] == "DELETE" and m[1] != "DELETE"):
                if m[0] not in best or best[m[0]][1] == "DELETE":
                    best[m[0]] = m
        out = [best[k] for k in sorted(best)]
    return lines, out


def run_one(slot, path, lines, mut, checks):
    i, op, old, new = mut
    wt = "/tmp/mut/slot%d" % slot
    br = "/tmp/mut/build%d" % slot
    if not os.path.isdir(wt):
        subprocess.run(["git", "-C", REPO, "worktree", "add", "-q", "--detach", wt, "HEAD"], check=True)
    subprocess.run(["git", "-C", wt, "checkout", "-q", "--", "."], check=True)
    ml = list(lines); ml[i] = new
    open(os.path.join(wt, path), "w").write("\n".join(ml))
    shutil.rmtree(br, ignore_errors=True)
    env = dict(os.environ, VERIF_REPO=wt, VERIF_BUILD_ROOT=br)
    verdict = "SURVIVED"
    for c in checks:
        p = subprocess.run([os.path.join(VERIF, "check"), c, "quick"], stdout=subprocess.PIPE, stderr=subprocess.STDOUT, text=True, env=env, cwd=VERIF)
        if "BUILD-FAILED" in p.stdout:
            verdict = "BUILD-FAILED"; break
        if p.returncode == 1 and "VIOLATION" in p.stdout:
            verdict = "detected-by=" + c; break
        if p.returncode != 0:
            verdict = "ENGINE-FAILED(%s rc=%d)" % (c, p.returncode); break
    shutil.rmtree(br, ignore_errors=True)
    subprocess.run(["git", "-C", wt, "checkout", "-q", "--", "."])
    return "\t".join([path, str(i + 1), op, old.strip(), new.strip(), verdict])


def main():
    if sys.argv[1] == "list":
        for f in sys.argv[2:]:
            _, ms = mutants(f)
            for k, (i, op, old, new) in enumerate(ms):
                print("%s#%d\tL%d\t%s\t%s\t->\t%s" % (f, k, i + 1, op, old.strip(), new.strip()))
        return
    slots, outp, files = int(sys.argv[2]), sys.argv[3], sys.argv[4:]
    done = set()
    if os.path.exists(outp):
        for l in open(outp):
            t = l.rstrip("\n").split("\t")
            done.add((t[0], t[1], t[2], t[4]))
    jobs = []
    for f in files:
        lines, ms = mutants(f)
        checks = ORDER.get(os.path.basename(f), ORDER["default"])
        for m in ms:
            if (f, str(m[0] + 1), m[1], m[3].strip()) not in done:
                jobs.append((f, lines, m, checks))
    print("%d mutants to run" % len(jobs), flush=True)
    import queue
    free = queue.Queue()
    for s in range(slots):
        free.put(s)
    def work(job):
        s = free.get()
        try:
            r = run_one(s, job[0], job[1], job[2], job[3])
        except Exception as e:
            r = "\t".join([job[0], str(job[2][0] + 1), job[2][1], job[2][2].strip(), job[2][3].strip(), "ERROR %r" % e])
        finally:
            free.put(s)
        with open(outp, "a") as fh:
            fh.write(r + "\n")
        print(r, flush=True)
    with ThreadPoolExecutor(slots) as ex:
        list(ex.map(work, jobs))
    for s in range(slots):
        subprocess.run(["git", "-C", REPO, "worktree", "remove", "--force", "/tmp/mut/slot%d" % s])


if __name__ == "__main__":
    main()
