#!/bin/sh
# Builds /repo with CMake WITHOUT -DTEAKRA_VERIF (hooks off) and runs the repository's own test suite.
set -e
REPO=${VERIF_REPO:-/repo}
B=${VERIF_BASELINE_DIR:-/verif/build/baseline_off}
mkdir -p "$B"
cmake -G Ninja -S "$REPO" -B "$B" -DCMAKE_BUILD_TYPE=RelWithDebInfo >"$B/configure.log" 2>&1 || { cat "$B/configure.log"; exit 2; }
cmake --build "$B" >"$B/build.log" 2>&1 || { tail -50 "$B/build.log"; exit 2; }
ctest --test-dir "$B" -j8 --timeout 900 --output-junit "$B/junit.xml"
