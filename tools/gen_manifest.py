#!/usr/bin/env python3
"""Regenerates /verif/MANIFEST.json from the table below (kept next to ./check's CHECKS table)."""
import json, os, subprocess

VERIF = os.path.dirname(os.path.dirname(os.path.abspath(__file__)))

ENGINES = [
    dict(name="periph", path="engines/periph", serves_properties=["C13", "C15", "C16"],
         kind_free_text="explicit-state BFS / exhaustive configuration enumeration over the real Timer, Btdmp, Dma+Ahbm objects with lock-step reference models"),
    dict(name="sys", path="engines/sys", serves_properties=["C06", "C07", "C11", "C12", "C14", "C17"],
         kind_free_text="explicit-state BFS over the whole Teakra facade (host API + DSP-side MMIO) with snapshot/restore of the plain state and lock-step reference models"),
    dict(name="isa", path="engines/isa", serves_properties=["C01", "C03", "C04", "C08", "C09", "C10", "C20"],
         kind_free_text="single-instruction enumerator over all 65536 opcodes x bounded state alphabet; two glue libraries (implementation vs frozen reference) behind a C ABI; decode introspection through a generated recording visitor; harness-owned choice engine inside the real test generator"),
    dict(name="text", path="engines/text", serves_properties=["C02", "C05", "C20"],
         kind_free_text="exhaustive enumeration over all 65536 first words through the real disassembler, parser, C binding and makedsp1; decode introspection and execution through libimpl.so"),
    dict(name="sched", path="engines/sched", serves_properties=["C19"],
         kind_free_text="preemption-bounded stateless model checker: the two logical threads run the real code as coroutines under a scheduler that owns every pthread_mutex operation (link-time interposition), latch access (hook 3), API-call and instruction boundary; plus a free-running ThreadSanitizer build of the same bodies"),
    dict(name="safety", path="engines/safety", serves_properties=["C18"],
         kind_free_text="exhaustive case enumeration on the whole machine built with clang ASan+UBSan+libstdc++ assertions; memory observer as bounds oracle; forked children with a per-case watchdog"),
]

# id -> (engine, technique, level text, level note, design ref)
CLAIMED = {
    "C01": ("isa", "exhaustive enumeration of all 65536 opcodes x second-word alphabet x bounded state alphabet (bases + all 1-field deviations), each executed on the implementation and on a frozen reference library, outcomes compared; generator clause: enumeration of the RNG-answer alphabet with bounded deviations through the real generator",
            "The opcode space is enumerated completely, so every per-opcode deviation from the hardware-validated semantics that shows on some state of the alphabet is found, not only the ones a test happens to execute; the state alphabet holds every boundary value of every register-file field (incl. hidden shadow banks) one field at a time. An addressing-cluster product (18 modulo values x 128 steps x 16 mode combinations x 6 register positions x 6 stepping instructions) covers the one place where behaviour depends on several configuration fields at once. The generator clause owns the generator's only nondeterminism (its RNG) and enumerates min/max/mid answers for every draw with bounded deviations, so the window/pc/no-abort guarantees are checked on the boundary vectors the generator can emit.",
            "Trusted: /verif/ref (frozen copy of the interpreter at the pinned, hardware-validated state plus fix: commits, sha256 recorded), the glue flattening, libstdc++'s uniform_int_distribution mapping, g++. States outside the alphabet (multi-field combinations beyond the bases) are not visited.",
            "DESIGN.md section 4, C01"),
    "C02": ("text", "exhaustive enumeration of all 65536 first words x start addresses through the real decode table, disassembler, assembler, generator and interpreter (fetch log from the memory observer); unused-bit flips taken from the table text",
            "The opcode space is finite and enumerated completely: row count, agreement of the four consumers on row and length, the exact fetch behaviour of one Run(1) at four start addresses (incl. above 0x1FFFF and near the end of program memory), knowledge of every rendered form by the assembler and the invariance under every bit the table text marks Unused<> are decided for every word; 64 loop programs (block repeat x single repeat x two-word instructions) are stepped cycle by cycle to show that the program counter never rests on an operand word, not for the four opcodes the suite executes.",
            "Trusted: gen_rec.py's parse of the INST table text (names cross-checked against the table object at run time), the memory-observer access log, g++.",
            "DESIGN.md section 4, C02"),
    "C03": ("isa", "exhaustive enumeration of every encoding of the add/sub/compare/logic/inc/dec/neg/rnd/copy families x boundary alphabets of both operands x saturation and flag pre-states, executed on the real interpreter and compared with exact __int128 arithmetic (independent oracle)",
            "All 65536 first words are decoded and every member of the families (about 11500 encodings incl. every condition code and operand form) is run on ~160 accumulator values x 24 operand values (40-bit x 40-bit for accumulator/product operands) x sata x flag pre-state; result, untouched accumulators and all eight flags are checked against exact integer arithmetic that shares no code with the interpreter, so a defect already present at the pinned commit would also show. The thorough tier sweeps all 65536 operand values per extension path.",
            "Trusted: the 60-line exact-arithmetic oracle, the transcription of operand encodings in engines/isa/isa_spec.h, g++ __int128. Carve-outs (documented hardware quirks) are listed in the evidence and remain under C01.",
            "DESIGN.md section 4, C03"),
    "C04": ("isa", "exhaustive enumeration of every encoding of the multiply, multiply-accumulate, shift, move-and-shift and exponent families x factor/value alphabets x all 65536 shift amounts (all 2^32 factor pairs in the thorough tier), compared with exact integer models",
            "Shift amounts are enumerated completely (every 16-bit sv) for one encoding per form and on a boundary set for the others, over both shift modes and saturation modes; multiply forms over 24x24 boundary factors x 4 half-word modes x product shifts x previous products, and in the thorough tier over all 2^32 factor pairs per sign selection (22 billion executions, about 9 minutes); the product-sum and dual-multiplier forms (app, mma*, sqr_*, mac1) over 8x8 factors on each unit x half-word mode, previous products x product shifts of both units x accumulators x sv x sata, each unit's product and the sum of the previous products checked separately; exponent over every (sign, run length) class. The models are exact integer arithmetic independent of the interpreter.",
            "Trusted: the exact models (shift, product, product read, exponent), isa_spec.h operand transcription, g++. Saturation after shift is taken to apply in arithmetic mode only; carry at shift amount 0 unchecked.",
            "DESIGN.md section 4, C04"),
    "C05": ("text", "exhaustive enumeration of all 65536 first words (x 12 second words, all 65536 in the thorough tier) through the real disassembler -> parser -> disassembler round trip, execution equality through libimpl.so, C binding under every buffer size with canaries, firmware sources through makedsp1's own main vs the shipped binaries",
            "Every renderable opcode is round-tripped and executed, every text-collision class is checked against the unused-bit masks, the C binding is driven with every buffer size 0..len+2 on a stride of opcodes (and a large size on all), and all four firmware sources are assembled and compared byte for byte with the shipped cdc.bin and walked back instruction by instruction.",
            "Trusted: canary-based detection of out-of-buffer writes (512 guard bytes each side), makedsp1's main compiled with -Dmain=, g++. Execution equality uses 5 base states.",
            "DESIGN.md section 4, C05"),
    "C06": ("sys", "exhaustive enumeration of every partition of the cycle budget (all 2-partitions, 3-partitions, host events at every boundary) for every program of a generated family, compared with the n x Run(1) trace of the same program on the real machine",
            "For each of ~30k generated programs (idle/busy main lines, six handler kinds, timer modes/start values/routing, second timer, audio periods and fills, mailbox/semaphore/software-IRQ events at every cycle position, conditional self-branches taken and not taken) the real machine is run once per slicing and its complete observable state after every slice (registers incl. hidden banks, latches, timers, audio port, ICU, APBP, stack, ordered callback log) is compared with the single-step trace. The set of slicings is enumerated completely for 2 (and 3) slices, which is where an idle fast-forward bug has to show.",
            "Trusted: snapshot/restore of the plain machine state (MMIO cell backing words are never written with unmodelled bits), g++. Programs are limited to the generated family and n<=48 cycles; the idle flag internal to a Run call is not compared.",
            "DESIGN.md section 4, C06"),
    "C07": ("sys", "explicit-state breadth-first search over the real ICU + interpreter + register file (snapshot/restore through the facade), reference interrupt model stepped in lock-step on every transition",
            "Two layers: all event sequences up to the depth bound over the full alphabet (trigger, acknowledge and routing of every subset of an IRQ triple, ie/im/imv/ic/cpc writes, whole-word writes of st0/st2/mod3/stt2/icr, Run(1) and Run(3) of a fixed program with reti/retic/staying handlers and a two-word-branch, rep or brr-idle main line, a one-shot timer that fires inside a later Run), and the complete reachable state set of fixed routing/mask configurations over trigger/acknowledge/ie/step. After every event the projected real state (request, routing, latches, ip/im/ie, pc, sp, stack words, repeat state, banked im) must equal the model's, which encodes exactly-once delivery, priority, masking, rep blocking, pushed return address and acknowledge semantics. Plus the finite wiring check of the nine peripheral sources.",
            "Trusted: the 170-line reference model (incl. a 6-instruction interpreter for the fixed program and a one-shot timer), snapshot/restore of registers/ICU/latches, g++. Nesting bounded at 2; IRQ alphabets of three indices per run (all 16 indices appear across runs).",
            "DESIGN.md section 4, C07"),
    "C08": ("isa", "exhaustive enumeration of round-trip program pairs (every push/pop operand, call/return form x condition x word order, interrupt entry/exit, context and bank exchanges) x state alphabet on the real interpreter, metamorphic identities as oracle",
            "Every pushable/poppable operand encoding, every call form with all 16 conditions, both program-counter word orders, three stack positions, every interrupt line with and without context switching, a fixed-line and a vectored request at the same boundary, and all 64 bank-exchange flag sets are executed from ~7700 states (8 bases and every 1-field deviation of each incl. the hidden banks; the thorough tier adds every 2-field deviation of the reset base, 276k states); the identity 'the round trip restores sp, pc, the operand and every other register' is checked field by field, so no reference is needed and defects already present at the pinned commit would show.",
            "Trusted: the hand-assembled opcodes in engines/isa/c08_stack.h, isa_spec.h, g++. Preconditions as in the statement (saturation disabled, no loop active, product shift 0, 33rd product bit consistent).",
            "DESIGN.md section 4, C08"),
    "C09": ("isa", "exhaustive enumeration of a generated loop-program family (counts, bodies, nesting shapes up to depth 4, register/immediate counts, store/restore of frames) on the real interpreter, each compared with its unrolled program (program-pair equivalence)",
            "Every program of the family (4 base states in two program pages; rep with counts 0..8,255,256,65535 x 12 bodies and the count taken from every Register operand incl. halves of accumulators outside the 32-bit range; bkrep with all 1-3 instruction bodies x counts 0..3, two-word last instruction, every nesting shape to depth 4 with counts in {0,1,2}, rep inside blocks incl. as last instruction, break, frame store/restore at depth 0-4) is executed and compared with its straight-line unrolling on the same interpreter; equality is over the whole register file except the loop-control registers plus the multiset of memory writes; the visible counter sequence and the cleared loop state are checked explicitly.",
            "Trusted: the program generator/unroller (60 lines), hand-assembled opcodes, g++. Each nesting level ends at its own address (precondition recorded in DESIGN).",
            "DESIGN.md section 4, C09"),
    "C10": ("isa", "exhaustive enumeration of address-register stepping: all 8 registers x all 65536 start values x step kinds x modes, all 512 modulo values x all offsets, all 128 configured steps, every ar/arp selector and step code, through the real addressing instructions; linear / cyclic-walk / bit-reverse arithmetic as oracle",
            "The value domains of this property are small enough to sweep completely per dimension (every start address, every modulo value with every offset, every 7-bit step, every selector), so the stepping rules are decided for the whole space rather than at sampled points; the access address is read from the memory observer, so 'uses the pre-modified / bit-reversed value' is checked on the real access. Two generic layers run over all 65536 first words: every form that names address registers with steps (directly, or through ar/arp selectors in 4 configurations) must step them as configured, and every form that accesses memory at an address register's value must access the bit-reversed address once bit reversal is enabled for that register.",
            "Trusted: the 50-line step model written from the statement, hand-assembled addressing opcodes, g++. With modulo enabled only steps +1/-1/0 are defined by the statement (other steps: alignment guarantee only).",
            "DESIGN.md section 4, C10"),
    "C11": ("sys", "exhaustive enumeration of all 2^18 memory words x all views (host accessors, raw bytes, instruction fetch, 13 guest load/store forms, movp/movd) and of all MMIO window bases x boundary offsets on the real machine, memory observer as write oracle",
            "The memory is small enough to visit every word through every view, for both banks and both memory-ownership modes, so the address arithmetic of the statement is decided completely rather than at sampled addresses; every window base k*0x200 (and off-grid bases) is checked at both edges for register-vs-memory routing, with the memory observer proving that no write reaches the cell underneath; stores into program memory must be seen by the next fetch inside one Run call (next instruction, under rep, at the end of a block).",
            "Trusted: hand-assembled opcodes of the load/store forms, the memory-observer hook, g++. Default paging mode only.",
            "DESIGN.md section 4, C11"),
    "C12": ("sys", "exhaustive enumeration of write histories over all MMIO offsets x value alphabet x paths x prefixes on the real MMIORegion, checked against a documented field/coupling table after every write (read-all before and after)",
            "Every even offset is written with 20 values through both paths from 7 prefixes; the complete register image is read before and after every write, so read-back of documented RW fields and absence of undocumented aliasing are decided for every (state, offset, value) visited, not sampled; ordered register pairs inside each block, the 8 DMA channel windows, the 32 mirrors and 7 window bases are enumerated completely.",
            "Trusted: spec/mmio_fields.h (field classes and couplings transcribed from the *.md layouts), g++. Values restricted to 0/FFFF/5555/AAAA/single bits; DMA channel selector to its 3 documented bits.",
            "DESIGN.md section 4, C12"),
    "C13": ("periph", "exhaustive enumeration of a bounded DMA configuration space on the real Dma/Ahbm, nested-loop reference model stepped per configuration, exact write log from the memory observer",
            "Every configuration of the declared size/step/mode/space/channel/overlap product is executed on the real code and compared element by element (ordered DSP write log, ordered external access logs, interrupt count) with a 40-line reference; this decides the property for the whole bounded configuration space, which is what a strided-copy bug needs to show up (sizes 0..3 reach every branch of the three nested counters).",
            "Trusted: the reference nested loop, the memory-observer hook, g++. Addresses are kept inside the data space (out-of-range strides are C18's subject); external side restricted to naturally aligned units and whole bursts as the statement says.",
            "DESIGN.md section 4, C13"),
    "C14": ("sys", "explicit-state breadth-first search over the two real Apbp objects inside a Teakra (host API vs DSP-side MMIO), reference handshake model in lock-step, invariant evaluated in every reached state",
            "Every event sequence up to the depth bound over the combined 76-event alphabet, plus the complete reachable state set of every component (6 data channels, 2 semaphore directions) and of every pair of components, is executed on the real facade; each transition is compared with the statement's handshake model (state, returned value, ICU line, host callbacks) and the signal/ready-flag views are compared in every state. Cross-talk between channels or directions (wrong index in the wiring) shows up at depth 1-2; the pairwise fixpoints close the state space because components share no state.",
            "Trusted: the reference handshake model, g++, snapshot/restore of Apbp fields through -fno-access-control. Payloads restricted to {1,2}, semaphore bits to {0,1,15}.",
            "DESIGN.md section 4, C14"),
    "C15": ("periph", "explicit-state breadth-first search over the real Timer object, reference model in lock-step on every transition, Skip(k) vs k x Tick differential on every state",
            "All states of the timer reachable within the depth bound over the full alphabet, and the complete reachable set of the finite sub-machine (start<=3, no free-running), are visited; in every state every event including Skip(k) for every k up to the reported horizon is applied to the real object and compared with the statement's model and with k real Ticks; a third layer puts two timers on one CoreTiming (180 x 180 state pairs x 7 budgets) and compares the aggregated fast-forward with that many aggregated cycles; a fourth layer reaches its states by replaying event histories on freshly constructed timers (depth 9/12, nodes merged on public fields plus a behavioural probe), so state a Timer keeps beyond its public fields is the product of a real history.",
            "Trusted: the 60-line reference model of the statement, g++. Time scale fixed at 0. Counter values beyond those reachable from the start alphabet {0,1,2,3,0xFFFF}x{0,1,0xFFFF} within the depth are not visited.",
            "DESIGN.md section 4, C15"),
    "C16": ("periph", "explicit-state breadth-first search to fixpoint over the real Btdmp object per period, reference FIFO + frame clock in lock-step, Skip(k) vs k x Tick differential",
            "For each period and value labelling the complete reachable state set (clock phase x enable x flags x queue fill 0..16) is enumerated; every event in every state is executed on the real object and compared with the reference FIFO (frames, order, flags, interrupt count, queue content), and Skip(k) for every k up to the reported horizon is compared with k real Ticks; every transition runs on a freshly constructed device, and a further layer drives the port through CoreTiming::Skip / Tick the way the interpreter's idle fast-forward does.",
            "Trusted: the reference FIFO model, g++. Period fixed before the first cycle; period 0 and period changes are outside the statement. Queue values are consecutive sequence numbers relabelled per state (the device never inspects values).",
            "DESIGN.md section 4, C16"),
    "C17": ("sys", "exhaustive enumeration of API call histories up to a depth bound on real instances built over controlled heap fill patterns, observation equality between instances and between h1;Reset;h2 and fresh;Reset;h2",
            "All histories of length <= 2 over a 34-call API alphabet are executed on three instances whose heap is pre-filled with different patterns (with and without an initial Reset), and every pair (h1 of length <= 2, h2 of length <= 1) is executed as h1;Reset;h2 and compared with fresh;Reset;h2; the observation covers every modelled component (registers incl. hidden banks, latches, MIU, ICU incl. vectors, APBP, timers, audio port, DMA, AHBM incl. burst queues, the whole memory, host getters, callback log). A third layer repeats the Reset comparison with host-supplied DSP memory (instance in a buffer full of 0x5A, reference in a zeroed one). Uninitialised members and incomplete resets are history-dependent bugs that need exactly this kind of exhaustive pairing to show.",
            "Trusted: operator-new replacement as the allocation seam (malloc'd memory is not filled), g++, -fno-access-control observation of private state. Raw backing words of unimplemented MMIO fields and DMA transfer-internal counters are not observed.",
            "DESIGN.md section 4, C17"),
    "C18": ("safety", "exhaustive enumeration of guest-controllable inputs (all 65536 opcodes x second words x reachable states x pc/prpage extremes, all opcodes x boundary values of the shift-amount register, control-flow forms to the edges of program memory, every MMIO offset x value alphabet x both paths, DMA/AHBM configuration extremes) on a sanitizer build, with the memory observer rejecting any out-of-range DSP memory word address; outcome classification per case",
            "Each family is a finite product that is executed completely (the DMA mode product is reduced in the quick tier); every case runs in a supervised child so that a sanitizer abort, a libstdc++ index assertion, a bounds-oracle hit or a hang is attributed to exactly one case and replayed alone; acceptable outcomes are exactly the three the statement allows.",
            "Trusted: clang 14 AddressSanitizer/UBSan (incl. detect_stack_use_after_return), _GLIBCXX_ASSERTIONS, the memory-observer hook, the 10 s per-case watchdog. Register states are reachable ones; uninitialised reads are outside ASan's scope (C17 covers constructor-uninitialised members).",
            "DESIGN.md section 4, C18"),
    "C19": ("sched", "stateless model checking of the real code under a controlled scheduler: DFS over all schedules of eight two-thread harnesses up to a preemption bound (iterative 0..4, thorough 0..10), state-hash pruning at choice points, per-schedule oracle; data races by ThreadSanitizer in a separate free-running pass of the same bodies",
            "Every interleaving of the host API calls and the DSP's instruction stream at the granularity of lock operations, latch accesses and instruction/call boundaries is executed up to the preemption bound, so lost updates, check-then-act windows, missed interrupt deliveries and (self-)deadlocks that need up to four (ten) specific preemptions are found deterministically and replayed from a recorded schedule; unsynchronised accesses, which a serialising scheduler cannot see, are caught by ThreadSanitizer on the same bodies running free.",
            "Trusted: the scheduler (coroutines, mutex ownership model incl. recursive mutexes, yield/spin detection), glibc's pthread_mutex_t kind field, ThreadSanitizer, g++/clang. Sequential consistency assumed for the explored interleavings; two threads; DSP horizon 120-160 instructions.",
            "DESIGN.md section 4, C19"),
    "C20": ("isa", "exhaustive enumeration of all 65536 values of each of the 19 status/config words from a state alphabet through the real pseudo-register accessors and instruction paths, against a hand-written bit-layout table (field-by-field equality of the whole register file, alias read-back, depth-2 aliased writes)",
            "Each word has only 65536 values, so write/read-back/frame behaviour is decided for every value from every base state, and from every 1-field deviation for a value alphabet; the oracle is a layout table applied to the flattened register file, so a wrong bit position, a field written that the word does not map, a read-only bit that becomes writable or an alias that drifts apart is found whatever the value. The interpreter's own reading of the ar/arp words is checked through executed instructions: for every opcode whose form selects a register through ar/arp, all offset codes are written into the selected slot (decoys elsewhere) and the addresses touched next to the selected register must be displaced by exactly that slot's offset.",
            "Trusted: the layout table in engines/isa/c20_words.h (transcribed from the TeakLite/Teak register layouts; cross-checked against the flag legends printed by test_verifier), the glue flattening, g++. The annotated disassembler's reading of ar/arp is covered with C05's text engine.",
            "DESIGN.md section 4, C20"),
}

# layers added by the later seeded-defect rounds (appended to the level text)
ADDENDA = {
    "C01": "Added later: the addressing configuration as a cluster (18 modulo values x 128 steps x 16 mode combinations x 6 positions), every opcode from 52 repeat/block-repeat states, and tie states (accumulators equal to the memory word an address register points at / to each other).",
    "C02": "Added later: the interpreter's own 65536-entry dispatch table must hold the decoder's row for every word; the assembler's word for the printed text may differ from the original only in bits the form declares unused; the generator's own expansion kind; second-word unused bits; loop programs stepped cycle by cycle.",
    "C03": "Added later: the 16-bit movr forms are checked for their overflow flags (their value and carry are a documented quirk compared by C01).",
    "C04": "Added later: product-sum / dual-multiplier forms, normalisation, and the product named as a 16-bit Register operand (movs p, exp p, mpy y0,p) under every product-shift mode.",
    "C06": "Added later: paused timers, long-horizon family (x40), conditional self-branches, full audio queues, start registers rewritten without a restart (by the host or by the handler), the second audio port (no listener).",
    "C07": "Added later: whole-word status writes, Run(3), a one-shot timer source, vector registers reprogrammed at run time (second handler address, context flag); thorough = full alphabet to depth 5 on six IRQ triples plus the core alphabet to depth 6; routing histories (an IRQ routed to two destinations, one rewritten, IRQ raised without a state restore in between).",
    "C08": "Added later: two simultaneous requests, a handler that changes the flags, conditional returns, clobbered product.",
    "C09": "Added later: counts from every Register operand, frames stored/restored through every pointer, loops abandoned by icr/stt2 writes, icr writes (loop bit clear) as loop bodies.",
    "C10": "Added later: generic layers over every opcode that names an address register (steps as configured, with modulo on at both buffer ends, with end-pointer mode; bit-reversed access address), two-instruction sequences, configuration instructions followed by a step.",
    "C11": "Added later: self-modifying stores seen by the next fetch, raw pointer stability across Reset, flat accesses with the other bank selected.",
    "C12": "Added later: field-value sweeps, DMA start through configured AHBM channels, mailbox REPLY registers read back.",
    "C13": "Added later: larger size/step products, shared AHBM masks, skewed burst starts.",
    "C15": "Added later: two timers on one CoreTiming, histories replayed on fresh objects, both timers through their MMIO registers inside a Teakra.",
    "C16": "Added later: the port behind CoreTiming, exploration without a listener, skips over 9-40 periods where the horizon is unbounded.",
    "C17": "Added later: host-supplied memory, every documented RW field of every peripheral / DMA channel / vector written before Reset, register words of fresh instances compared.",
    "C18": "Added later: shift-amount boundaries x every opcode, reserved bits of the ar/arp words x every opcode, audio-port scripts, a state with exactly one open loop.",
    "C19": "Added later: twelve harnesses (interrupt echo on int0/int1/int2/vectored/vectored-only, send while handling, semaphore unmask after clear).",
    "C20": "Added later: offset/step meanings of the ar/arp words through every addressed opcode, set/rst/chng and load instructions on the words.",
}

PENDING_REASON = "check not built yet in this session (engine under construction); see DESIGN.md section 4 for the planned exhaustive exploration"


def main():
    ids = [json.loads(l)["id"] for l in open(os.path.join(VERIF, "properties.jsonl"))]
    try:
        commits = subprocess.run(["git", "-C", "/repo", "log", "--format=%H %s"], capture_output=True, text=True).stdout.splitlines()
        hooks = [c.split()[0] for c in commits if " verif hook:" in c]
        hooks.reverse()
    except Exception:
        hooks = []
    checks = []
    for pid in ids:
        if pid not in CLAIMED:
            continue
        eng, tech, text, note, ref = CLAIMED[pid]
        if pid in ADDENDA:
            text = text + " " + ADDENDA[pid]
        note = note + " Peripheral state is read by member name where the pinned layout is present and through the public interface otherwise (engines/common/adapters.h)." if eng in ("sys", "periph", "sched", "safety") else note
        checks.append({
            "property_id": pid,
            "quick_cmd": "./check %s quick" % pid,
            "thorough_cmd": "./check %s thorough" % pid,
            "evidence_file": "/verif/evidence/%s.json" % pid,
            "replay_cmd_template": "./check %s --replay {path}" % pid,
            "engine": eng,
            "level_claimed": {"category": "model_checking", "text": text, "design_ref": ref},
            "level_note": note,
            "technique": tech,
        })
    manifest = {
        "version": 1,
        "setup_cmd": "./check --build-all",
        "hooks": {
            "guard": "TEAKRA_VERIF",
            "enable": "engines/Makefile compiles /repo/src directly with -DTEAKRA_VERIF (g++ -O2, clang++ ASan/UBSan, clang++ TSan variants) into /verif/build/impl-<sha256 of /repo sources>; /repo/_build is never touched",
            "baseline_off_cmd": "./tools/baseline_off.sh",
            "source_commits": hooks,
            "add_only": True,
        },
        "engines": ENGINES,
        "checks": checks,
        "not_applicable": [{"property_id": p, "reason": PENDING_REASON} for p in ids if p not in CLAIMED],
        "notes": "All checks are bounded exhaustive explorations on the real code (model checking family). known_findings.txt lists recorded findings and fix: commits.",
    }
    with open(os.path.join(VERIF, "MANIFEST.json"), "w") as fh:
        json.dump(manifest, fh, indent=1)
    print("MANIFEST.json: %d checks, %d not_applicable" % (len(checks), len(manifest["not_applicable"])))


if __name__ == "__main__":
    main()
