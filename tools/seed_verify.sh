#!/bin/bash
# Confirms a seeded defect delivered by a sub-agent and files it under /verif/seeded/<name>/.
#   tools/seed_verify.sh <PROPERTY> <agent-out-dir> <name> [check tier]
# Steps (all in a scratch worktree of /repo's HEAD, removed afterwards):
#   1. patch applies, project builds with CMake (hooks off), the 17 tests pass
#   2. demo FAILS with the patch, PASSES without it
#   3. VERIF_REPO=<worktree> ./check <PROPERTY> <tier>  -> records whether the check catches it
set -u
PROP=$1; SRC=$2; NAME=$3; TIER=${4:-quick}
ORIGWT=${ORIGWT:-/tmp/wt/$PROP}
WT=/tmp/wt/verify_$NAME
OUT=/verif/seeded/$NAME
rm -rf "$WT"; git -C /repo worktree prune
git -C /repo worktree add -q --detach "$WT" HEAD || exit 2
cleanup() { git -C /repo worktree remove --force "$WT" 2>/dev/null; rm -rf "$WT"; }
trap cleanup EXIT
log() { echo "[seed $NAME] $*"; }

if ! git -C "$WT" apply --check "$SRC/patch.diff" 2>/dev/null; then log "patch does not apply to HEAD"; exit 3; fi
git -C "$WT" apply "$SRC/patch.diff"
( cmake -G Ninja -S "$WT" -B "$WT/_build" -DCMAKE_BUILD_TYPE=RelWithDebInfo && cmake --build "$WT/_build" ) >"$WT/build.log" 2>&1 || { log "build FAILED"; tail -20 "$WT/build.log"; exit 3; }
ctest --test-dir "$WT/_build" >"$WT/ctest.log" 2>&1 || { log "unit tests FAIL with the patch"; tail -20 "$WT/ctest.log"; exit 3; }
log "builds, unit tests pass with the patch"

# demo: rewrite the agent's worktree path to ours
sed "s#$ORIGWT#$WT#g" "$SRC/demo.cpp" > "$WT/demo.cpp"
CMD=$(python3 - "$SRC/README.txt" "$ORIGWT" "$WT" <<'PYEOF'
import re, sys
lines = open(sys.argv[1]).read().split("\n")
cmd = None
for i, l in enumerate(lines):
    t = l.strip().lstrip("$ ").strip()
    if t.startswith("g++") or ("; g++ " in t and "=" in t.split("g++")[0]):
        parts = []
        j = i
        while True:
            t = lines[j].strip().lstrip("$ ").strip() if j == i else lines[j].strip()
            if t.endswith("\\"):
                parts.append(t[:-1].strip()); j += 1
            else:
                parts.append(t); break
        cmd = " ".join(parts)
        # shell variable assignments on the line(s) just before the command (S=/path ...) belong to it
        k = i - 1
        import re
        while k >= 0 and re.match(r"^[A-Za-z_][A-Za-z0-9_]*=\S+$", lines[k].strip().lstrip("$ ").strip()):
            cmd = lines[k].strip().lstrip("$ ").strip() + "; " + cmd
            k -= 1
        break
if not cmd:
    sys.exit(0)
cmd = cmd.split("&&")[0].strip()
cmd = cmd.replace(sys.argv[2], sys.argv[3])
cmd = re.sub(r"\S*demo[^ /]*\.cpp", sys.argv[3] + "/demo.cpp", cmd)
cmd = re.sub(r"-o\s+\S+", "", cmd) + " -o " + sys.argv[3] + "/demo_bin"
cmd = cmd.replace("<k>", "1").replace("/N/", "/1/")
print(cmd)
PYEOF
)
if [ -z "$CMD" ]; then log "no g++ command in README"; exit 3; fi
( cd "$WT" && eval "$CMD" ) >"$WT/demo_build.log" 2>&1 || { log "demo does not compile (patched)"; tail "$WT/demo_build.log"; exit 3; }
"$WT/demo_bin" >"$WT/demo_patched.log" 2>&1; RC1=$?
git -C "$WT" checkout -- .
( cd "$WT" && eval "$CMD" ) >"$WT/demo_build.log" 2>&1 || { log "demo does not compile (original)"; exit 3; }
"$WT/demo_bin" >"$WT/demo_orig.log" 2>&1; RC0=$?
log "demo: patched rc=$RC1, original rc=$RC0"
if [ "$RC1" = 0 ] || [ "$RC0" != 0 ]; then log "demo does not discriminate -> rejected"; exit 4; fi

git -C "$WT" apply "$SRC/patch.diff"
rm -rf "$WT/_build"
T0=$(date +%s)
( cd ${VERIF_CHECK_DIR:-/verif} && VERIF_REPO="$WT" ./check "$PROP" "$TIER" ) >"$WT/check.log" 2>&1; CRC=$?
T1=$(date +%s)
log "check $PROP $TIER on the patched tree: rc=$CRC ($((T1-T0))s)"
grep -E "^VIOLATION|^KNOWN|^ENGINE|^BUILD|^HARNESS" "$WT/check.log" | head -5
mkdir -p "$OUT"
cp "$SRC/patch.diff" "$OUT/patch.diff"; cp "$SRC/demo.cpp" "$OUT/demo.cpp"; cp "$SRC/README.txt" "$OUT/README.txt"
grep -E "^VIOLATION|^  key:" "$WT/check.log" | head -6 > "$OUT/check_output.txt"
python3 - "$PROP" "$NAME" "$CRC" "$TIER" "$OUT" "$RC1" "$RC0" <<'EOF'
import json, sys, subprocess
prop, name, crc, tier, out, rc1, rc0 = sys.argv[1:]
readme = open(out + "/README.txt").read()
meta = {
    "property": prop,
    "name": name,
    "origin": "independent sub-agent given only the property text and a scratch worktree",
    "needs_to_manifest": "see README.txt (agent's description)",
    "base_commit": subprocess.run(["git", "-C", "/repo", "rev-parse", "--short", "HEAD"], capture_output=True, text=True).stdout.strip(),
    "confirmed": {
        "compiles_and_unit_tests_pass_with_patch": True,
        "demo_exit_patched": int(rc1),
        "demo_exit_original": int(rc0),
    },
    "check": {"cmd": "VERIF_REPO=<scratch worktree with patch> ./check %s %s" % (prop, tier), "exit": int(crc),
              "detected": int(crc) == 1},
}
json.dump(meta, open(out + "/meta.json", "w"), indent=1)
print("[seed %s] filed under %s detected=%s" % (name, out, meta["check"]["detected"]))
EOF
exit 0
