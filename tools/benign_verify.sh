#!/bin/bash
# Confirms a behaviour-preserving refactoring delivered by a sub-agent and records that the checks stay silent on it.
#   tools/benign_verify.sh <PROPERTY> <agent-out-dir> <name> [extra check ids...]
# Steps (scratch worktree of /repo's HEAD, removed afterwards):
#   1. patch applies, project builds with CMake (hooks off), the 17 tests pass
#   2. the agent's demo PASSES with and without the patch
#   3. VERIF_REPO=<worktree> ./check <PROPERTY> quick (and the extra checks) must exit 0 without a VIOLATION line
# Filed under /verif/seeded/benign/<name>/ (meta.json: alarm true/false per check).
set -u
PROP=$1; SRC=$2; NAME=$3; shift 3; EXTRA="$@"
ORIGWT=${ORIGWT:-/tmp/wt/$PROP}
WT=/tmp/wt/verify_$NAME
OUT=/verif/seeded/benign/$NAME
rm -rf "$WT"; git -C /repo worktree prune
git -C /repo worktree add -q --detach "$WT" HEAD || exit 2
cleanup() { git -C /repo worktree remove --force "$WT" 2>/dev/null; rm -rf "$WT"; }
trap cleanup EXIT
log() { echo "[benign $NAME] $*"; }
if ! git -C "$WT" apply --check "$SRC/patch.diff" 2>/dev/null; then log "patch does not apply to HEAD"; exit 3; fi
git -C "$WT" apply "$SRC/patch.diff"
( cmake -G Ninja -S "$WT" -B "$WT/_build" -DCMAKE_BUILD_TYPE=RelWithDebInfo && cmake --build "$WT/_build" ) >"$WT/build.log" 2>&1 || { log "build FAILED"; tail -20 "$WT/build.log"; exit 3; }
ctest --test-dir "$WT/_build" >"$WT/ctest.log" 2>&1 || { log "unit tests FAIL with the patch"; exit 3; }
sed "s#$ORIGWT#$WT#g" "$SRC/demo.cpp" > "$WT/demo.cpp"
CMD=$(python3 - "$SRC/README.txt" "$ORIGWT" "$WT" <<'PYEOF'
import re, sys
lines = open(sys.argv[1]).read().split("\n")
cmd = None
for i, l in enumerate(lines):
    t = l.strip().lstrip("$ ").strip()
    if t.startswith("g++") or ("; g++ " in t and "=" in t.split("g++")[0]):
        parts = []; j = i
        while True:
            t = lines[j].strip().lstrip("$ ").strip() if j == i else lines[j].strip()
            if t.endswith("\\"):
                parts.append(t[:-1].strip()); j += 1
            else:
                parts.append(t); break
        cmd = " ".join(parts)
        k = i - 1
        while k >= 0 and re.match(r"^[A-Za-z_][A-Za-z0-9_]*=\S+$", lines[k].strip().lstrip("$ ").strip()):
            cmd = lines[k].strip().lstrip("$ ").strip() + "; " + cmd; k -= 1
        break
if not cmd: sys.exit(0)
cmd = cmd.split("&&")[0].strip().replace(sys.argv[2], sys.argv[3])
cmd = re.sub(r"\S*demo[^ /]*\.cpp", sys.argv[3] + "/demo.cpp", cmd)
cmd = re.sub(r"-o\s+\S+", "", cmd) + " -o " + sys.argv[3] + "/demo_bin"
print(cmd.replace("<k>", "2").replace("/N/", "/2/"))
PYEOF
)
RC1=NA; RC0=NA
if [ -n "$CMD" ]; then
  if ( cd "$WT" && eval "$CMD" ) >"$WT/demo_build.log" 2>&1; then "$WT/demo_bin" >"$WT/demo_patched.log" 2>&1; RC1=$?; fi
  git -C "$WT" checkout -- .
  if ( cd "$WT" && eval "$CMD" ) >"$WT/demo_build.log" 2>&1; then "$WT/demo_bin" >"$WT/demo_orig.log" 2>&1; RC0=$?; fi
  git -C "$WT" apply "$SRC/patch.diff"
fi
log "builds, unit tests pass; demo: patched rc=$RC1 original rc=$RC0"
if [ "$RC1" != 0 ] && [ "$RC1" != NA ]; then log "the agent's own demo fails on the refactored tree -> not benign, rejected"; exit 4; fi
rm -rf "$WT/_build"
mkdir -p "$OUT"; cp "$SRC/patch.diff" "$SRC/demo.cpp" "$SRC/README.txt" "$OUT/" 2>/dev/null
RES=""
for id in $PROP $EXTRA; do
  T0=$(date +%s)
  ( cd ${VERIF_CHECK_DIR:-/verif} && VERIF_REPO="$WT" ./check "$id" quick ) >"$WT/check_$id.log" 2>&1; CRC=$?
  T1=$(date +%s)
  NV=$(grep -c '^VIOLATION' "$WT/check_$id.log")
  log "check $id quick on the refactored tree: rc=$CRC violations=$NV ($((T1-T0))s)"
  grep -E "^VIOLATION|^  key:|^ENGINE|^HARNESS|^UNCONFIRMED" "$WT/check_$id.log" | head -6 > "$OUT/check_$id.txt"
  RES="$RES $id:$CRC:$NV"
done
python3 - "$PROP" "$NAME" "$OUT" "$RC1" "$RC0" $RES <<'EOF'
import json, sys, subprocess
prop, name, out, rc1, rc0 = sys.argv[1:6]
checks = {}
for r in sys.argv[6:]:
    i, rc, nv = r.split(":")
    checks[i] = {"exit": int(rc), "violation_lines": int(nv), "alarm": int(rc) != 0 or int(nv) != 0}
meta = {"property": prop, "name": name, "kind": "behaviour-preserving refactoring (the property must still hold; the check must stay silent)",
        "origin": "independent sub-agent given only the property text and a scratch worktree",
        "base_commit": subprocess.run(["git", "-C", "/repo", "rev-parse", "--short", "HEAD"], capture_output=True, text=True).stdout.strip(),
        "confirmed": {"compiles_and_unit_tests_pass_with_patch": True, "demo_exit_patched": rc1, "demo_exit_original": rc0},
        "checks": checks, "false_alarm": any(c["alarm"] for c in checks.values())}
json.dump(meta, open(out + "/meta.json", "w"), indent=1)
print("[benign %s] filed under %s false_alarm=%s" % (name, out, meta["false_alarm"]))
EOF
exit 0
