#!/bin/bash
# tools/run_all.sh <quick|thorough> [ids...]  — run the checks one after another, one summary line each.
T=${1:-quick}; shift
IDS=${@:-C01 C02 C03 C04 C05 C06 C07 C08 C09 C10 C11 C12 C13 C14 C15 C16 C17 C18 C19 C20}
cd /verif
for id in $IDS; do
  s=$(date +%s)
  out=$(./check $id $T 2>&1); rc=$?
  e=$(( $(date +%s) - s ))
  echo "$id $T rc=$rc wall=${e}s :: $(echo "$out" | tail -1)"
  echo "$out" | grep -E '^(VIOLATION|KNOWN-FINDING|ENGINE-FAILED|HARNESS)' | head -5
done
