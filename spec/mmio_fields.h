// Specification table for C12, written from the register layouts in src/{timer,apbp,ahbm,miu,dma,icu,
// btdmp}.md (NOT from mmio.cpp): which bit ranges are documented read/write fields, which registers
// are status/trigger/FIFO registers, and the documented couplings between registers.
#pragma once
#include <cstdint>
#include <vector>

namespace spec {
enum Cls : int {
    RW,      // reads back the last value written
    RO,      // status / constant: writes do not have to stick, reads defined elsewhere
    TRIG,    // write-1 action bit(s); reads back 0
    W1S,     // write-1-to-set view (reads: accumulated bits)
    FIFO,    // data port with side effects on read and/or write
    MIRROR,  // counter mirror: changes only through the documented timer coupling
};
struct Field {
    std::uint16_t off;
    int lo, width;
    Cls cls;
    const char* name;
};

inline std::vector<Field> MmioFields() {
    std::vector<Field> f;
    auto add = [&](std::uint16_t off, int lo, int w, Cls c, const char* n) { f.push_back({off, lo, w, c, n}); };
    for (std::uint16_t t = 0; t < 2; ++t) {
        std::uint16_t b = 0x20 + t * 0x10;
        add(b, 0, 2, RW, "TIMER_TS");
        add(b, 2, 3, RW, "TIMER_CM");
        add(b, 6, 1, RW, "TIMER_TP");
        add(b, 8, 1, RW, "TIMER_PC");
        add(b, 9, 1, RW, "TIMER_MU");
        add(b, 10, 1, TRIG, "TIMER_RES");
        add(b, 11, 1, RW, "TIMER_BP");
        add(b, 12, 1, RW, "TIMER_CS");
        add(b, 13, 1, RW, "TIMER_GP");
        add(b, 14, 2, RW, "TIMER_TM");
        add(b + 2, 0, 1, TRIG, "TIMER_EW");
        add(b + 4, 0, 16, RW, "TIMER_START_L");
        add(b + 6, 0, 16, RW, "TIMER_START_H");
        add(b + 8, 0, 16, MIRROR, "TIMER_COUNTER_L");
        add(b + 10, 0, 16, MIRROR, "TIMER_COUNTER_H");
        add(b + 12, 0, 16, RW, "TIMER_PWM_L");
        add(b + 14, 0, 16, RW, "TIMER_PWM_H");
    }
    for (std::uint16_t i = 0; i < 3; ++i) {
        add(0xC0 + i * 4, 0, 16, RW, "APBP_REPLY"); // DSP-side read-back is a peek of the word it sent last (apbp.md: a new word overwrites an unread one)
        add(0xC2 + i * 4, 0, 16, FIFO, "APBP_CMD");
    }
    add(0xCC, 0, 16, W1S, "APBP_SET_SEMAPHORE");
    add(0xCE, 0, 16, RW, "APBP_MASK_SEMAPHORE");
    add(0xD0, 0, 16, TRIG, "APBP_ACK_SEMAPHORE");
    add(0xD2, 0, 16, RO, "APBP_GET_SEMAPHORE");
    add(0xD4, 2, 1, RW, "APBP_END");
    add(0xD4, 8, 1, RW, "APBP_CI0");
    add(0xD4, 12, 1, RW, "APBP_CI1");
    add(0xD4, 13, 1, RW, "APBP_CI2");
    add(0xD6, 0, 16, RO, "APBP_STATUS");
    add(0xD8, 0, 16, RO, "APBP_PSTS");
    add(0xE0, 0, 16, RO, "AHBM_STATUS");
    for (std::uint16_t n = 0; n < 3; ++n) {
        add(0xE2 + n * 6, 0, 1, RW, "AHBM_R");
        add(0xE2 + n * 6, 1, 2, RW, "AHBM_BURST");
        add(0xE2 + n * 6, 4, 2, RW, "AHBM_TYPE");
        add(0xE4 + n * 6, 8, 1, RW, "AHBM_W");
        add(0xE4 + n * 6, 9, 1, RW, "AHBM_E");
        add(0xE6 + n * 6, 0, 8, RW, "AHBM_D");
    }
    for (std::uint16_t o : {0x100, 0x102, 0x104, 0x106, 0x108, 0x10A})
        add(o, 0, 16, RW, "MIU_WS");
    add(0x10E, 0, 16, RW, "MIU_XPAGE");
    add(0x110, 0, 8, RW, "MIU_YPAGE");
    add(0x112, 0, 16, RW, "MIU_ZPAGE");
    for (std::uint16_t o : {0x114, 0x116, 0x118}) {
        add(o, 0, 6, RW, "MIU_XPAGECFG");
        add(o, 8, 6, RW, "MIU_YPAGECFG");
    }
    add(0x11A, 0, 1, RW, "MIU_PP");
    add(0x11A, 1, 1, RW, "MIU_TSP");
    add(0x11A, 2, 1, RW, "MIU_INP");
    add(0x11A, 4, 1, RW, "MIU_ZSP");
    add(0x11A, 6, 1, RW, "MIU_PGM");
    add(0x11C, 0, 1, RW, "MIU_DLP");
    add(0x11C, 2, 4, RW, "MIU_PDLPAGE");
    add(0x11C, 6, 1, RW, "MIU_PDP");
    add(0x11E, 10, 6, RW, "MIU_MMIOBASE");
    add(0x120, 0, 4, RW, "MIU_OBS");
    add(0x122, 0, 7, RW, "MIU_POLARITY");
    add(0x184, 0, 8, RW, "DMA_ENABLE");
    add(0x18C, 0, 16, RO, "DMA_END_FLAGS");
    add(0x1BE, 0, 3, RW, "DMA_CHANNEL");
    for (std::uint16_t o = 0x1C0; o <= 0x1D8; o += 2)
        add(o, 0, 16, RW, "DMA_CHANNEL_REG");
    add(0x1DA, 0, 4, RW, "DMA_SRC_SPACE");
    add(0x1DA, 4, 4, RW, "DMA_DST_SPACE");
    add(0x1DA, 10, 1, RW, "DMA_DWM");
    add(0x1DC, 0, 16, RO, "DMA_CFG_DC");  // layout only partly known: not claimed
    add(0x1DE, 0, 16, RO, "DMA_CTRL_DE"); // start/reset bits: not claimed as RW
    add(0x200, 0, 16, RO, "ICU_PENDING");
    add(0x202, 0, 16, TRIG, "ICU_ACK");
    add(0x204, 0, 16, TRIG, "ICU_TRIGGER");
    add(0x206, 0, 16, RW, "ICU_INT0");
    add(0x208, 0, 16, RW, "ICU_INT1");
    add(0x20A, 0, 16, RW, "ICU_INT2");
    add(0x20C, 0, 16, RW, "ICU_VINT");
    add(0x20E, 0, 16, RW, "ICU_TP");
    add(0x210, 0, 16, RW, "ICU_PL");
    for (std::uint16_t n = 0; n < 16; ++n) {
        add(0x212 + n * 4, 0, 2, RW, "ICU_VADDR_H");
        add(0x212 + n * 4, 15, 1, RW, "ICU_VIC");
        add(0x214 + n * 4, 0, 16, RW, "ICU_VADDR_L");
    }
    for (std::uint16_t p = 0; p < 2; ++p) {
        std::uint16_t b = 0x280 + p * 0x80;
        add(b + 0x00, 9, 1, RW, "BTDMP_RIR");
        add(b + 0x1E, 15, 1, RW, "BTDMP_RE");
        add(b + 0x20, 9, 1, RW, "BTDMP_TIR");
        add(b + 0x22, 0, 16, RW, "BTDMP_TX_CLOCK");
        add(b + 0x3E, 15, 1, RW, "BTDMP_TE");
        add(b + 0x40, 0, 16, RO, "BTDMP_RX_STATUS");
        add(b + 0x42, 0, 16, RO, "BTDMP_TX_STATUS");
        add(b + 0x44, 0, 16, FIFO, "BTDMP_RX_FIFO");
        add(b + 0x46, 0, 16, FIFO, "BTDMP_TX_FIFO");
        // flush flags: "application sets and then spin-waits on this flag" - read-back timing is not documented
        add(b + 0x48, 0, 16, FIFO, "BTDMP_RX_FLUSH");
        add(b + 0x4A, 0, 16, FIFO, "BTDMP_TX_FLUSH");
    }
    return f;
}

// Documented couplings: may a write (or read, for FIFO ports) of register `a` change the read-back of
// register `b` (b != a)?
inline bool Coupled(std::uint16_t a, std::uint16_t b) {
    auto in = [](std::uint16_t x, std::uint16_t lo, std::uint16_t hi) { return x >= lo && x <= hi; };
    // DMA channel-window select exposes another channel's copies
    if (a == 0x1BE && in(b, 0x1C0, 0x1DE))
        return true;
    // DMA start: completion interrupt -> ICU pending
    if (a == 0x1DE && b == 0x200)
        return true;
    // timer restart / event write -> counter mirror; event write may expire the timer -> ICU pending
    for (std::uint16_t t = 0; t < 2; ++t) {
        std::uint16_t base = 0x20 + t * 0x10;
        if ((a == base || a == base + 2) && (b == base + 8 || b == base + 10))
            return true;
        if (a == base + 2 && b == 0x200)
            return true;
    }
    // ICU acknowledge / trigger -> pending
    if ((a == 0x202 || a == 0x204) && b == 0x200)
        return true;
    // mailbox traffic -> data-ready status
    if (in(a, 0xC0, 0xCA) && (b == 0xD6 || b == 0xD8))
        return true;
    if (in(a, 0xC0, 0xCA) && (a & 3) == 0 && b == a) // REPLY write: peek returns it
        return true;
    // semaphores: mask / acknowledge -> value, signal bit
    if (a == 0xCE && (b == 0xD6 || b == 0xD8))
        return true;
    if (a == 0xD0 && (b == 0xD2 || b == 0xD6 || b == 0xD8))
        return true;
    // audio FIFO write / flush -> status
    for (std::uint16_t p = 0; p < 2; ++p) {
        std::uint16_t base = 0x280 + p * 0x80;
        if ((a == base + 0x46 || a == base + 0x4A) && b == base + 0x42)
            return true;
        if ((a == base + 0x44 || a == base + 0x48) && b == base + 0x40)
            return true;
    }
    return false;
}

// registers whose READ has side effects (not part of the non-destructive read-all)
inline bool DestructiveRead(std::uint16_t a) {
    return a == 0xC2 || a == 0xC6 || a == 0xCA || a == 0x2C4 || a == 0x344;
}
} // namespace spec
