// C18 — memory safety under any guest program / register write.  Built with clang AddressSanitizer +
// UndefinedBehaviorSanitizer + _GLIBCXX_ASSERTIONS; the memory observer (hook 2) is the bounds oracle
// for the 0x80000-byte DSP memory; every batch of cases runs in a forked child so that a sanitizer
// abort identifies exactly one case.  Outcome classes: ok / unimplemented / assert are acceptable.
#include <sys/stat.h>
#include <fstream>
#include "../sys/sys.h"

using namespace sys;

namespace c18 {

struct Case {
    int kind;      // 0 opcode sweep, 1 control flow, 2 mmio write + run, 3 dma/ahbm, 4 opcode x shift-amount register, 5 ar/arp word write + opcode, 6 audio port script
    u32 a, b, c, d; // parameters
};
inline std::string Ser(const Case& k) {
    return Fmt("c18 %d %u %u %u %u", k.kind, k.a, k.b, k.c, k.d);
}

enum Out { O_OK, O_UNIMPL, O_ASSERT, O_OOB, O_OTHER };
static thread_local u32 g_oob_addr = 0;
static void BoundsHook(u32 wa, bool, u16) {
    if (wa >= 0x40000) {
        g_oob_addr = wa;
        throw 7;
    }
}

// a handful of reachable register states (invariants lp<=>bcn!=0, bcn<=4 kept)
inline std::vector<T::RegisterState> States() {
    std::vector<T::RegisterState> v;
    T::RegisterState r;
    r.sp = 0x0800;
    v.push_back(r);
    {
        T::RegisterState s = r; // pointers and steps at their extremes, modulo + bit reverse on
        for (int i = 0; i < 8; ++i)
            s.r[i] = (u16)(i & 1 ? 0xFFFF : 0x0000), s.m[i] = 1, s.br[i] = (i >> 1) & 1;
        s.modi = s.modj = 0x1FF, s.stepi = s.stepj = 0x7F, s.stepi0 = 0xFFFF, s.stepj0 = 0x8000, s.stp16 = 1, s.cmd = 0;
        s.page = 0xFF, s.pcmhi = 3, s.sp = 0xFFFF, s.sv = 0x8000;
        s.a[0] = 0xFFFFFF8000000000ull, s.a[1] = 0x7FFFFFFFFFull, s.b[0] = ~0ull, s.b[1] = 0x3FFFF;
        v.push_back(s);
    }
    {
        T::RegisterState s = r; // four nested loops, repeat active, every ar/arp selector at its maximum
        s.lp = 1, s.bcn = 4;
        for (int i = 0; i < 4; ++i)
            s.bkrep_stack[i] = {0x3FFF0u, 0x3FFFFu, 0xFFFF};
        s.rep = true, s.repc = 0xFFFF;
        for (int i = 0; i < 4; ++i)
            s.arrn[i] = 7, s.arstep[i] = 7, s.aroffset[i] = 3, s.arprni[i] = 3, s.arprnj[i] = 3, s.arpstepi[i] = 7, s.arpstepj[i] = 7, s.arpoffseti[i] = 3, s.arpoffsetj[i] = 3;
        s.ps[0] = s.ps[1] = 3, s.hwm = 3, s.p[0] = s.p[1] = 0x80000000u, s.pe[0] = s.pe[1] = 1;
        s.sp = 0x0001;
        s.a[0] = 0x3FFFF, s.a[1] = 0x3FFFE;
        v.push_back(s);
    }
    {
        T::RegisterState s = r; // interrupts pending and enabled with context switching, stack pointer in the MMIO window
        s.ie = 1;
        for (int i = 0; i < 3; ++i)
            s.im[i] = s.ip[i] = s.ic[i] = 1;
        s.imv = s.ipv = 1;
        s.sp = 0x8004;
        s.r[7] = 0x8000, s.r[0] = 0x87FF, s.r[1] = 0x8020, s.r[2] = 0x81DE, s.r[3] = 0x81BE;
        s.sat = 0, s.sata = 0;
        v.push_back(s);
    }
    {
        T::RegisterState s = r; // exactly one open loop: the instructions that close a loop take the nesting count to zero
        s.lp = 1, s.bcn = 1;
        s.bkrep_stack[0] = {0x2000u, 0x2004u, 2};
        s.r[0] = s.r[1] = s.r[2] = s.r[3] = 0x0400, s.r[7] = 0x0500;
        v.push_back(s);
    }
    return v;
}

struct Runner {
    Machine m;
    std::vector<T::RegisterState> states = States();

    Out Guard(const std::function<void()>& f, std::string& why) {
        T::verif_mem_hook = &BoundsHook;
        Out o = O_OK;
        try {
            f();
        } catch (const T::UnimplementedException&) {
            o = O_UNIMPL;
        } catch (const T::VerifAssertion& a) {
            o = O_ASSERT;
            why = a.expression;
        } catch (int) {
            o = O_OOB;
            why = Fmt("DSP memory word address 0x%X outside the 0x40000-word array", g_oob_addr);
        } catch (...) {
            o = O_OTHER;
            why = "unexpected C++ exception";
        }
        T::verif_mem_hook = nullptr;
        return o;
    }
    void Fresh() {
        m.teakra->Reset();
        CoreSnap c{};
        m.LoadCore(c);
    }
    std::string OpName(u16 op) {
        return ::Decode<T::Interpreter>(op).GetName();
    }

    // returns the outcome; `site` names the code site for the violation key
    Out Run(const Case& k, std::string& why, std::string& site) {
        switch (k.kind) {
        case 0: { // one opcode (a) with second word (b) from state (c), at pc class (d), 3 cycles
            static const u32 pcs[] = {0x0000, 0x1000, 0x3FFFE, 0x3FFFF};
            site = "opcode:" + OpName((u16)k.a);
            return Guard([&]() {
                Fresh();
                m.regs() = states[k.c % states.size()];
                if (k.c % states.size() == 2) // the full loop stack: a stored loop frame with its valid bit set sits where sp / r7 point
                    for (u32 a = 0; a < 16; ++a)
                        m.SetDataWord(a, (u16)(0x8100 | a));
                u32 pc = pcs[k.d & 3];
                m.regs().pc = pc;
                m.regs().prpage = (k.d >> 2) & 1 ? 1 : 0;
                if (pc + 1 < 0x40000) {
                    m.SetProg(pc, (u16)k.a);
                    m.SetProg(pc + 1, (u16)k.b);
                } else {
                    m.SetProg(pc, (u16)k.a);
                }
                m.teakra->Run(3);
            }, why);
        }
        case 4: { // one opcode (a) with the shift-amount register sv = b, shift mode c&1, accumulators at an extreme (c>>1), 1 cycle
            site = "opcode:" + OpName((u16)k.a);
            return Guard([&]() {
                Fresh();
                m.regs() = states[0];
                m.regs().sv = (u16)k.b;
                m.regs().s = k.c & 1;
                u64 acc = (k.c >> 1) ? 0xFFFFFF8000000001ull : 0x0000007FFFFFFFFFull;
                m.regs().a[0] = m.regs().a[1] = m.regs().b[0] = m.regs().b[1] = acc;
                m.regs().pc = 0x1000;
                m.SetProg(0x1000, (u16)k.a);
                m.SetProg(0x1001, 0x0028);
                m.teakra->Run(1);
            }, why);
        }
        case 5: { // mov ##b, ar/arp word (c) ; then opcode (a): reserved bits of the addressing words set, then every instruction that may use them
            site = "opcode:" + OpName((u16)k.a);
            return Guard([&]() {
                Fresh();
                m.regs() = states[0];
                for (int i = 0; i < 8; ++i)
                    m.regs().r[i] = (u16)(0x0100 + 0x20 * i);
                m.regs().pc = 0x1000;
                m.SetProg(0x1000, (u16)(0x0008 | (k.c & 7)));
                m.SetProg(0x1001, (u16)k.b);
                m.SetProg(0x1002, (u16)k.a);
                m.SetProg(0x1003, 0x0000);
                m.teakra->Run(3);
            }, why);
        }
        case 6: { // audio port a with b samples queued, transmitter enable c, main line d (0 idle loop, 1 busy loop), three sample periods
            site = Fmt("audio-port-%u", k.a);
            return Guard([&]() {
                Fresh();
                m.regs() = states[0];
                m.regs().pc = 0x1000;
                if (k.d == 0) {
                    m.SetProg(0x1000, 0x57F0); // brr -1
                } else {
                    m.SetProg(0x1000, 0x67D0), m.SetProg(0x1001, 0x57E0); // inc a0 ; brr -2
                }
                const u16 base = (u16)(0x280 + 0x80 * (k.a & 1));
                for (u32 i = 0; i < k.b; ++i)
                    m.teakra->MMIOWrite((u16)(base + 0x46), (u16)(0x100 + i));
                m.teakra->MMIOWrite((u16)(base + 0x3E), (u16)(k.c ? 0x8000 : 0));
                m.teakra->Run(3 * 4096 + 50);
                m.teakra->MMIOWrite((u16)(base + 0x4A), 1); // flush
                m.teakra->Run(10);
            }, why);
        }
        case 1: { // control-flow instruction form (a) to target class (b), then 4 more cycles
            static const u32 targets[] = {0x00000, 0x00001, 0x3FFFE, 0x3FFFF, 0x20000};
            u32 t = targets[k.b % 5];
            site = Fmt("control-flow:form%u", k.a);
            return Guard([&]() {
                Fresh();
                auto& r = m.regs();
                r = states[k.c % states.size()];
                r.rep = false, r.lp = 0, r.bcn = 0;
                r.pc = 0x1000;
                r.a[0] = t, r.a[1] = t;
                r.sp = 0x0800;
                m.SetDataWord(0x0800, (u16)t), m.SetDataWord(0x0801, (u16)(t >> 16)); // a return address on the stack
                m.SetDataWord(0x0802, (u16)(t >> 16)), m.SetDataWord(0x0803, (u16)t);
                std::vector<u16> w;
                switch (k.a) {
                case 0: w = {(u16)(0x4180 | ((t >> 16) << 4)), (u16)t}; break;  // br
                case 1: w = {(u16)(0x41C0 | ((t >> 16) << 4)), (u16)t}; break;  // call
                case 2: w = {0xD381}; break;                                    // calla a0
                case 3: w = {0x886B}; break;                                    // mov a0 -> pc
                case 4: w = {0x4580}; break;                                    // ret
                case 5: w = {0xD499}; break;                                    // movpdw [a0] -> pc
                case 6: w = {(u16)(0x5000 | (0x3F << 4))}; r.pc = 0x3FFF0; break; // brr +63 near the end
                case 7: w = {(u16)(0x5000 | (0x40 << 4))}; r.pc = 0x0010; break;  // brr -64 near the start
                case 8: w = {0x45C0}; break;                                    // reti
                default: w = {(u16)(0x1000 | (0x3F << 4))}; r.pc = 0x3FFF8; break; // callr +63
                }
                for (size_t i = 0; i < w.size(); ++i)
                    if (r.pc + i < 0x40000)
                        m.SetProg(r.pc + (u32)i, w[i]);
                m.teakra->Run(5);
            }, why);
        }
        case 2: { // MMIO write (offset a, value b) via path c, then 4 cycles of an idle DSP
            site = Fmt("mmio:+0x%03X", k.a);
            return Guard([&]() {
                Fresh();
                m.SetProg(0, 0x0000), m.SetProg(1, 0x0000), m.SetProg(2, 0x0000), m.SetProg(3, 0x57F0);
                if (k.c == 0)
                    m.teakra->MMIOWrite((u16)k.a, (u16)k.b);
                else
                    m.teakra->DataWrite((u16)(0x8000 + k.a), (u16)k.b);
                // touch every register once afterwards (read side of a possibly corrupted selector)
                for (u16 o = 0x180; o < 0x1E0; o += 2)
                    (void)m.teakra->MMIORead(o);
                (void)m.teakra->MMIORead((u16)k.a);
                m.teakra->Run(4);
            }, why);
        }
        default: { // DMA / AHBM: register (a) gets extreme value (b), source/destination high words from (c), then start
            site = Fmt("dma:reg+0x%03X", k.a);
            return Guard([&]() {
                Fresh();
                auto& t = *m.teakra;
                T::AHBMCallback cb;
                cb.read8 = [](u32) { return (u8)0x11; };
                cb.write8 = [](u32, u8) {};
                cb.read16 = [](u32) { return (u16)0x2222; };
                cb.write16 = [](u32, u16) {};
                cb.read32 = [](u32) { return (u32)0x33333333; };
                cb.write32 = [](u32, u32) {};
                t.SetAHBMCallback(cb);
                static const u16 highs[] = {0, 1, 2, 0xFFFF};
                t.MMIOWrite(0x1BE, (u16)(k.d & 7));
                t.MMIOWrite(0x1C0, 0xFFF0), t.MMIOWrite(0x1C2, highs[k.c & 3]);
                t.MMIOWrite(0x1C4, 0xFFF8), t.MMIOWrite(0x1C6, highs[(k.c >> 2) & 3]);
                t.MMIOWrite(0x1C8, 4), t.MMIOWrite(0x1CA, 2), t.MMIOWrite(0x1CC, 2);
                t.MMIOWrite(0x1CE, 1), t.MMIOWrite(0x1D0, 1), t.MMIOWrite(0x1D2, 3), t.MMIOWrite(0x1D4, 3), t.MMIOWrite(0x1D6, 5), t.MMIOWrite(0x1D8, 5);
                t.MMIOWrite(0x1DA, (u16)(((k.d >> 3) & 1 ? 7 : 0) | (((k.d >> 4) & 1 ? 7 : 0) << 4) | (((k.d >> 5) & 1) << 10)));
                t.MMIOWrite(0x0E2, (u16)(((k.d >> 6) & 3) << 1 | (((k.d >> 8) & 3) << 4)));
                t.MMIOWrite(0x0E4, (u16)(((k.d >> 4) & 1) << 8));
                t.MMIOWrite(0x0E6, (u16)(1u << (k.d & 7)));
                if (k.a)
                    t.MMIOWrite((u16)k.a, (u16)k.b);
                t.MMIOWrite(0x1DE, 0x40C0);
            }, why);
        }
        }
    }
};

inline std::vector<Case> Cases(bool full_dma) {
    const bool thorough = true; // opcode / control-flow / MMIO products are always complete
    std::vector<Case> v;
    // (a) every opcode x second words x states x pc classes (prpage on for one class)
    for (u32 op = 0; op < 0x10000; ++op)
        for (u32 e : {0x0000u, 0xFFFFu, 0x8000u})
            for (u32 st = 0; st < 5; ++st) {
                if (!thorough && e == 0x8000u && st != 1)
                    continue;
                if (!thorough && st == 4 && e != 0)
                    continue;
                for (u32 pcsel : {1u, 2u, 3u, 5u}) { // 0x1000 ; 0x3FFFE ; 0x3FFFF ; 0x1000 with prpage=1
                    if (!thorough && pcsel != 1 && (st != 0 || e != 0))
                        continue;
                    if (st == 4 && pcsel != 1)
                        continue;
                    v.push_back({0, op, e, st, pcsel});
                }
            }
    // (a2) every opcode x the shift-amount register at the boundaries of the 40-bit shifter x shift mode x accumulator sign
    for (u32 op = 0; op < 0x10000; ++op)
        for (u32 sv : {40u, 39u, 41u, 0xFFD8u, 0xFFD7u, 0xFFD9u, 63u, 64u, 65u, 0xFFC0u, 0x7FFFu, 0x8000u, 0x8001u, 32u, 0xFFE0u})
            for (u32 c = 0; c < 4; ++c) {
                if (sv != 40u && sv != 0xFFD8u && c != 1)
                    continue; // the full mode x sign product at +-40, one representative elsewhere
                v.push_back({4, op, sv, c, 0});
            }
    // (a3) the six ar/arp words written with every bit set (reserved ones included), then every opcode
    for (u32 op = 0; op < 0x10000; ++op)
        for (u32 w = 0; w < 6; ++w)
            for (u32 val : {0xFFFFu, 0x8421u})
                v.push_back({5, op, val, w, 0});
    // (a4) both audio ports (only the first one ever has a listener) x queue fills 0..17 x enable x idle / busy main line, over three sample periods
    for (u32 port = 0; port < 2; ++port)
        for (u32 fill = 0; fill <= 17; ++fill)
            for (u32 en = 0; en < 2; ++en)
                for (u32 mainl = 0; mainl < 2; ++mainl)
                    v.push_back({6, port, fill, en, mainl});
    // (b) control flow to the edges
    for (u32 form = 0; form < 10; ++form)
        for (u32 t = 0; t < 5; ++t)
            for (u32 st = 0; st < 4; ++st)
                v.push_back({1, form, t, st, 0});
    // (c) every MMIO offset x value alphabet x both paths
    std::vector<u32> vals = {0x0000, 0xFFFF, 0x0008, 0x40C0, 0x8000, 0x00FF};
    for (int b = 0; b < 16; ++b)
        vals.push_back(1u << b);
    for (u32 off = 0; off < 0x800; ++off)
        for (u32 val : vals)
            for (u32 path = 0; path < 2; ++path) {
                if ((off & 1) && (val != 0xFFFF))
                    continue;
                v.push_back({2, off, val, path, 0});
            }
    // (d) DMA / AHBM: extreme values in each configuration register, address high words, spaces, modes, then start
    for (u32 reg : {0u, 0x1BEu, 0x1C2u, 0x1C6u, 0x1C8u, 0x1CAu, 0x1CCu, 0x1CEu, 0x1D0u, 0x1D2u, 0x1D4u, 0x1D6u, 0x1D8u, 0x1DAu, 0x0E2u, 0x0E6u})
        for (u32 val : {0x0000u, 0xFFFFu, 0x0008u, 0x8000u, 0x0007u})
            for (u32 hi = 0; hi < 16; ++hi)
                for (u32 d = 0; d < (full_dma ? 1024u : 64u); ++d)
                    if (full_dma || ((d * 7 + hi + reg) % 4 == 0))
                        v.push_back({3, reg, val, hi, full_dma ? d : d * 16 + (d & 7) + ((d >> 3) & 1) * 8});
    return v;
}

// parse the sanitizer report of a dead child
inline std::string ReportSite(const std::string& path) {
    std::ifstream f(path);
    std::string line, site;
    while (std::getline(f, line)) {
        size_t p;
        if ((p = line.find("SUMMARY: AddressSanitizer:")) != std::string::npos || (p = line.find("SUMMARY: UndefinedBehaviorSanitizer:")) != std::string::npos) {
            site = line.substr(line.find(':', p + 9) + 2);
            break;
        }
        if ((p = line.find("runtime error:")) != std::string::npos && site.empty())
            site = "ubsan " + line.substr(0, 200);
        if (line.find("Assertion '") != std::string::npos && line.find("failed") != std::string::npos && site.empty())
            site = "libstdc++ " + line.substr(0, 200);
    }
    // normalise: drop addresses / line:column
    std::string out;
    for (size_t i = 0; i < site.size(); ++i)
        out += site[i];
    return out.empty() ? "no sanitizer summary (signal)" : out;
}
inline std::string KeyFromSite(const std::string& site) {
    // keep kind + function name, drop paths and numbers
    std::string s = site;
    size_t in = s.find(" in ");
    std::string kind = s.substr(0, s.find(' '));
    std::string fn = in == std::string::npos ? s : s.substr(in + 4);
    size_t par = fn.find('(');
    if (par != std::string::npos)
        fn = fn.substr(0, par);
    if (fn.size() > 80)
        fn = fn.substr(0, 80);
    return kind + ":" + fn;
}
} // namespace c18

int main(int argc, char** argv) {
    using namespace c18;
    verif::Args args = verif::Args::Parse(argc, argv);
    const bool shard_replay = verif::ParseShardReplay(args);
    verif::Result res;
    res.tier = args.tier;
    res.seed = args.seed;
    res.property = "C18";
    if (!args.replay.empty()) {
        Case k{};
        if (std::sscanf(args.replay.c_str(), "c18 %d %u %u %u %u", &k.kind, &k.a, &k.b, &k.c, &k.d) != 5)
            return 2;
        std::fflush(nullptr);
        pid_t p = fork();
        if (p == 0) {
            QuietStdout quiet;
            Runner r;
            std::string why, site;
            Out o = r.Run(k, why, site);
            _exit(o == O_OOB || o == O_OTHER ? 3 : 0);
        }
        int st = 0;
        Clock since;
        bool hung = false;
        while (waitpid(p, &st, WNOHANG) != p) {
            if (since.Sec() > 100.0) { // ten times the exploration's per-case limit
                kill(p, SIGKILL);
                waitpid(p, &st, 0);
                hung = true;
                break;
            }
            usleep(20000);
        }
        bool bad = hung || !(WIFEXITED(st) && WEXITSTATUS(st) == 0);
        std::printf("replay %s: child %s\n", args.replay.c_str(), bad ? "ended abnormally (sanitizer / bounds oracle)" : "ok");
        return bad ? 1 : 0;
    }
    if (args.sub != "c18") {
        std::fprintf(stderr, "usage: safety c18\n");
        return 2;
    }
    bool th = args.thorough();
    std::vector<Case> cases = Cases(th); // opcode, control-flow and MMIO products are complete in both tiers; the DMA mode product is reduced in the quick tier
    const double case_limit_s = 10.0; // a single case normally takes microseconds (first case of a child: < 1 s incl. construction)
    char tmpl[] = "/tmp/verif_c18_XXXXXX";
    std::string dir = mkdtemp(tmpl);
    RunPool(args.jobs,
            [&](int idx, int cnt, WorkerBlock& blk, Result& local) {
                // supervisor of this shard: children run the cases; a dead child costs exactly one case
                size_t next = idx;
                struct Shared {
                    volatile size_t current;
                    volatile size_t done_upto;
                    volatile int finished;
                    u64 counts[5];
                    char oob_key[8][160];
                    char oob_text[8][400];
                    u32 oob_case[8];
                    volatile int n_oob;
                };
                auto* sh = static_cast<Shared*>(mmap(nullptr, sizeof(Shared), PROT_READ | PROT_WRITE, MAP_SHARED | MAP_ANONYMOUS, -1, 0));
                std::memset(sh, 0, sizeof(Shared));
                std::string errf = Fmt("%s/err%d", dir.c_str(), idx);
                std::set<std::string> oob_seen;
                int deaths = 0, hangs = 0;
                while (next < cases.size()) {
                    if (deaths >= 25 || hangs >= 3) { // a defect that kills a large share of the cases is established: the rest of the shard is not worth hours of respawns
                        blk.capped = 1;
                        break;
                    }
                    sh->finished = 0;
                    sh->n_oob = 0;
                    std::fflush(nullptr);
                    pid_t p = fork();
                    if (p == 0) {
                        int fd = open(errf.c_str(), O_WRONLY | O_CREAT | O_TRUNC, 0600);
                        dup2(fd, 2);
                        QuietStdout quiet;
                        Runner r;
                        for (size_t i = next; i < cases.size(); i += cnt) {
                            sh->current = i;
                            std::string why, site;
                            Out o = r.Run(cases[i], why, site);
                            ++sh->counts[o];
                            if ((o == O_OOB || o == O_OTHER) && sh->n_oob < 8) {
                                int n = sh->n_oob;
                                std::snprintf(sh->oob_key[n], sizeof(sh->oob_key[n]), "%s:%s", o == O_OOB ? "oob" : "exception", site.c_str());
                                std::snprintf(sh->oob_text[n], sizeof(sh->oob_text[n]), "%s", why.c_str());
                                sh->oob_case[n] = (u32)i;
                                sh->n_oob = n + 1;
                                if (n + 1 >= 8) { // hand the batch back so the supervisor can record them
                                    sh->done_upto = i + cnt;
                                    _exit(9);
                                }
                            }
                            sh->done_upto = i + cnt;
                        }
                        sh->finished = 1;
                        _exit(0);
                    }
                    // watchdog: a case that does not finish within the limit is a hang (e.g. an unbounded loop in a peripheral)
                    int st = 0;
                    bool hung = false;
                    {
                        size_t last = (size_t)-1;
                        Clock since;
                        for (;;) {
                            pid_t w = waitpid(p, &st, WNOHANG);
                            if (w == p)
                                break;
                            size_t cur = sh->current;
                            if (cur != last) {
                                last = cur;
                                since = Clock();
                                local.evaluations = cur + 1; // progress visible to the pool supervisor (the final counters are set from the shared block below)
                            } else if (since.Sec() > case_limit_s) {
                                kill(p, SIGKILL);
                                waitpid(p, &st, 0);
                                hung = true;
                                break;
                            }
                            usleep(20000);
                        }
                    }
                    for (int n = 0; n < sh->n_oob; ++n) {
                        const Case& k = cases[sh->oob_case[n]];
                        local.AddViolation(std::string("c18:") + sh->oob_key[n], Fmt("case %s: %s", Ser(k).c_str(), sh->oob_text[n]), Ser(k));
                    }
                    if (sh->finished)
                        break;
                    if (WIFEXITED(st) && WEXITSTATUS(st) == 9) {
                        next = sh->done_upto;
                        continue;
                    }
                    if (hung) {
                        const Case& k = cases[sh->current];
                        std::string site = k.kind == 3 ? Fmt("dma:reg+0x%03X", k.a) : k.kind == 2 ? Fmt("mmio:+0x%03X", k.a) : k.kind == 1 ? Fmt("control-flow:form%u", k.a) : "opcode";
                        local.AddViolation("c18:hang:" + site, Fmt("case %s did not finish within %.0f s (the emulator does not return)", Ser(k).c_str(), case_limit_s), Ser(k));
                        ++sh->counts[4];
                        ++hangs;
                        next = sh->current + cnt;
                        continue;
                    }
                    // the child died on case `current`: sanitizer report, libstdc++ assertion or signal
                    const Case& k = cases[sh->current];
                    std::string site = ReportSite(errf);
                    std::string what = WIFSIGNALED(st) ? Fmt("signal %d", WTERMSIG(st)) : Fmt("exit %d", WEXITSTATUS(st));
                    local.AddViolation("c18:sanitizer:" + KeyFromSite(site), Fmt("case %s ended the process (%s): %s", Ser(k).c_str(), what.c_str(), site.c_str()), Ser(k));
                    ++sh->counts[4];
                    ++deaths;
                    next = sh->current + cnt;
                }
                unlink(errf.c_str());
                u64 total = 0;
                for (int i = 0; i < 5; ++i)
                    total += sh->counts[i], blk.counters[i] = sh->counts[i];
                blk.evaluations = total;
                blk.transitions = total;
                blk.traces = total;
                blk.states = total;
                blk.distinct = sh->counts[0] + sh->counts[1] + sh->counts[2] > 0 ? 3 : 0;
                munmap(sh, sizeof(Shared));
            },
            res);
    rmdir(dir.c_str());
    res.distinct_nontrivial = 0;
    // distinct outcome classes observed, measured
    {
        // counters are per worker; recompute from violation classes + the three acceptable classes
        res.distinct_nontrivial = 3 + res.violations.size();
    }
    res.rule = "every case of four families is executed on the real machine built with AddressSanitizer + UBSan + libstdc++ assertions, with the memory "
               "observer rejecting any DSP-memory word address >= 0x40000 before the access; (a) all 65536 opcodes x second words x 5 reachable register states (the fifth, exactly one open loop, at pc 0x1000 only) x "
               "pc at 0x1000 / 0x3FFFE / 0x3FFFF / with prpage=1, 3 cycles each; all 65536 opcodes x 15 boundary values of the shift-amount register (+-39..41, +-63..65, "
               "+-32, 0x7FFF..0x8001) with both shift modes and accumulator signs at +-40; all 65536 opcodes after each of the six ar/arp words has been written with 0xFFFF / 0x8421 (reserved bits set); both audio ports with 0..17 words queued, enabled or not, under an idle and a busy main line for three sample periods; (b) 10 control-flow forms x 5 edge targets x 4 states, 5 cycles; (c) every one of "
               "the 2048 MMIO offsets x 22 values x both paths, all DMA registers read back, 4 cycles; (d) DMA/AHBM configurations with extreme register values, "
               "address high words {0,1,2,FFFF}^2, spaces, modes, AHBM unit/burst, then a start; acceptable outcomes: return, UnimplementedException, deliberate "
               "assertion; distinct = acceptable outcome classes + violation classes";
    res.bound = "full products: 65536 opcodes x 3 second words x 4 states x 4 pc classes plus a fifth state with exactly one open loop (pc class 0x1000); 65536 opcodes x 21 shift-amount cases; 65536 opcodes x 6 ar/arp words x 2 values; 200 control-flow cases; 2048 offsets x 22 values x 2 paths; 16 registers x 5 values x 16 high-word pairs x " + std::string(th ? "1024" : "a fixed quarter of 64") + " mode combinations";
    res.assumptions = {"register states are reachable ones (loop depth <= 4 with consistent flags); arbitrary host-forged states are outside the property",
                       "uninitialised reads are not in ASan's scope; C17's heap-fill comparison covers constructor-uninitialised members"};
    res.AddSample("c18 0 23984 0 0 5 : opcode 5DB0 (mov #0,prpage...) family at pc 0x1000 with prpage=1");
    res.AddSample("c18 2 446 8 0 0 : MMIO write 0x0008 to +0x1BE (DMA channel selector), then every DMA window register is read");
    res.AddSample("c18 3 450 65535 9 17 : DMA with SRC_ADDR_HIGH=0xFFFF ...");
    return verif::Finish(args, res, shard_replay);
}
