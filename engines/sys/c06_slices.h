// C06 — Run(n) == n x Run(1) for every slicing: a generated program family, every partition of the
// cycle budget (2-partitions; 3-partitions in the thorough tier) and host events at slice boundaries,
// all compared with the single-step trace of the same program on the same real machine.
#pragma once
#include "sys.h"

namespace c06 {
using namespace sys;

struct Desc {
    u8 family;  // 0 timers, 1 audio port, 2 host events
    u8 main;    // 0 idle self-branch, 1 busy loop, 2 nop+idle, 3 three nops+idle, 4 busy loop with a conditional self-branch that falls through, 5 conditional idle
    u8 hk;      // handler kind 0..5
    u8 enabled; // 0: line masked (im=0), 1: ie=1 and im=1, 2: ie=0
    u8 t0_mode, t0_start, t0_line, t0_mu, t1_on;
    u8 period, queued, bt_line;
    u8 ev_kind, ev_pos;
    u8 n;
    u8 bt_port;    // audio family: which of the two ports (port 1 never has an audio listener installed by the facade)
    u8 t0_rewrite; // timer family: 1 = start registers rewritten (start+2) after the restart, without another restart; 2 = start+2 written before, start restored after (restart saw start+2)
    u8 scale; // 1: long horizon - cycle budget, timer start values and the audio period are multiplied by 40 (large fast-forward steps)
};
inline u32 NCycles(const Desc& d) { return d.n * (d.scale ? 40u : 1u); }
inline u16 Start0(const Desc& d) { return (u16)(d.scale ? d.t0_start * 40u + 3 : d.t0_start); }
inline u16 Period(const Desc& d) { return (u16)(d.scale ? d.period * 40u : d.period); }
inline std::string Show(const Desc& d) {
    static const char* fam[] = {"timer", "audio", "host-event"};
    static const char* mn[] = {"idle(brr -1)", "busy(inc a0; brr -2)", "nop; idle", "3 nops; idle", "busy(inc a0; brr -1,eq [falls through]; brr -3)",
                               "idle(brr -1,neq [taken])"};
    static const char* hk[] = {"count;reti", "ack ICU;count;reti", "re-arm timer0;count;reti", "push audio word;count;reti",
                               "count;retic(context switch)", "write REPLY0;count;reti", "rewrite timer0 start (no restart);count;reti"};
    return Fmt("{%s main='%s' handler='%s' enabled=%u timer0(mode=%u start=%u line=%u mu=%u) timer1=%u audio(period=%u queued=%u "
               "line=%u port=%u) start-rewrite=%u event(kind=%u at=%u) n=%u}",
               fam[d.family], mn[d.main], hk[d.hk], d.enabled, d.t0_mode, Start0(d), d.t0_line, d.t0_mu, d.t1_on, Period(d),
               d.queued, d.bt_line, d.bt_port, d.t0_rewrite, d.ev_kind, d.ev_pos, NCycles(d));
}
inline std::string Ser(const Desc& d) {
    const u8* p = reinterpret_cast<const u8*>(&d);
    std::string s = "c06";
    for (size_t i = 0; i < sizeof(Desc); ++i)
        s += Fmt(" %u", p[i]);
    return s;
}

enum Comp { C_REGS, C_CORE, C_TIMER, C_BTDMP, C_ICU, C_APBP, C_MEM, C_LOG, C_COUNT };
static const char* kCompName[] = {"registers", "interrupt-latches", "timers", "audio-port", "icu", "apbp", "memory", "callback-log"};
using Digest = std::array<u64, C_COUNT>;

struct Runner {
    Machine m;
    Snap base;
    Runner() {
        m.win_lo = 0x07C0;
        m.win_hi = 0x0810;
        m.teakra->Reset();
        // ICU and the latches are not touched by Reset(); give them a defined initial value here
        IcuSnap z{};
        z.vlow.fill(0), z.vhigh.fill(0), z.vctx.fill(0);
        m.LoadIcu(z);
        CoreSnap c{};
        m.LoadCore(c);
        for (int d = 0; d < 2; ++d)
            for (int i = 0; i < 3; ++i)
                m.apbp(d).SetDisableInterrupt(i, 0);
        base = m.Save();
    }

    void Setup(const Desc& d) {
        m.Load(base);
        m.log.clear();
        m.host_sem_cb = 0;
        m.host_data_cb[0] = m.host_data_cb[1] = m.host_data_cb[2] = 0;
        auto& t = *m.teakra;
        // ---- program ----
        m.SetProg(0, 0x4180), m.SetProg(1, 0x0100); // br 0x0100
        static const std::vector<u16> handlers[] = {
            {0xC701, 0x45C0},         // add 1,a1 ; reti
            {0x1801, 0xC701, 0x45C0}, // mov r0,[r1] (ICU ack) ; add ; reti
            {0x1843, 0xC701, 0x45C0}, // mov r2,[r3] (timer0 cfg, restart) ; add ; reti
            {0x1885, 0xC701, 0x45C0}, // mov r4,[r5] (audio FIFO) ; add ; reti
            {0xC701, 0x45D0},         // add ; retic
            {0x1801, 0xC701, 0x45C0}, // mov r0,[r1] (REPLY0) ; add ; reti
            {0x1843, 0xC701, 0x45C0}, // mov r2,[r3] (timer0 start low, no restart) ; add ; reti
        };
        const auto& h = handlers[d.hk];
        for (u32 v : {0x0006u, 0x000Eu, 0x0016u, 0x0200u})
            for (size_t i = 0; i < 8; ++i)
                m.SetProg(v + i, i < h.size() ? h[i] : 0x0000);
        static const std::vector<u16> mains[] = {{0x57F0}, {0x67D0, 0x57E0}, {0x0000, 0x57F0}, {0x0000, 0x0000, 0x0000, 0x57F0}, {0x67D0, 0x57F1, 0x57D0}, {0x57F2}};
        for (size_t i = 0; i < 8; ++i)
            m.SetProg(0x0100 + i, i < mains[d.main].size() ? mains[d.main][i] : 0x0000);
        // ---- registers ----
        auto& r = m.regs();
        r.sp = 0x0800;
        r.r[1] = d.hk == 5 ? 0x80C0 : 0x8202;
        r.r[0] = d.hk == 5 ? 0x0042 : 0xFFFF;
        r.r[3] = d.hk == 6 ? 0x8024 : 0x8020;
        r.r[2] = d.hk == 6 ? (u16)(d.scale ? 77 : 3) : (u16)((d.t0_mode << 2) | (d.t0_mu << 9) | (1 << 10));
        r.r[5] = (u16)(0x82C6 + d.bt_port * 0x80);
        r.r[4] = 0x1234;
        r.ie = d.enabled == 2 ? 0 : 1;
        for (int i = 0; i < 3; ++i) {
            r.im[i] = d.enabled == 0 ? 0 : 1;
            r.ic[i] = d.hk == 4;
        }
        r.imv = d.enabled == 0 ? 0 : 1;
        // ---- ICU vectors ----
        for (int irq : {5, 9, 10, 11, 14}) {
            t.MMIOWrite(0x212 + irq * 4, d.hk == 4 ? 0x8000 : 0x0000);
            t.MMIOWrite(0x214 + irq * 4, 0x0200);
        }
        u16 en[4] = {0, 0, 0, 0}; // int0, int1, int2, vectored
        auto route = [&](int irq, int line) {
            if (line < 4)
                en[line] |= (u16)(1u << irq);
        };
        if (d.family == 0) {
            route(10, d.t0_line);
            if (d.t1_on)
                route(9, (d.t0_line + 1) % 3);
        } else if (d.family == 1) {
            route(11, d.bt_line);
            if (d.bt_port)
                route(12, d.bt_line); // icu.md numbers the second port 12; either line is accepted (C07 wiring note)
            if (d.t1_on)
                route(10, 1);
        } else {
            route(14, 0);
            route(5, 2);
            route(10, 3);
        }
        t.MMIOWrite(0x206, en[0]), t.MMIOWrite(0x208, en[1]), t.MMIOWrite(0x20A, en[2]), t.MMIOWrite(0x20C, en[3]);
        // ---- peripherals ----
        if (d.family == 0 || d.family == 2) {
            t.MMIOWrite(0x24, (u16)(Start0(d) + (d.t0_rewrite == 2 ? 2 : 0))), t.MMIOWrite(0x26, 0);
            t.MMIOWrite(0x20, (u16)((d.t0_mode << 2) | (d.t0_mu << 9) | (1 << 10)));
            if (d.t0_rewrite == 1)
                t.MMIOWrite(0x24, (u16)(Start0(d) + 2)); // a later reload must use this value, the running count must not
            if (d.t0_rewrite == 2)
                t.MMIOWrite(0x24, Start0(d));
            if (d.t1_on) {
                t.MMIOWrite(0x34, (u16)(d.scale ? 97 : 3)), t.MMIOWrite(0x36, 0);
                // t1_on == 2: armed but paused - a paused timer holds its counter however time advances
                t.MMIOWrite(0x30, (u16)((1 << 2) | (1 << 10) | (d.t1_on == 2 ? (1 << 8) | (1 << 9) : 0)));
            }
        }
        if (d.family == 1) {
            m.impl->btdmp[d.bt_port].SetTransmitPeriod(Period(d)); // not reachable through MMIO
            for (u16 i = 0; i < d.queued; ++i)
                t.MMIOWrite((u16)(0x2C6 + d.bt_port * 0x80), (u16)(0x0101 + i));
            t.MMIOWrite((u16)(0x2BE + d.bt_port * 0x80), 0x8000);
            if (d.t1_on) { // a single-shot timer next to the audio port
                t.MMIOWrite(0x24, (u16)(d.scale ? 333 : 7)), t.MMIOWrite(0x26, 0);
                t.MMIOWrite(0x20, (0 << 2) | (1 << 10));
            }
        }
    }
    void HostEvent(const Desc& d) {
        auto& t = *m.teakra;
        switch (d.ev_kind) {
        case 0: t.SendData(0, 0x0011); break;
        case 1: t.SetSemaphore(0x8000); break;
        case 2: t.MMIOWrite(0x204, 1 << 5); break;
        case 3: t.SendData(1, 0x0022); t.SendData(1, 0x0023); break;
        }
    }
    Digest Observe() {
        Digest g;
        Bytes b;
        PutRegs(b, m.regs());
        g[C_REGS] = b.Hash();
        CoreSnap c = m.SaveCore();
        c.idle = false; // internal to one Run call, not observable
        Bytes bc;
        for (int i = 0; i < 3; ++i)
            bc.Put((u8)c.ip[i]);
        bc.Put((u8)c.ipv);
        if (c.ipv)
            bc.Put((u8)c.vctx), bc.Put(c.vaddr);
        g[C_CORE] = bc.Hash();
        Bytes bt;
        for (int i = 0; i < 2; ++i) {
            TimerSnap s = Machine::SaveTimer(m.impl->timer[i]);
            bt.Put(s.update_mmio), bt.Put(s.pause), bt.Put(s.mode), bt.Put(s.start_high), bt.Put(s.start_low), bt.Put(s.counter);
            bt.Put(s.counter_high), bt.Put(s.counter_low);
        }
        g[C_TIMER] = bt.Hash();
        Bytes bb;
        for (int i = 0; i < 2; ++i) {
            BtdmpSnap s = Machine::SaveBtdmp(m.impl->btdmp[i]);
            bb.Put(s.period), bb.Put(s.timer), bb.Put(s.enable), bb.Put((u8)s.empty), bb.Put((u8)s.full);
            for (u16 v : s.queue)
                bb.Put(v);
            bb.Put((u16)0xFFFF);
        }
        g[C_BTDMP] = bb.Hash();
        IcuSnap is = m.SaveIcu();
        Bytes bi;
        bi.Put(is.request), bi.Put(is.enabled), bi.Put(is.venabled);
        g[C_ICU] = bi.Hash();
        Bytes ba;
        for (int d = 0; d < 2; ++d) {
            ApbpSnap a = Machine::SaveApbp(m.apbp(d));
            ba.Put(a);
        }
        g[C_APBP] = ba.Hash();
        Bytes bm;
        for (u32 a = m.win_lo; a < m.win_hi; ++a)
            bm.Put(m.DataWord(a));
        g[C_MEM] = bm.Hash();
        u64 h = 0x1234;
        for (auto& s : m.log)
            h = Fnv(s.data(), s.size(), h) * 31 + 7;
        g[C_LOG] = h ^ m.log.size();
        return g;
    }
    std::string Describe() {
        auto& r = m.regs();
        std::string s = Fmt("pc=%05X sp=%04X a0=%llX a1=%llX ie=%u ip=%u%u%u%u stack=[%04X %04X] t0.counter=%X t1.counter=%X icu.req=%04X "
                            "bt.timer=%u bt.queued=%zu log=",
                            r.pc, r.sp, (unsigned long long)(r.a[0] & 0xFFFFFFFFFFull), (unsigned long long)(r.a[1] & 0xFFFFFFFFFFull), r.ie,
                            r.ip[0], r.ip[1], r.ip[2], r.ipv, m.DataWord((u16)(r.sp)), m.DataWord((u16)(r.sp + 1)),
                            m.impl->timer[0].counter, m.impl->timer[1].counter, m.impl->icu.GetRequest(),
                            (unsigned)Machine::SaveBtdmp(m.impl->btdmp[0]).timer, Machine::SaveBtdmp(m.impl->btdmp[0]).queue.size());
        for (auto& l : m.log)
            s += l + ",";
        return s;
    }

    // the reference: n single steps
    bool Trace(const Desc& d, std::vector<Digest>& out, std::vector<std::string>* desc = nullptr) {
        Setup(d);
        out.clear();
        try {
            if (d.family == 2 && d.ev_pos == 0)
                HostEvent(d);
            out.push_back(Observe());
            if (desc)
                desc->push_back(Describe());
            for (u32 c = 1; c <= NCycles(d); ++c) {
                m.teakra->Run(1);
                if (d.family == 2 && d.ev_pos == c)
                    HostEvent(d);
                out.push_back(Observe());
                if (desc)
                    desc->push_back(Describe());
            }
        } catch (const T::VerifAssertion&) {
            return false;
        } catch (const T::UnimplementedException&) {
            return false;
        }
        return true;
    }
    // one slicing; returns index of first boundary that differs (or -1), component in comp
    int Sliced(const Desc& d, const std::vector<u32>& parts, const std::vector<Digest>& ref, int& comp, std::string* what = nullptr) {
        Setup(d);
        u32 cum = 0;
        comp = -1;
        bool fired = d.family != 2;
        try {
            if (!fired && d.ev_pos == 0) {
                HostEvent(d);
                fired = true;
            }
            for (size_t i = 0; i < parts.size(); ++i) {
                m.teakra->Run(parts[i]);
                cum += parts[i];
                if (!fired && d.ev_pos == cum) {
                    HostEvent(d);
                    fired = true;
                }
                Digest g = Observe();
                for (int c = 0; c < C_COUNT; ++c)
                    if (g[c] != ref[cum][c]) {
                        comp = c;
                        if (what)
                            *what = Describe();
                        return (int)cum;
                    }
            }
        } catch (const T::VerifAssertion& a) {
            comp = C_COUNT;
            if (what)
                *what = std::string("assertion ") + a.expression;
            return (int)cum;
        }
        return -1;
    }
};

inline std::string PartStr(const std::vector<u32>& p) {
    std::string s;
    for (size_t i = 0; i < p.size(); ++i)
        s += Fmt("%s%u", i ? "+" : "", p[i]);
    return s;
}

inline void CheckProgram(Runner& R, const Desc& d, bool three, Result& res, std::unordered_set<u64>& digests) {
    std::vector<Digest> ref, ref2;
    if (!R.Trace(d, ref)) {
        ++res.evaluations;
        return; // program reaches a deliberate assertion when single-stepped: outside the family
    }
    R.Trace(d, ref2);
    if (ref != ref2) {
        res.AddViolation("c06:single-step-trace-not-deterministic", "two n x Run(1) traces of " + Show(d) + " differ", Ser(d) + " parts 0");
        return;
    }
    u64 th = 0;
    for (auto& g : ref)
        th = Fnv(g.data(), sizeof(Digest), th);
    digests.insert(th);
    ++res.states; // one program = one model state space root; transitions = slices executed
    std::vector<std::vector<u32>> parts;
    u32 n = NCycles(d);
    if (d.family == 2) {
        u32 p = d.ev_pos;
        parts.push_back({p, n - p});
        for (u32 a = 0; a <= p; ++a)
            if (three || a == 0 || a == p || a == p / 2)
                parts.push_back({a, p - a, n - p});
        for (u32 b = 0; b <= n - p; ++b)
            if (three || b == 1 || b == (n - p) / 2)
                parts.push_back({p, b, n - p - b});
    } else {
        parts.push_back({n});
        for (u32 a = 0; a <= n; ++a)
            parts.push_back({a, n - a});
        if (three && !d.scale)
            for (u32 a = 1; a < n; ++a)
                for (u32 b = 1; a + b < n; ++b)
                    parts.push_back({a, b, n - a - b});
        if (three && d.scale) // long horizon: 3-partitions on a grid of 37 plus the neighbours of every multiple of the period / start value
            for (u32 a = 1; a < n; a += 37)
                for (u32 b = 1; a + b < n; b += 41)
                    parts.push_back({a, b, n - a - b});
    }
    for (auto& p : parts) {
        int comp;
        int at = R.Sliced(d, p, ref, comp);
        ++res.evaluations;
        res.transitions += p.size();
        res.traces_validated += 1;
        if (at >= 0) {
            std::string what;
            R.Sliced(d, p, ref, comp, &what);
            std::vector<Digest> t;
            std::vector<std::string> descs;
            R.Trace(d, t, &descs);
            static const char* fam[] = {"timer", "audio", "host-event"};
            std::string key = Fmt("c06:%s:main=%u:handler=%u:enabled=%u:diff=%s:%s", fam[d.family], d.main, d.hk, d.enabled,
                                  comp == C_COUNT ? "assertion" : kCompName[comp], p.size() == 1 ? "single-call" : "sliced");
            res.AddViolation(key,
                             Fmt("program %s: Run(%s) differs from %u x Run(1) after %d cycles in %s; sliced: %s | single-stepped: %s",
                                 Show(d).c_str(), PartStr(p).c_str(), NCycles(d), at, comp == C_COUNT ? "assertion" : kCompName[comp],
                                 what.c_str(), at < (int)descs.size() ? descs[at].c_str() : "?"),
                             Ser(d) + " parts " + PartStr(p));
            return; // one counterexample per program is enough
        }
    }
}

inline std::vector<Desc> Family(bool thorough) {
    std::vector<Desc> v;
    std::vector<u8> ns = thorough ? std::vector<u8>{24, 36, 48} : std::vector<u8>{36};
    for (u8 n : ns) {
        // family 0: timers
        for (u8 main = 0; main < 4; ++main)
            for (u8 mode = 0; mode < 4; ++mode)
                for (u8 start = 0; start <= 10; ++start)
                    for (u8 line = 0; line < 5; ++line)
                        for (u8 hk : {0, 1, 2, 4})
                            for (u8 en = 0; en < 3; ++en)
                                for (u8 t1 = 0; t1 < 2; ++t1)
                                    for (u8 mu = 0; mu < 2; ++mu) {
                                        if (line == 4 && (hk != 0 || en != 1))
                                            continue; // unrouted: one representative
                                        if (en != 1 && hk != 0)
                                            continue;
                                        Desc d{};
                                        d.family = 0, d.main = main, d.hk = hk, d.enabled = en, d.t0_mode = mode, d.t0_start = start;
                                        d.t0_line = line, d.t0_mu = mu, d.t1_on = t1, d.n = n;
                                        v.push_back(d);
                                    }
        // family 0b: conditional self-branches (taken: an idle loop; not taken: ordinary code that must not be fast-forwarded)
        for (u8 main = 4; main < 6; ++main)
            for (u8 mode : {0, 1})
                for (u8 start : {0, 1, 4, 9})
                    for (u8 line : {0, 3, 4})
                        for (u8 hk : {0, 2})
                            for (u8 t1 = 0; t1 < 3; ++t1) {
                                Desc d{};
                                d.family = 0, d.main = main, d.hk = hk, d.enabled = 1, d.t0_mode = mode, d.t0_start = start;
                                d.t0_line = line, d.t0_mu = 1, d.t1_on = t1, d.n = n;
                                v.push_back(d);
                            }
        // paused second timer next to every kind of idle / busy main line
        for (u8 main = 0; main < 4; ++main)
            for (u8 mode : {0, 1})
                for (u8 start : {0, 2, 7})
                    for (u8 line : {0, 4}) {
                        Desc d{};
                        d.family = 0, d.main = main, d.hk = 0, d.enabled = 1, d.t0_mode = mode, d.t0_start = start;
                        d.t0_line = line, d.t0_mu = 1, d.t1_on = 2, d.n = n;
                        v.push_back(d);
                    }
        // family 0c / 1c: long horizon (x40): large fast-forward steps, timers and audio port expiring hundreds of cycles apart
        if (n == 36) {
            for (u8 main : {0, 2, 5})
                for (u8 mode : {0, 1, 2})
                    for (u8 start : {0, 1, 5, 6})
                        for (u8 line : {0, 3})
                            for (u8 hk : {0, 2})
                                for (u8 t1 = 0; t1 < 3; ++t1) {
                                    Desc d{};
                                    d.family = 0, d.main = main, d.hk = hk, d.enabled = 1, d.t0_mode = mode, d.t0_start = start;
                                    d.t0_line = line, d.t0_mu = 1, d.t1_on = t1, d.n = n, d.scale = 1;
                                    v.push_back(d);
                                }
            for (u8 main : {0, 2})
                for (u8 period : {1, 3, 5})
                    for (u8 q : {0, 3, 6, 15, 16})
                        for (u8 line : {0, 3})
                            for (u8 hk : {0, 3})
                                for (u8 t1 = 0; t1 < 2; ++t1) {
                                    Desc d{};
                                    d.family = 1, d.main = main, d.hk = hk, d.enabled = 1, d.period = period, d.queued = q, d.bt_line = line;
                                    d.t1_on = t1, d.n = n, d.scale = 1;
                                    v.push_back(d);
                                }
        }
        // family 1b: the audio queue completely (or almost) full when the core goes idle
        for (u8 main : {0, 2})
            for (u8 period : {1, 2, 4})
                for (u8 q : {15, 16})
                    for (u8 line : {0, 3, 4})
                        for (u8 hk : {0, 3}) {
                            Desc d{};
                            d.family = 1, d.main = main, d.hk = hk, d.enabled = 1, d.period = period, d.queued = q, d.bt_line = line;
                            d.t1_on = 0, d.n = n;
                            v.push_back(d);
                        }
        // family 0d: start registers rewritten without a restart (by the host before the run, or by the handler): a reload that
        // happens inside a fast-forward must use the registers as they are now
        for (u8 main : {0, 1, 2})
            for (u8 mode : {0, 1, 2})
                for (u8 start : {0, 1, 3, 6})
                    for (u8 line : {0, 3, 4})
                        for (u8 rw = 0; rw < 3; ++rw)
                            for (u8 hk : {0, 6})
                                for (u8 sc = 0; sc < 2; ++sc) {
                                    if (rw == 0 && hk == 0)
                                        continue;
                                    if (sc && n != 36)
                                        continue;
                                    Desc d{};
                                    d.family = 0, d.main = main, d.hk = hk, d.enabled = 1, d.t0_mode = mode, d.t0_start = start;
                                    d.t0_line = line, d.t0_mu = 1, d.t1_on = 0, d.n = n, d.t0_rewrite = rw, d.scale = sc;
                                    v.push_back(d);
                                }
        // family 1d: the second audio port (the facade installs the audio listener on port 0 only: port 1 runs without one)
        for (u8 main : {0, 2})
            for (u8 period : {1, 2, 3, 5})
                for (u8 q : {0, 1, 2, 3, 4, 6, 15, 16})
                    for (u8 line : {0, 3, 4})
                        for (u8 hk : {0, 3})
                            for (u8 sc = 0; sc < 2; ++sc) {
                                if (sc && (n != 36 || period == 2))
                                    continue;
                                Desc d{};
                                d.family = 1, d.main = main, d.hk = hk, d.enabled = 1, d.period = period, d.queued = q, d.bt_line = line;
                                d.t1_on = 0, d.n = n, d.bt_port = 1, d.scale = sc;
                                v.push_back(d);
                            }
        // family 1: audio port
        for (u8 main = 0; main < 4; ++main)
            for (u8 period = 1; period <= 5; ++period)
                for (u8 q = 0; q <= 6; ++q)
                    for (u8 line : {0, 3, 4})
                        for (u8 hk : {0, 3, 4})
                            for (u8 t1 = 0; t1 < 2; ++t1) {
                                Desc d{};
                                d.family = 1, d.main = main, d.hk = hk, d.enabled = 1, d.period = period, d.queued = q, d.bt_line = line;
                                d.t1_on = t1, d.n = n;
                                v.push_back(d);
                            }
        // family 2: host events at slice boundaries
        for (u8 main = 0; main < 4; ++main)
            for (u8 ev = 0; ev < 4; ++ev)
                for (u8 pos = 0; pos <= n; ++pos)
                    for (u8 hk : {0, 1, 5})
                        for (u8 en : {0, 1})
                            for (u8 start : {0, 5, 9}) {
                                Desc d{};
                                d.family = 2, d.main = main, d.hk = hk, d.enabled = en, d.ev_kind = ev, d.ev_pos = pos, d.n = n;
                                d.t0_mode = start ? 1 : 0, d.t0_start = start, d.t0_line = 3;
                                v.push_back(d);
                            }
    }
    return v;
}

inline int RunReplay(const std::string& r, Result& res) {
    Desc d{};
    u8* p = reinterpret_cast<u8*>(&d);
    const char* s = r.c_str() + 3;
    for (size_t i = 0; i < sizeof(Desc); ++i) {
        unsigned v;
        int used;
        if (std::sscanf(s, " %u%n", &v, &used) != 1)
            return 2;
        p[i] = (u8)v;
        s += used;
    }
    std::vector<u32> parts;
    const char* q = std::strstr(s, "parts ");
    if (!q)
        return 2;
    q += 6;
    while (*q) {
        parts.push_back((u32)std::strtoul(q, (char**)&q, 10));
        if (*q == '+')
            ++q;
        else
            break;
    }
    QuietStdout quiet;
    Runner R;
    std::vector<Digest> ref;
    std::vector<std::string> descs;
    R.Trace(d, ref, &descs);
    int comp;
    std::string what;
    int at = R.Sliced(d, parts, ref, comp, &what);
    quiet.Say(Fmt("replay %s parts %s\n", Show(d).c_str(), PartStr(parts).c_str()));
    if (at >= 0) {
        quiet.Say(Fmt("  differs after %d cycles in %s\n  sliced       : %s\n  single-stepped: %s\n", at,
                      comp == C_COUNT ? "assertion" : kCompName[comp], what.c_str(), descs[at].c_str()));
        return 1;
    }
    quiet.Say("  all slice boundaries agree with the single-step trace\n");
    return 0;
}

inline void Run(const Args& args, Result& res) {
    res.property = "C06";
    std::vector<Desc> fam = Family(args.thorough());
    bool three = args.thorough();
    RunPool(args.jobs,
            [&](int idx, int cnt, WorkerBlock& blk, Result& local) {
                QuietStdout quiet;
                Runner R;
                std::unordered_set<u64> digests;
                for (size_t i = idx; i < fam.size(); i += cnt) {
                    std::snprintf(blk.current, sizeof(blk.current), "%s", Ser(fam[i]).c_str());
                    // 3-partitions for every program in the thorough tier, for a stride in the quick tier
                    CheckProgram(R, fam[i], three || (i / cnt) % 8 == 0, local, digests);
                }
                blk.evaluations = local.evaluations;
                blk.states = local.states;
                blk.transitions = local.transitions;
                blk.traces = local.traces_validated;
                blk.distinct = digests.size();
            },
            res);
    res.rule = "(incl. a long-horizon sub-family: 1440 cycles, timer start values and audio periods of 40..240 cycles, every 2-partition) "
               "each program of the generated family (idle/busy main line x handler kind x timer mode/start/routing/MU x second "
               "timer x interrupt enables; audio period/fill/routing; host mailbox/semaphore/software-IRQ events at every cycle "
               "position) is run as n x Run(1) (twice: determinism guard), then as Run(n), every 2-partition (incl. empty slices) and "
               "3-partitions; after every slice registers incl. hidden banks, latches, timers, audio port, ICU, APBP, stack window and "
               "the ordered callback log must equal the single-step trace at that cycle; distinct = distinct single-step traces";
    res.bound = Fmt("%zu programs, n in %s; all 2-partitions; 3-partitions %s", fam.size(), args.thorough() ? "{24,36,48}" : "{36}",
                    three ? "for every program" : "for every 8th program (all for host-event programs around the event)");
    res.assumptions = {"self-branch that ends an active repeat block or is a rep target is excluded, as in the statement",
                       "the idle flag of the interpreter is internal to one Run call and not compared",
                       "BTDMP period is set on the internal object (not reachable through MMIO)"};
    res.AddSample(Show(fam[fam.size() / 7]));
    res.AddSample(Show(fam[fam.size() - 3]));
    res.AddSample("slicings of n=36: 36 | 0+36, 1+35, ..., 36+0 | a+b+c for all a,b,c>=1");
}
} // namespace c06
