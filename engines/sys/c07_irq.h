// C07 — BFS over the real ICU + interpreter + register file (through the Teakra facade) with a
// reference interrupt model stepped in lock-step; plus the finite wiring check of the seven sources.
#pragma once
#include "sys.h"

namespace c07 {
using namespace sys;

// The fixed DSP program (hand-assembled):
//   0x0000 br 0x0100 | 0x0006 int0: reti | 0x000E int1: retic | 0x0016 int2: br 0x0016 (stays)
//   vectored handlers: irq[0] -> 0x0200: reti, irq[1] -> 0x0210: retic (context switch), irq[2] -> 0x0220: reti
//   main line A: 0x0100 br 0x0100        main line B: 0x0100 rep 2 ; nop ; br 0x0100
enum Ins { I_BR, I_REP, I_NOP, I_RETI, I_RETIC, I_BRR, I_BAD };

struct Model { // the statement, plus a 5-instruction interpreter for the fixed program
    u16 request, en[3], ven;
    u8 lat[3], latv, vctx;
    u32 vaddr;
    u8 ip[3], ipv, im[3], imv, ie, ic[3], cpc, rep;
    u8 im_sh[3], imv_sh; // the two-way bank that a context switch exchanges with im/imv
    u16 repc;
    u32 pc;
    u16 sp;
    u16 stack[8]; // words 0x07F8..0x07FF
    u32 tcnt;     // timer 0 as a one-shot source of IRQ 10: cycles until it fires (0 = idle)
    u8 valt[3];   // the vector registers of the three IRQs as reprogrammed at run time: bit 0 = second handler address (+8), bit 1 = context flag inverted
    u8 pad_;
    bool operator==(const Model& o) const {
        return std::memcmp(this, &o, sizeof(Model)) == 0;
    }
};
struct ModelHash {
    size_t operator()(const Model& m) const {
        return (size_t)Fnv(&m, sizeof(Model));
    }
};
inline std::string Show(const Model& m) {
    return Fmt("{req=%04X en=%04X,%04X,%04X ven=%04X lat=%u%u%u%u vaddr=%X vctx=%u ip=%u%u%u%u im=%u%u%u%u im'=%u%u%u%u ie=%u ic=%u%u%u "
               "cpc=%u rep=%u repc=%u pc=%05X sp=%04X stack=%04X %04X %04X %04X}",
               m.request, m.en[0], m.en[1], m.en[2], m.ven, m.lat[0], m.lat[1], m.lat[2], m.latv, m.vaddr, m.vctx, m.ip[0],
               m.ip[1], m.ip[2], m.ipv, m.im[0], m.im[1], m.im[2], m.imv, m.im_sh[0], m.im_sh[1], m.im_sh[2], m.imv_sh, m.ie,
               m.ic[0], m.ic[1], m.ic[2], m.cpc, m.rep, m.repc, m.pc, m.sp, m.stack[4], m.stack[5], m.stack[6], m.stack[7]);
}

struct Setup {
    int irq[3];    // the IRQ alphabet of this run
    int main_line; // 0: br self, 1: rep 2; nop; br, 2: brr -1 (the idle loop the interpreter fast-forwards)
    u32 Vector(int q) const {
        for (int i = 0; i < 3; ++i)
            if (irq[i] == q)
                return 0x0200 + 0x10 * i;
        return 0x0300;
    }
    u8 Ctx(int q) const {
        return q == irq[1];
    }
    int Fetch(u32 pc, u32& operand) const {
        operand = 0;
        if (pc == 0x0006 || pc == 0x0200 || pc == 0x0220 || pc == 0x0208 || pc == 0x0228)
            return I_RETI;
        if (pc == 0x000E || pc == 0x0210 || pc == 0x0218)
            return I_RETIC;
        if (pc == 0x0016) {
            operand = 0x0016;
            return I_BR;
        }
        if (main_line == 0) {
            if (pc == 0x0100) {
                operand = 0x0100;
                return I_BR;
            }
        } else if (main_line == 2) {
            if (pc == 0x0100) {
                operand = 0x0100;
                return I_BRR;
            }
        } else {
            if (pc == 0x0100) {
                operand = 2;
                return I_REP;
            }
            if (pc == 0x0101)
                return I_NOP;
            if (pc == 0x0102) {
                operand = 0x0100;
                return I_BR;
            }
        }
        return I_BAD;
    }
};

struct RefSem {
    const Setup& su;
    explicit RefSem(const Setup& s) : su(s) {}
    void Trigger(Model& m, u16 bits) const {
        m.request |= bits;
        for (int q = 0; q < 16; ++q)
            if (bits >> q & 1) {
                for (int l = 0; l < 3; ++l)
                    if (m.en[l] >> q & 1)
                        m.lat[l] = 1;
                if (m.ven >> q & 1) {
                    // the vector registers as they are programmed when the request rises
                    u8 alt = 0;
                    for (int i = 0; i < 3; ++i)
                        if (su.irq[i] == q)
                            alt = m.valt[i];
                    m.latv = 1;
                    m.vaddr = su.Vector(q) + (alt & 1 ? 8 : 0);
                    m.vctx = su.Ctx(q) ^ (alt >> 1 & 1);
                }
            }
    }
    static void Push(Model& m, u16 v) {
        --m.sp;
        if (m.sp >= 0x07F8 && m.sp < 0x0800)
            m.stack[m.sp - 0x07F8] = v;
    }
    static u16 Pop(Model& m) {
        u16 v = (m.sp >= 0x07F8 && m.sp < 0x0800) ? m.stack[m.sp - 0x07F8] : 0;
        ++m.sp;
        return v;
    }
    static void PushPC(Model& m) {
        u16 l = (u16)m.pc, h = (u16)(m.pc >> 16);
        if (m.cpc) {
            Push(m, h), Push(m, l);
        } else {
            Push(m, l), Push(m, h);
        }
    }
    static void PopPC(Model& m) {
        u16 h, l;
        if (m.cpc) {
            l = Pop(m), h = Pop(m);
        } else {
            h = Pop(m), l = Pop(m);
        }
        m.pc = l | ((u32)h << 16);
    }
    static void ContextSwitch(Model& m) { // the part of a context store/restore this property can see
        for (int i = 0; i < 3; ++i)
            std::swap(m.im[i], m.im_sh[i]);
        std::swap(m.imv, m.imv_sh);
    }
    // one instruction boundary; returns false if the program left the modelled addresses
    bool Step(Model& m) const {
        for (int i = 0; i < 3; ++i)
            if (m.lat[i]) {
                m.lat[i] = 0;
                m.ip[i] = 1;
            }
        if (m.latv) {
            m.latv = 0;
            m.ipv = 1;
        }
        u32 operand;
        int ins = su.Fetch(m.pc, operand);
        if (ins == I_BAD)
            return false;
        m.pc += ins == I_BR ? 2 : 1;
        if (m.rep) {
            if (m.repc == 0) {
                m.rep = 0;
            } else {
                --m.repc;
                --m.pc;
            }
        }
        switch (ins) {
        case I_BR: case I_BRR: m.pc = operand; break;
        case I_REP: m.rep = 1; m.repc = (u16)operand; break;
        case I_NOP: break;
        case I_RETI: PopPC(m); m.ie = 1; break;
        case I_RETIC: PopPC(m); m.ie = 1; ContextSwitch(m); break;
        }
        if (m.pc >= 0x40000)
            return false;
        // entry: first boundary with global+line enable and no single-instruction repeat running,
        // fixed priority int0 > int1 > int2 > vectored, once per latched request
        if (m.ie && !m.rep) {
            bool taken = false;
            for (int i = 0; i < 3 && !taken; ++i)
                if (m.im[i] && m.ip[i]) {
                    m.ip[i] = 0;
                    m.ie = 0;
                    PushPC(m);
                    m.pc = 0x0006 + 8 * i;
                    if (m.ic[i])
                        ContextSwitch(m);
                    taken = true;
                }
            if (!taken && m.imv && m.ipv) {
                m.ipv = 0;
                m.ie = 0;
                PushPC(m);
                m.pc = m.vaddr;
                if (m.vctx)
                    ContextSwitch(m);
            }
        }
        // the peripherals tick at the end of the cycle: a one-shot timer raises IRQ 10 when it goes from 1 to 0
        if (m.tcnt > 0 && --m.tcnt == 0)
            Trigger(m, 1u << 10);
        return true;
    }
};

enum EvKind { E_TRIG, E_ACK, E_ROUTE, E_IE, E_IM, E_IMV, E_IC, E_CPC, E_STEP, E_RUN, E_WORD, E_TIMER, E_VEC, E_REROUTE_TRIG };
struct Event {
    int kind;
    int a;   // line / index
    u16 val; // bits / value
};
inline std::string Show(const Event& e) {
    static const char* n[] = {"trigger", "acknowledge", "route", "ie", "im", "imv", "ic", "cpc", "step", "run", "write-word(0 st0,1 st2,2 mod3,3 stt2,4 icr)", "arm-timer0", "program-vector(irq index, bit0 second address, bit1 context flag inverted)", "reroute-then-trigger(line | irq<<4)"};
    return Fmt("%s(%d,%04X)", n[e.kind], e.a, e.val);
}

struct Rec { // what is needed to put the real machine back into a state
    T::RegisterState regs;
    CoreSnap core;
    IcuSnap icu;
    u16 stack[8];
    TimerSnap t0;
};

struct Engine {
    Machine m;
    Result& res;
    Setup su;
    RefSem sem{su};
    Rec base;
    std::unordered_set<u64> digests;
    u64 truncated = 0;
    std::vector<Event> prefix; // events that lead from the base state to the BFS root (replay needs them)

    Engine(Result& r, const Setup& s) : res(r), su(s) {
        m.teakra->Reset();
        for (u32 a = 0; a < 0x400; ++a)
            m.SetProg(a, 0x0000);
        m.SetProg(0x0000, 0x4180), m.SetProg(0x0001, 0x0100);
        m.SetProg(0x0006, 0x45C0);                              // reti
        m.SetProg(0x000E, 0x45D0);                              // retic
        m.SetProg(0x0016, 0x4180), m.SetProg(0x0017, 0x0016);   // br 0x0016
        m.SetProg(0x0200, 0x45C0), m.SetProg(0x0210, 0x45D0), m.SetProg(0x0220, 0x45C0);
        m.SetProg(0x0208, 0x45C0), m.SetProg(0x0218, 0x45D0), m.SetProg(0x0228, 0x45C0); // the second handler of each IRQ (same kind)
        if (su.main_line == 0) {
            m.SetProg(0x0100, 0x4180), m.SetProg(0x0101, 0x0100);
        } else if (su.main_line == 2) {
            m.SetProg(0x0100, 0x57F0); // brr -1
        } else {
            m.SetProg(0x0100, 0x0C02), m.SetProg(0x0101, 0x0000), m.SetProg(0x0102, 0x4180), m.SetProg(0x0103, 0x0100);
        }
        IcuSnap z{};
        z.vlow.fill(0x0300), z.vhigh.fill(0), z.vctx.fill(0);
        for (int i = 0; i < 3; ++i) {
            z.vlow[su.irq[i]] = (u16)su.Vector(su.irq[i]);
            z.vctx[su.irq[i]] = su.Ctx(su.irq[i]);
        }
        m.LoadIcu(z);
        // vector registers through the real MMIO path as well (must agree with what was loaded)
        for (int i = 0; i < 3; ++i) {
            m.teakra->MMIOWrite(0x212 + su.irq[i] * 4, su.Ctx(su.irq[i]) ? 0x8000 : 0);
            m.teakra->MMIOWrite(0x214 + su.irq[i] * 4, (u16)su.Vector(su.irq[i]));
        }
        CoreSnap c{};
        m.LoadCore(c);
        auto& r0 = m.regs();
        r0.pc = 0x0100;
        r0.sp = 0x0800;
        base.regs = r0;
        base.core = m.SaveCore();
        base.icu = m.SaveIcu();
        base.t0 = Machine::SaveTimer(m.impl->timer[0]);
        for (int i = 0; i < 8; ++i)
            base.stack[i] = 0;
    }
    void LoadRec(const Rec& r) {
        m.regs() = r.regs;
        m.LoadCore(r.core);
        m.LoadIcu(r.icu);
        Machine::LoadTimer(m.impl->timer[0], r.t0);
        for (int i = 0; i < 8; ++i)
            m.SetDataWord(0x07F8 + i, r.stack[i]);
    }
    Rec SaveRec() {
        Rec r;
        r.regs = m.regs();
        r.core = m.SaveCore();
        r.icu = m.SaveIcu();
        r.t0 = Machine::SaveTimer(m.impl->timer[0]);
        for (int i = 0; i < 8; ++i)
            r.stack[i] = m.DataWord(0x07F8 + i);
        return r;
    }
    // projection of the real machine onto the model's variables
    Model Project(const Rec& r) const {
        Model x;
        std::memset(&x, 0, sizeof(x));
        x.request = r.icu.request;
        for (int i = 0; i < 3; ++i) {
            x.en[i] = r.icu.enabled[i];
            x.lat[i] = r.core.ip[i];
            x.ip[i] = (u8)r.regs.ip[i];
            x.im[i] = (u8)r.regs.im[i];
            x.ic[i] = (u8)r.regs.ic[i];
        }
        x.ven = r.icu.venabled;
        x.latv = r.core.ipv;
        // the vectored address/context latch is meaningful from the first vectored trigger on
        x.vaddr = r.core.vaddr;
        x.vctx = r.core.vctx;
        x.ipv = (u8)r.regs.ipv;
        x.imv = (u8)r.regs.imv;
        x.ie = (u8)r.regs.ie;
        x.cpc = (u8)r.regs.cpc;
        x.rep = r.regs.rep;
        x.repc = r.regs.repc;
        x.pc = r.regs.pc;
        x.sp = r.regs.sp;
        T::RegisterState c = r.regs;
        c.ShadowSwap();
        for (int i = 0; i < 3; ++i)
            x.im_sh[i] = (u8)c.im[i];
        x.imv_sh = (u8)c.imv;
        for (int i = 0; i < 8; ++i)
            x.stack[i] = r.stack[i];
        x.tcnt = r.t0.counter;
        for (int i = 0; i < 3; ++i)
            x.valt[i] = (u8)((r.icu.vlow[su.irq[i]] != (u16)su.Vector(su.irq[i]) ? 1 : 0) | ((r.icu.vctx[su.irq[i]] != 0) != (su.Ctx(su.irq[i]) != 0) ? 2 : 0));
        return x;
    }

    bool ApplyReal(const Event& e) {
        auto& t = *m.teakra;
        auto& r = m.regs();
        switch (e.kind) {
        case E_TRIG: t.MMIOWrite(0x204, e.val); break;
        case E_ACK: t.MMIOWrite(0x202, e.val); break;
        case E_ROUTE: t.MMIOWrite(e.a < 3 ? 0x206 + 2 * e.a : 0x20C, e.val); break;
        case E_REROUTE_TRIG: // one destination rewritten and an IRQ raised with no state restore in between (a = line | irq << 4)
            t.MMIOWrite((e.a & 15) < 3 ? 0x206 + 2 * (e.a & 15) : 0x20C, e.val);
            t.MMIOWrite(0x204, (u16)(1u << (e.a >> 4)));
            break;
        case E_IE: r.ie = e.val; break;
        case E_IM: r.im[e.a] = e.val; break;
        case E_IMV: r.imv = e.val; break;
        case E_IC: r.ic[e.a] = e.val; break;
        case E_CPC: r.cpc = e.val; break;
        case E_STEP: t.Run(1); break;
        case E_RUN: t.Run(e.val); break;
        case E_TIMER:
            t.MMIOWrite(0x24, e.val), t.MMIOWrite(0x26, 0), t.MMIOWrite(0x20, 1 << 10); // single mode, restart
            break;
        case E_VEC: { // the DSP reprograms the vector of one IRQ through the ICU registers
            const int q = su.irq[e.a];
            t.MMIOWrite((u16)(0x212 + q * 4), (u16)((su.Ctx(q) ^ (e.val >> 1 & 1)) ? 0x8000 : 0));
            t.MMIOWrite((u16)(0x214 + q * 4), (u16)(su.Vector(q) + (e.val & 1 ? 8 : 0)));
            break;
        }
        case E_WORD: // a whole status/config word written the way mov/pop do it
            switch (e.a) {
            case 0: r.Set<T::st0>(e.val); break;
            case 1: r.Set<T::st2>(e.val); break;
            case 2: r.Set<T::mod3>(e.val); break;
            case 3: r.Set<T::stt2>(e.val); break;
            default: r.Set<T::icr>(e.val); break;
            }
            break;
        }
        return true;
    }
    bool ApplyModel(Model& x, const Event& e) const {
        switch (e.kind) {
        case E_TRIG: sem.Trigger(x, e.val); break;
        case E_ACK: x.request &= ~e.val; break;
        case E_ROUTE: (e.a < 3 ? x.en[e.a] : x.ven) = e.val; break;
        case E_REROUTE_TRIG:
            ((e.a & 15) < 3 ? x.en[e.a & 15] : x.ven) = e.val;
            sem.Trigger(x, (u16)(1u << (e.a >> 4)));
            break;
        case E_IE: x.ie = (u8)e.val; break;
        case E_IM: x.im[e.a] = (u8)e.val; break;
        case E_IMV: x.imv = (u8)e.val; break;
        case E_IC: x.ic[e.a] = (u8)e.val; break;
        case E_CPC: x.cpc = (u8)e.val; break;
        case E_STEP: return sem.Step(x);
        case E_RUN:
            for (int k = 0; k < e.val; ++k)
                if (!sem.Step(x))
                    return false;
            break;
        case E_TIMER: x.tcnt = e.val; break;
        case E_VEC: x.valt[e.a] = (u8)(e.val & 3); break;
        case E_WORD: // the documented layouts: only the enable/mask/config bits are writable, request bits are read-only
            switch (e.a) {
            case 0: x.ie = e.val >> 1 & 1, x.im[0] = e.val >> 2 & 1, x.im[1] = e.val >> 3 & 1; break;
            case 1: x.im[2] = e.val >> 6 & 1; break;
            case 2:
                for (int i = 0; i < 3; ++i)
                    x.ic[i] = e.val >> (1 + i) & 1, x.im[i] = e.val >> (8 + i) & 1;
                x.ie = e.val >> 7 & 1, x.imv = e.val >> 11 & 1, x.cpc = e.val >> 14 & 1;
                break;
            case 3: break;
            default:
                for (int i = 0; i < 3; ++i)
                    x.ic[i] = e.val >> (1 + i) & 1;
                break;
            }
            break;
        }
        return true;
    }
    std::string Replay(const std::vector<Event>& hist) const {
        std::string s = Fmt("c07 %d %d %d main %d :", su.irq[0], su.irq[1], su.irq[2], su.main_line);
        for (auto& e : prefix)
            s += Fmt(" %d,%d,%u", e.kind, e.a, e.val);
        for (auto& e : hist)
            s += Fmt(" %d,%d,%u", e.kind, e.a, e.val);
        return s;
    }
    static std::string Cls(const Model& before, const Event& e, const Model& got, const Model& want) {
        std::string what;
        if (got.pc != want.pc || got.sp != want.sp)
            what = "pc/sp";
        else if (std::memcmp(got.stack, want.stack, sizeof(got.stack)))
            what = "stack";
        else if (std::memcmp(got.ip, want.ip, 3) || got.ipv != want.ipv)
            what = "ip";
        else if (got.ie != want.ie)
            what = "ie";
        else if (std::memcmp(got.lat, want.lat, 3) || got.latv != want.latv || got.vaddr != want.vaddr || got.vctx != want.vctx)
            what = "latch";
        else if (got.request != want.request)
            what = "request";
        else if (std::memcmp(got.im, want.im, 3) || got.imv != want.imv || std::memcmp(got.im_sh, want.im_sh, 3) || got.imv_sh != want.imv_sh)
            what = "context";
        else
            what = "other";
        static const char* n[] = {"trigger", "acknowledge", "route", "ie", "im", "imv", "ic", "cpc", "step", "run", "write-word(0 st0,1 st2,2 mod3,3 stt2,4 icr)", "arm-timer0", "program-vector(irq index, bit0 second address, bit1 context flag inverted)", "reroute-then-trigger(line | irq<<4)"};
        int pend = before.ip[0] + before.ip[1] + before.ip[2] + before.ipv + before.lat[0] + before.lat[1] + before.lat[2] + before.latv;
        return Fmt("%s:%s:ie=%u,rep=%u,pending=%d", n[e.kind], what.c_str(), before.ie, before.rep, pend > 2 ? 2 : pend);
    }

    // BFS.  `events(model)` gives the alphabet enabled in a state.
    void Explore(const Rec& init, const std::function<std::vector<Event>(const Model&)>& events, int max_depth,
                 u64 max_states, const std::string& label, bool& fixpoint) {
        struct Node {
            Rec rec;
            int parent;
            Event via;
        };
        std::vector<Node> nodes;
        std::unordered_map<Model, int, ModelHash> seen;
        nodes.push_back({init, -1, {E_STEP, 0, 0}});
        seen.emplace(Project(init), 0);
        size_t lo = 0, hi = 1;
        int depth = 0;
        bool capped = false;
        auto history = [&](int idx, const Event& last) {
            std::vector<Event> h{last};
            for (int i = idx; nodes[i].parent >= 0; i = nodes[i].parent)
                h.push_back(nodes[i].via);
            std::reverse(h.begin(), h.end());
            return h;
        };
        while (lo < hi && depth < max_depth) {
            for (size_t i = lo; i < hi; ++i) {
                Model before = Project(nodes[i].rec);
                if (before.sp < 0x0800 - 4) { // nesting bound 2: deeper states are not expanded
                    ++truncated;
                    continue;
                }
                for (const Event& e : events(before)) {
                    LoadRec(nodes[i].rec);
                    Model want = before;
                    bool modelled = ApplyModel(want, e);
                    bool ok = true;
                    std::string why;
                    try {
                        ApplyReal(e);
                    } catch (const T::VerifAssertion& a) {
                        ok = false;
                        why = a.expression;
                    } catch (const T::UnimplementedException&) {
                        ok = false;
                        why = "unimplemented";
                    }
                    ++res.evaluations;
                    ++res.transitions;
                    ++res.traces_validated;
                    if (!ok && !modelled)
                        continue; // the program left the modelled addresses (e.g. a return through a stack image whose word order was changed under it): a deliberate assertion is a permitted ending
                    if (!ok) {
                        res.AddViolation("c07:abort:" + std::string(why), "event " + Show(e) + " from " + Show(before) + " ends in " + why,
                                         Replay(history((int)i, e)));
                        continue;
                    }
                    Rec after = SaveRec();
                    Model got = Project(after);
                    if (!modelled)
                        continue;
                    if (!(got == want)) {
                        res.AddViolation("c07:" + Cls(before, e, got, want),
                                         Fmt("%s from %s: implementation -> %s ; statement model -> %s", Show(e).c_str(),
                                             Show(before).c_str(), Show(got).c_str(), Show(want).c_str()),
                                         Replay(history((int)i, e)));
                        continue; // do not explore beyond a disagreement
                    }
                    if (!(got == before))
                        digests.insert(Fnv(&got, sizeof(got), Fnv(&before, sizeof(before))));
                    if (seen.size() >= max_states) {
                        if (!seen.count(got))
                            capped = true;
                        continue;
                    }
                    auto ins = seen.emplace(got, (int)nodes.size());
                    if (ins.second)
                        nodes.push_back({after, (int)i, e});
                }
            }
            lo = hi;
            hi = nodes.size();
            ++depth;
        }
        fixpoint = lo >= hi && !capped;
        res.states += seen.size();
        if (!label.empty()) {
            res.Extra(label + "_states", seen.size());
            res.Extra(label + "_depth", depth);
        }
    }
};

inline std::vector<u16> Subsets(const Setup& su, int n) {
    std::vector<u16> v;
    for (int b = 0; b < (1 << n); ++b) {
        u16 x = 0;
        for (int i = 0; i < n; ++i)
            if (b >> i & 1)
                x |= (u16)(1u << su.irq[i]);
        v.push_back(x);
    }
    return v;
}

// L1: the full alphabet, depth-bounded
inline std::vector<Event> FullAlphabet(const Setup& su, bool core_only = false) {
    std::vector<Event> ev;
    ev.push_back({E_STEP, 0, 0});
    for (int i = 0; i < 3; ++i)
        ev.push_back({E_TRIG, 0, (u16)(1u << su.irq[i])});
    ev.push_back({E_TRIG, 0, (u16)((1u << su.irq[0]) | (1u << su.irq[1]))});
    auto subs = Subsets(su, 3);
    for (u16 s : subs)
        if (s)
            ev.push_back({E_ACK, 0, s});
    for (int line = 0; line < 4; ++line)
        for (u16 s : subs)
            ev.push_back({E_ROUTE, line, s});
    for (u16 v = 0; v < 2; ++v) {
        ev.push_back({E_IE, 0, v});
        ev.push_back({E_IMV, 0, v});
        ev.push_back({E_CPC, 0, v});
        for (int i = 0; i < 3; ++i) {
            ev.push_back({E_IM, i, v});
            ev.push_back({E_IC, i, v});
        }
    }
    if (core_only) // trigger / acknowledge / route / enable / mask / step only: the alphabet of the deepest layer
        return ev;
    ev.push_back({E_RUN, 0, 3});
    ev.push_back({E_WORD, 0, 0x000E}), ev.push_back({E_WORD, 0, 0x0000});
    ev.push_back({E_WORD, 1, 0xE040}), ev.push_back({E_WORD, 1, 0x0000});
    ev.push_back({E_WORD, 2, 0x4F8E}), ev.push_back({E_WORD, 2, 0x0000});
    ev.push_back({E_WORD, 3, 0x000F});
    ev.push_back({E_WORD, 4, 0x000E});
    if (su.irq[0] == 10 || su.irq[1] == 10 || su.irq[2] == 10)
        for (u16 k : {(u16)1, (u16)2, (u16)3})
            ev.push_back({E_TIMER, 0, k});
    // vectors reprogrammed while the machine runs (also while the IRQ is already routed, requested or latched)
    ev.push_back({E_VEC, 0, 1}), ev.push_back({E_VEC, 0, 0});
    ev.push_back({E_VEC, 1, 1}), ev.push_back({E_VEC, 1, 2}), ev.push_back({E_VEC, 1, 0});
    ev.push_back({E_VEC, 2, 3}), ev.push_back({E_VEC, 2, 0});
    return ev;
}

inline void Wiring(Result& res) {
    // each real source fires through its own peripheral; the ICU request bit that rises must be the documented one
    struct Case {
        const char* name;
        int expect;
        std::function<void(Machine&)> fire;
    };
    std::vector<Case> cases = {
        {"timer0", 10, [](Machine& m) { m.teakra->MMIOWrite(0x24, 1); m.teakra->MMIOWrite(0x20, 1 << 10); m.impl->core_timing.Tick(); }},
        {"timer1", 9, [](Machine& m) { m.teakra->MMIOWrite(0x34, 1); m.teakra->MMIOWrite(0x30, 1 << 10); m.impl->core_timing.Tick(); }},
        {"dma", 15, [](Machine& m) { m.teakra->MMIOWrite(0x1DE, 0x40C0); }},
        {"btdmp0", 11, [](Machine& m) { m.impl->btdmp[0].SetTransmitPeriod(1); m.teakra->MMIOWrite(0x2C6, 7); m.teakra->MMIOWrite(0x2BE, 0x8000); m.impl->core_timing.Tick(); }},
        {"btdmp1", 11, [](Machine& m) { m.impl->btdmp[1].SetTransmitPeriod(1); m.teakra->MMIOWrite(0x346, 7); m.teakra->MMIOWrite(0x33E, 0x8000); m.impl->core_timing.Tick(); }},
        {"mailbox0", 14, [](Machine& m) { m.teakra->SendData(0, 1); }},
        {"mailbox1", 14, [](Machine& m) { m.teakra->SendData(1, 1); }},
        {"mailbox2", 14, [](Machine& m) { m.teakra->SendData(2, 1); }},
        {"semaphore", 14, [](Machine& m) { m.teakra->SetSemaphore(1); }},
    };
    for (auto& c : cases) {
        Machine m;
        m.teakra->Reset();
        m.impl->icu.Acknowledge(0xFFFF);
        try {
            c.fire(m);
        } catch (...) {
        }
        u16 req = m.impl->icu.GetRequest();
        ++res.evaluations;
        // icu.md lists the second audio port as IRQ 0xC while the code raises 0xB for both ports; the
        // statement does not fix the numbering, so either documented line is accepted for btdmp1
        bool ok = req == (u16)(1u << c.expect) || (std::string(c.name) == "btdmp1" && req == (u16)(1u << 12));
        if (!ok)
            res.AddViolation(std::string("c07:wiring:") + c.name,
                             Fmt("source %s raised ICU request %04X, documented IRQ %d (%04X)", c.name, req, c.expect, 1u << c.expect),
                             std::string("c07wire ") + c.name);
    }
}

inline bool ParseSetup(const std::string& r, Setup& su, std::vector<Event>& hist) {
    int n = 0;
    if (std::sscanf(r.c_str(), "c07 %d %d %d main %d :%n", &su.irq[0], &su.irq[1], &su.irq[2], &su.main_line, &n) != 4)
        return false;
    const char* p = r.c_str() + n;
    int k, a, used;
    unsigned v;
    while (std::sscanf(p, " %d,%d,%u%n", &k, &a, &v, &used) == 3) {
        hist.push_back({k, a, (u16)v});
        p += used;
    }
    return true;
}

inline int RunReplay(const std::string& r, Result& res) {
    QuietStdout quiet;
    if (r.rfind("c07wire", 0) == 0) {
        Wiring(res);
        for (auto& x : res.violations)
            quiet.Say(Fmt("  %s\n    %s\n", x.key.c_str(), x.text.c_str()));
        return res.violations.empty() ? 0 : 1;
    }
    Setup su;
    std::vector<Event> hist;
    if (!ParseSetup(r, su, hist))
        return 2;
    Engine eng(res, su);
    eng.LoadRec(eng.base);
    Model x = eng.Project(eng.base);
    int rc = 0;
    for (auto& e : hist) {
        Model before = x;
        bool modelled = eng.ApplyModel(x, e);
        try {
            eng.ApplyReal(e);
        } catch (...) {
            quiet.Say("  " + Show(e) + " aborted\n");
            return modelled ? 1 : 0;
        }
        Model got = eng.Project(eng.SaveRec());
        quiet.Say(Fmt("  %-22s impl %s\n", Show(e).c_str(), Show(got).c_str()));
        if (modelled && !(got == x)) {
            quiet.Say(Fmt("  %-22s model %s   <-- DISAGREE\n", "", Show(x).c_str()));
            rc = 1;
            break;
        }
    }
    return rc;
}

inline void Run(const Args& args, Result& res) {
    res.property = "C07";
    bool th = args.thorough();
    std::vector<std::array<int, 3>> triples = {{0, 10, 14}, {9, 11, 15}};
    if (th) {
        triples.push_back({1, 2, 3});
        triples.push_back({4, 5, 6});
        triples.push_back({7, 8, 12});
        triples.push_back({13, 0, 15});
    } else {
        triples.push_back({5, 7, 13}); // together with the rotation below every index 0..15 is a trigger at least once
    }
    int depth = 5;
    // ---- L1: full alphabet, depth-bounded, one worker per (triple, main line) -------------------------
    struct Job {
        std::array<int, 3> tr;
        int main_line;
        int layer; // 1: L1, 2: L2 shard
        int shard;
    };
    std::vector<Job> jobs;
    for (auto& t : triples)
        for (int ml = 0; ml < 3; ++ml)
            jobs.push_back({t, ml, 1, 0});
    // thorough: one level deeper over the core alphabet (trigger/acknowledge/route/enable/mask/step)
    if (th)
        for (int k = 0; k < 2; ++k)
            for (int ml = 0; ml < 3; ++ml)
                jobs.push_back({triples[k], ml, 4, 0});
    // remaining indices as single-IRQ rotations so that all 16 are exercised (quick tier)
    if (!th)
        for (int q : {1, 2, 3, 4, 6, 8, 12})
            jobs.push_back({{q, (q + 5) & 15, (q + 9) & 15}, 0, 3, 0});
    int l2_shards = 16;
    for (int s = 0; s < l2_shards; ++s) {
        jobs.push_back({{10, 14, 3}, 0, 2, s});
        jobs.push_back({{10, 14, 3}, 2, 2, s});
    }
    u64 l2_configs = th ? 4096 : 1024;
    std::vector<std::string> labels;
    RunPool((int)jobs.size(),
            [&](int idx, int, WorkerBlock& blk, Result& local) {
                QuietStdout quiet;
                const Job& j = jobs[idx];
                Setup su{{j.tr[0], j.tr[1], j.tr[2]}, j.main_line};
                Engine eng(local, su);
                bool fix = true;
                if (j.layer == 1 || j.layer == 3 || j.layer == 4) {
                    auto alpha = FullAlphabet(su, j.layer == 4);
                    eng.Explore(eng.base, [&](const Model&) { return alpha; }, j.layer == 1 ? depth : j.layer == 4 ? 6 : 3, 20000000ull, "", fix);
                    blk.counters[0] = 1;
                } else {
                    // L2: every fixed routing/mask configuration of a 2-IRQ alphabet, dynamic events to fixpoint
                    std::vector<Event> dyn;
                    dyn.push_back({E_STEP, 0, 0});
                    dyn.push_back({E_RUN, 0, 3});
                    dyn.push_back({E_TIMER, 0, 1}), dyn.push_back({E_TIMER, 0, 2});
                    for (int i = 0; i < 2; ++i) {
                        dyn.push_back({E_TRIG, 0, (u16)(1u << su.irq[i])});
                        dyn.push_back({E_ACK, 0, (u16)(1u << su.irq[i])});
                    }
                    dyn.push_back({E_ACK, 0, (u16)((1u << su.irq[0]) | (1u << su.irq[1]))});
                    dyn.push_back({E_IE, 0, 0});
                    dyn.push_back({E_IE, 0, 1});
                    dyn.push_back({E_VEC, 0, 1}), dyn.push_back({E_VEC, 0, 0});
                    auto subs = Subsets(su, 2);
                    u64 stride = 4096 / l2_configs;
                    for (u64 cfg = j.shard; cfg < 4096; cfg += l2_shards) {
                        if ((cfg / l2_shards) % stride != 0)
                            continue;
                        Rec init = eng.base;
                        eng.LoadRec(init);
                        u64 c = cfg;
                        eng.prefix.clear();
                        for (int line = 0; line < 4; ++line) {
                            eng.prefix.push_back({E_ROUTE, line, subs[c & 3]});
                            c >>= 2;
                        }
                        for (int i = 0; i < 3; ++i) {
                            eng.prefix.push_back({E_IM, i, (u16)(c & 1)});
                            c >>= 1;
                        }
                        eng.prefix.push_back({E_IMV, 0, (u16)(c & 1)});
                        eng.prefix.push_back({E_IC, 1, (u16)((cfg % 3) == 0)}); // vary context switching across configurations
                        for (auto& e : eng.prefix)
                            eng.ApplyReal(e);
                        init = eng.SaveRec();
                        bool f;
                        eng.Explore(init, [&](const Model&) { return dyn; }, 100000, 3000000ull, "", f);
                        fix = fix && f;
                        ++blk.counters[1];
                        // routing histories: an IRQ routed to two destinations, then removed from one of them (and the reverse order of
                        // adding): the remaining destination must still receive it. One destination is rewritten after the prefix.
                        for (int irq = 0; irq < 2; ++irq) {
                            u16 bit = (u16)(1u << su.irq[irq]);
                            int first = -1, count = 0;
                            u64 cc = cfg;
                            u16 first_set = 0;
                            for (int line = 0; line < 4; ++line, cc >>= 2)
                                if (subs[cc & 3] & bit) {
                                    if (first < 0)
                                        first = line, first_set = subs[cc & 3];
                                    ++count;
                                }
                            if (count < 2)
                                continue;
                            std::vector<Event> dyn2 = dyn;
                            dyn2.push_back({E_REROUTE_TRIG, first | (su.irq[irq] << 4), (u16)(first_set & ~bit)});
                            eng.Explore(init, [&](const Model&) { return dyn2; }, 3, 3000000ull, "", f);
                            ++blk.counters[3];
                        }
                    }
                }
                blk.evaluations = local.evaluations;
                blk.states = local.states;
                blk.transitions = local.transitions;
                blk.traces = local.traces_validated;
                blk.distinct = eng.digests.size();
                blk.counters[2] = eng.truncated;
                blk.capped = (j.layer == 2 && !fix) ? 1 : 0;
            },
            res);
    Wiring(res);
    res.rule = "BFS over the real ICU + interpreter + register file through the Teakra facade; events: software trigger (one and two "
               "IRQs), acknowledge of every subset, routing of every subset to each of the 4 lines, ie/im/imv/ic/cpc writes, whole-word "
               "writes of st0/st2/mod3/stt2/icr (incl. ones in the read-only request bits), arming timer 0 as a one-shot source that fires inside a later "
               "Run, reprogramming the vector registers of an IRQ (second handler address, context flag) at any point - before or after it is routed, requested or latched -, one instruction boundary (Run(1)) or three (Run(3)) "
               "of a fixed program (main line: two-word self-branch, rep 2;nop, or the brr -1 idle loop; handlers reti / retic / staying); after every event the projection of the real machine (request, routing, latches, ip/im/ie/ic, pc, sp, "
               "stack words, repeat state, banked im) must equal the reference interrupt model; non-trivial = transition that "
               "changes the projected state; plus the wiring check of the nine peripheral sources";
    res.bound = Fmt("L1: full alphabet (~80 events) to depth %d for %zu IRQ triples x 3 main lines (all 16 IRQ indices appear)%s; "
                    "L2: %llu of the 4096 fixed routing/mask configurations of a 2-IRQ alphabet, each explored to fixpoint (2 main lines) over "
                    "trigger/acknowledge/ie/step/run(3)/one-shot timer; interrupt nesting bounded at 2",
                    depth, triples.size(), th ? ", plus the core alphabet (trigger/acknowledge/route/enable/mask/step, ~62 events) to depth 6 for 2 triples x 3 main lines" : "", (unsigned long long)l2_configs);
    res.assumptions = {"interrupt nesting deeper than 2 is not expanded (counted in coverage)",
                       "the context store is observed through the banked im/imv it exchanges (its full effect is C08's subject)"};
    res.AddSample("route(int0,{10}); im0=1; ie=1; trigger(10); step -> pc=0006, stack=[0100,0000], ie=0; step (reti) -> pc=0100, ie=1");
    res.AddSample("route(vectored,{14}); imv=1; trigger(14); route(int1,{14}); ie=1; step -> vectored entry at 0210 with context switch");
}
} // namespace c07
