// Engine binary for the system-level checks (whole Teakra facade): C14 ...
#include "c06_slices.h"
#include "c07_irq.h"
#include "c11_views.h"
#include "c12_mmio.h"
#include "c14_apbp.h"
#include "c15_mmio.h"
#include "c17_reset.h"

// ---- heap fill seam (C17): every operator-new block is pre-filled with a pattern chosen by the harness ----
namespace verif_heap {
thread_local int g_fill = -1;
}
void* operator new(std::size_t n) {
    void* p = std::malloc(n ? n : 1);
    if (!p)
        throw std::bad_alloc();
    if (verif_heap::g_fill >= 0)
        std::memset(p, verif_heap::g_fill, n);
    return p;
}
void* operator new[](std::size_t n) {
    return operator new(n);
}
void operator delete(void* p) noexcept {
    std::free(p);
}
void operator delete[](void* p) noexcept {
    std::free(p);
}
void operator delete(void* p, std::size_t) noexcept {
    std::free(p);
}
void operator delete[](void* p, std::size_t) noexcept {
    std::free(p);
}

int main(int argc, char** argv) {
    verif::Args args = verif::Args::Parse(argc, argv);
    const bool shard_replay = verif::ParseShardReplay(args);
    verif::Result res;
    res.tier = args.tier;
    res.seed = args.seed;
    if (!args.replay.empty()) {
        if (args.replay.rfind("c06", 0) == 0)
            return c06::RunReplay(args.replay, res);
        if (args.replay.rfind("c07", 0) == 0)
            return c07::RunReplay(args.replay, res);
        if (args.replay.rfind("c12", 0) == 0)
            return c12::RunReplay(args.replay, res);
        if (args.replay.rfind("c17", 0) == 0)
            return c17::RunReplay(args.replay, res);
        if (args.replay.rfind("c11", 0) == 0)
            return c11::RunReplay(args.replay, res);
        if (args.replay.rfind("c15m", 0) == 0)
            return c15m::RunReplay(args.replay, res);
        if (args.replay.rfind("c14", 0) == 0)
            return c14::RunReplay(args.replay, res);
        return 2;
    }
    if (args.sub == "c06") {
        c06::Run(args, res);
    } else if (args.sub == "c07") {
        c07::Run(args, res);
    } else if (args.sub == "c12") {
        c12::Run(args, res);
    } else if (args.sub == "c17") {
        c17::Run(args, res);
    } else if (args.sub == "c11") {
        c11::Run(args, res);
    } else if (args.sub == "c15mmio") {
        res.property = "C15";
        verif::RunIsolated(res, [&](verif::Result& r) { c15m::Run(args, r); });
    } else if (args.sub == "c14") {
        res.property = "C14";
        verif::RunIsolated(res, [&](verif::Result& r) { c14::Run(args, r); });
    } else {
        std::fprintf(stderr, "usage: sys c14 ...\n");
        return 2;
    }
    return verif::Finish(args, res, shard_replay);
}
