// Engine binary for the system-level checks (whole Teakra facade): C14 ...
#include "c06_slices.h"
#include "c07_irq.h"
#include "c12_mmio.h"
#include "c14_apbp.h"

int main(int argc, char** argv) {
    verif::Args args = verif::Args::Parse(argc, argv);
    verif::Result res;
    res.tier = args.tier;
    res.seed = args.seed;
    if (!args.replay.empty()) {
        if (args.replay.rfind("c06", 0) == 0)
            return c06::RunReplay(args.replay, res);
        if (args.replay.rfind("c07", 0) == 0)
            return c07::RunReplay(args.replay, res);
        if (args.replay.rfind("c12", 0) == 0)
            return c12::RunReplay(args.replay, res);
        if (args.replay.rfind("c14", 0) == 0)
            return c14::RunReplay(args.replay, res);
        return 2;
    }
    if (args.sub == "c06") {
        c06::Run(args, res);
    } else if (args.sub == "c07") {
        c07::Run(args, res);
    } else if (args.sub == "c12") {
        c12::Run(args, res);
    } else if (args.sub == "c14") {
        c14::Run(args, res);
    } else {
        std::fprintf(stderr, "usage: sys c14 ...\n");
        return 2;
    }
    return res.Write(args.out.c_str()) ? 0 : 2;
}
