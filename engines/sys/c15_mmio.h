// C15 (MMIO layer) — the timers driven the way a program drives them: through the TIMERx registers of the real MMIORegion inside a
// Teakra and the machine's CoreTiming, against the same statement model the timer-level exploration uses.  A configuration write
// carries the mode, pause and mirror bits together with the restart command: the restart acts on the configuration that same write
// establishes.
#pragma once
#include "../periph/c15_timer.h"
#include "sys.h"

namespace c15m {
using namespace sys;
using c15::Ref;
using c15::TS;

enum { E_CFG, E_SCL, E_TICK, E_EW };
struct Ev {
    int kind;
    u16 val;
};
inline std::string Show(const Ev& e) {
    if (e.kind == E_CFG)
        return Fmt("CFG=%04X(mode=%u pause=%u mu=%u restart=%u)", e.val, (e.val >> 2) & 7, (e.val >> 8) & 1, (e.val >> 9) & 1, (e.val >> 10) & 1);
    if (e.kind == E_SCL)
        return Fmt("START_L=%u", e.val);
    return e.kind == E_TICK ? "cycle" : "event-write";
}
inline TS FromSnap(const TimerSnap& s) {
    TS t;
    std::memset(&t, 0, sizeof(t));
    t.mu = s.update_mmio, t.pause = s.pause, t.mode = s.mode, t.sh = s.start_high, t.sl = s.start_low, t.counter = s.counter, t.ch = s.counter_high, t.cl = s.counter_low;
    return t;
}
inline TimerSnap ToSnap(const TS& t) {
    TimerSnap s{};
    s.update_mmio = t.mu, s.pause = t.pause, s.mode = t.mode, s.scale = 0, s.start_high = t.sh, s.start_low = t.sl, s.counter = t.counter, s.counter_high = t.ch, s.counter_low = t.cl;
    return s;
}
struct Engine {
    Machine m;
    Result& res;
    int idx; // which timer
    std::unordered_set<u64> digests;
    Engine(Result& r, int i) : res(r), idx(i) {
        m.teakra->Reset();
    }
    std::string Replay(const TS& s, const Ev& e) const {
        return Fmt("c15m %d %u %u %u %u %u %u %u %u ev %d %u", idx, s.mu, s.pause, s.mode, s.sh, s.sl, s.counter, s.ch, s.cl, e.kind, e.val);
    }
    TS Step(const TS& s, const Ev& e, bool& ok) {
        ok = true;
        auto& t = *m.teakra;
        const u16 b = (u16)(0x20 + 0x10 * idx);
        Machine::LoadTimer(m.impl->timer[idx], ToSnap(s));
        m.impl->icu.Acknowledge(0xFFFF);
        TS model = s;
        int model_irq = 0;
        try {
            switch (e.kind) {
            case E_CFG:
                t.MMIOWrite(b, e.val);
                model.mode = (e.val >> 2) & 7, model.pause = (e.val >> 8) & 1, model.mu = (e.val >> 9) & 1;
                if (e.val >> 10 & 1)
                    Ref::Restart(model);
                break;
            case E_SCL:
                t.MMIOWrite((u16)(b + 4), e.val);
                model.sl = e.val;
                break;
            case E_TICK:
                m.impl->core_timing.Tick();
                model_irq = Ref::Tick(model);
                break;
            default:
                t.MMIOWrite((u16)(b + 2), 1);
                model_irq = Ref::Event(model);
                break;
            }
        } catch (const T::VerifAssertion&) {
            ok = false;
            return s;
        }
        TS got = FromSnap(Machine::SaveTimer(m.impl->timer[idx]));
        int irq = (int)((m.impl->icu.GetRequest() >> (idx == 0 ? 10 : 9)) & 1);
        ++res.transitions, ++res.traces_validated, ++res.evaluations;
        std::string bad;
        if (!(got == model))
            bad = Fmt("timer becomes %s, the statement gives %s", c15::Show(got).c_str(), c15::Show(model).c_str());
        else if (irq != (model_irq ? 1 : 0))
            bad = Fmt("interrupt request %d, expected %d", irq, model_irq);
        else if (t.MMIORead((u16)(b + 8)) != got.cl || t.MMIORead((u16)(b + 10)) != got.ch)
            bad = "the counter mirror registers do not read the mirror";
        else if (((t.MMIORead(b) >> 2) & 7) != got.mode || ((t.MMIORead(b) >> 8) & 3) != (got.pause | (got.mu << 1)))
            bad = Fmt("the configuration register reads %04X", t.MMIORead(b));
        if (!bad.empty()) {
            res.AddViolation(Fmt("c15:mmio:%s:mode%u->%u", e.kind == E_CFG ? ((e.val >> 10 & 1) ? "cfg-with-restart" : "cfg") : Show(e).c_str(), s.mode, got.mode),
                             Fmt("timer %d in %s, %s: %s", idx, c15::Show(s).c_str(), Show(e).c_str(), bad.c_str()), Replay(s, e));
            ok = false;
        }
        if (!(got == s))
            digests.insert(Fnv(&got, sizeof(got), Fnv(&s, sizeof(s), e.kind * 77777 + e.val)));
        return got;
    }
    void Explore(int max_depth) {
        std::vector<Ev> al;
        for (u16 cm = 0; cm < 4; ++cm)
            for (u16 pc = 0; pc < 2; ++pc)
                for (u16 mu = 0; mu < 2; ++mu)
                    for (u16 rs = 0; rs < 2; ++rs)
                        al.push_back({E_CFG, (u16)((cm << 2) | (pc << 8) | (mu << 9) | (rs << 10))});
        for (u16 v : {(u16)0, (u16)1, (u16)3})
            al.push_back({E_SCL, v});
        al.push_back({E_TICK, 0}), al.push_back({E_EW, 0});
        TS init;
        std::memset(&init, 0, sizeof(init));
        std::unordered_set<TS, c15::TSHash> seen{init};
        std::vector<TS> frontier{init}, next;
        for (int depth = 0; depth < max_depth && !frontier.empty(); ++depth) {
            next.clear();
            for (auto& s : frontier)
                for (auto& e : al) {
                    bool ok;
                    TS n = Step(s, e, ok);
                    if (ok && seen.insert(n).second)
                        next.push_back(n);
                }
            frontier.swap(next);
        }
        res.states += seen.size();
        res.Extra(Fmt("mmio_timer%d_states", idx), seen.size());
    }
};
inline int RunReplay(const std::string& r, Result& res) {
    int idx, kind;
    unsigned a[8], val;
    if (std::sscanf(r.c_str(), "c15m %d %u %u %u %u %u %u %u %u ev %d %u", &idx, &a[0], &a[1], &a[2], &a[3], &a[4], &a[5], &a[6], &a[7], &kind, &val) != 11)
        return 2;
    TS s;
    std::memset(&s, 0, sizeof(s));
    s.mu = a[0], s.pause = a[1], s.mode = a[2], s.sh = a[3], s.sl = a[4], s.counter = a[5], s.ch = a[6], s.cl = a[7];
    QuietStdout quiet;
    Engine e(res, idx);
    bool ok;
    e.Step(s, Ev{kind, (u16)val}, ok);
    for (auto& v : res.violations)
        quiet.Say(Fmt("  %s\n    %s\n", v.key.c_str(), v.text.c_str()));
    return res.violations.empty() ? 0 : 1;
}
inline void Run(const Args& args, Result& res) {
    res.property = "C15";
    QuietStdout quiet;
    u64 dist = 0;
    for (int idx = 0; idx < 2; ++idx) {
        Engine e(res, idx);
        e.Explore(args.thorough() ? 8 : 6);
        dist += e.digests.size();
    }
    res.distinct_nontrivial = dist;
    res.rule = "the two timers inside a Teakra driven through their MMIO registers (32 configuration words: mode x pause x mirror-update x restart, start values, "
               "event writes) and the machine's CoreTiming, BFS over the timer state, every transition against the statement model incl. the ICU request and the "
               "register read-back";
    res.bound = Fmt("MMIO layer: depth %d over a 37-event alphabet, both timers", args.thorough() ? 8 : 6);
}
} // namespace c15m
