// C14 — BFS over both APBP directions inside a real Teakra (host API on one side, DSP-side MMIO on
// the other), reference handshake model in lock-step, signal invariant in every state.
#pragma once
#include "sys.h"

namespace c14 {
using namespace sys;

struct St {
    ApbpSnap d[2]; // 0: CPU->DSP (apbp_from_cpu), 1: DSP->CPU (apbp_from_dsp)
    bool operator==(const St& o) const {
        return std::memcmp(this, &o, sizeof(St)) == 0;
    }
};
struct StHash {
    size_t operator()(const St& s) const {
        return (size_t)Fnv(&s, sizeof(St));
    }
};
inline St Zero() {
    St s;
    std::memset(&s, 0, sizeof(s));
    return s;
}
inline std::string Show(const ApbpSnap& a) {
    return Fmt("[rdy=%d%d%d data=%X,%X,%X dis=%d%d%d sem=%04X mask=%04X S=%d]", a.ready[0], a.ready[1],
               a.ready[2], a.data[0], a.data[1], a.data[2], a.disable[0], a.disable[1], a.disable[2],
               a.semaphore, a.mask, a.signal);
}
inline std::string Show(const St& s) {
    return "{cpu->dsp " + Show(s.d[0]) + " dsp->cpu " + Show(s.d[1]) + "}";
}

enum Kind {
    H_SEND, D_RECV, D_SEND, D_PEEK, H_RECV, H_PEEK, D_DISABLE, H_SETSEM, D_ACK, D_MASK, D_SETSEM, H_CLEAR, H_MASK,
    KIND_COUNT
};
static const char* kKindName[] = {"host.SendData", "dsp.read CMD", "dsp.write REPLY", "dsp.read REPLY(peek)",
                                  "host.RecvData", "host.PeekRecvData", "dsp.write APBP_CFG(int-disable)",
                                  "host.SetSemaphore", "dsp.write ACK_SEMAPHORE", "dsp.write MASK_SEMAPHORE",
                                  "dsp.write SET_SEMAPHORE", "host.ClearSemaphore", "host.MaskSemaphore"};
struct Event {
    int kind;
    u16 ch;
    u16 val;
};
inline std::string Show(const Event& e) {
    return Fmt("%s(ch=%u,val=%04X)", kKindName[e.kind], e.ch, e.val);
}
// component id of an event: 0..2 data cpu->dsp ch, 3..5 data dsp->cpu ch, 6 semaphore cpu->dsp, 7 semaphore dsp->cpu
inline std::vector<int> Components(const Event& e) {
    switch (e.kind) {
    case H_SEND: case D_RECV: return {e.ch};
    case D_DISABLE: return {0, 1, 2};
    case D_SEND: case D_PEEK: case H_RECV: case H_PEEK: return {3 + e.ch};
    case H_SETSEM: case D_ACK: case D_MASK: return {6};
    default: return {7};
    }
}

struct Expect { // what the statement says one event must make observable
    int dsp_irq;  // 1 must fire, 0 must not, -1 either
    int host_cb[3];
    int host_sem; // 1 / 0 / -1
    bool has_ret;
    u16 ret;
};

struct Ref {
    static bool Sig(const ApbpSnap& a) {
        return (a.semaphore & ~a.mask) != 0;
    }
    static Expect Apply(St& s, const Event& e) {
        Expect x{0, {0, 0, 0}, 0, false, 0};
        ApbpSnap& c = s.d[0];
        ApbpSnap& r = s.d[1];
        switch (e.kind) {
        case H_SEND:
            c.ready[e.ch] = true;
            c.data[e.ch] = e.val;
            x.dsp_irq = c.disable[e.ch] ? 0 : 1;
            break;
        case D_RECV:
            x.has_ret = true;
            x.ret = c.data[e.ch];
            c.ready[e.ch] = false;
            break;
        case D_SEND:
            r.ready[e.ch] = true;
            r.data[e.ch] = e.val;
            x.host_cb[e.ch] = 1;
            break;
        case D_PEEK:
        case H_PEEK:
            x.has_ret = true;
            x.ret = r.data[e.ch];
            break;
        case H_RECV:
            x.has_ret = true;
            x.ret = r.data[e.ch];
            r.ready[e.ch] = false;
            break;
        case D_DISABLE:
            c.disable[0] = (e.val >> 8) & 1;
            c.disable[1] = (e.val >> 12) & 1;
            c.disable[2] = (e.val >> 13) & 1;
            break;
        case H_SETSEM:
        case D_ACK:
        case D_MASK: {
            bool before = Sig(c);
            if (e.kind == H_SETSEM)
                c.semaphore |= e.val;
            else if (e.kind == D_ACK)
                c.semaphore &= ~e.val;
            else
                c.mask = e.val;
            bool after = Sig(c);
            c.signal = after;
            x.dsp_irq = (!before && after) ? 1 : (!after ? 0 : -1);
            break;
        }
        case D_SETSEM:
        case H_CLEAR:
        case H_MASK: {
            bool before = Sig(r);
            if (e.kind == D_SETSEM)
                r.semaphore |= e.val;
            else if (e.kind == H_CLEAR)
                r.semaphore &= ~e.val;
            else
                r.mask = e.val;
            bool after = Sig(r);
            r.signal = after;
            x.host_sem = (!before && after) ? 1 : (!after ? 0 : -1);
            break;
        }
        }
        return x;
    }
};

struct Engine {
    Machine m;
    Result& res;
    std::unordered_set<u64> digests;
    std::vector<Event> alphabet;

    explicit Engine(Result& r) : res(r) {
        const u16 sems[] = {0x0001, 0x0002, 0x8000, 0x0003, 0x8001, 0x8002, 0x8003};
        for (u16 ch = 0; ch < 3; ++ch) {
            for (u16 v : {1, 2}) {
                alphabet.push_back({H_SEND, ch, v});
                alphabet.push_back({D_SEND, ch, v});
            }
            alphabet.push_back({D_RECV, ch, 0});
            alphabet.push_back({D_PEEK, ch, 0});
            alphabet.push_back({H_RECV, ch, 0});
            alphabet.push_back({H_PEEK, ch, 0});
        }
        for (int b = 0; b < 8; ++b)
            alphabet.push_back({D_DISABLE, 0, (u16)(((b & 1) << 8) | (((b >> 1) & 1) << 12) | (((b >> 2) & 1) << 13))});
        for (u16 v : sems) {
            alphabet.push_back({H_SETSEM, 0, v});
            alphabet.push_back({D_ACK, 0, v});
            alphabet.push_back({D_SETSEM, 0, v});
            alphabet.push_back({H_CLEAR, 0, v});
        }
        for (u16 v : {(u16)0, sems[0], sems[1], sems[2], sems[3], sems[4], sems[5], sems[6]}) {
            alphabet.push_back({D_MASK, 0, v});
            alphabet.push_back({H_MASK, 0, v});
        }
    }

    void LoadState(const St& s) {
        m.LoadApbp(m.apbp(0), s.d[0]);
        m.LoadApbp(m.apbp(1), s.d[1]);
        m.impl->icu.Acknowledge(0xFFFF);
        m.host_data_cb[0] = m.host_data_cb[1] = m.host_data_cb[2] = 0;
        m.host_sem_cb = 0;
        m.log.clear();
    }
    St SaveState() {
        St s = Zero();
        s.d[0] = Machine::SaveApbp(m.apbp(0));
        s.d[1] = Machine::SaveApbp(m.apbp(1));
        return s;
    }
    static std::string Cls(const St& s, const Event& e) {
        const ApbpSnap& a = (e.kind == H_SEND || e.kind == D_RECV || e.kind == D_DISABLE || e.kind == H_SETSEM ||
                             e.kind == D_ACK || e.kind == D_MASK)
                                ? s.d[0]
                                : s.d[1];
        if (e.kind >= H_SETSEM)
            return Fmt("%s:sig_before=%d,flag_before=%d", kKindName[e.kind], Ref::Sig(a), a.signal);
        return Fmt("%s:ready_before=%d,disabled=%d", kKindName[e.kind], a.ready[e.ch], a.disable[e.ch] != 0);
    }
    static std::string Replay(const St& s, const Event& e) {
        std::string r = "c14";
        for (int d = 0; d < 2; ++d) {
            const ApbpSnap& a = s.d[d];
            r += Fmt(" %d %d %d %u %u %u %u %u %u %u %u %d", a.ready[0], a.ready[1], a.ready[2], a.data[0], a.data[1],
                     a.data[2], a.disable[0], a.disable[1], a.disable[2], a.semaphore, a.mask, a.signal);
        }
        return r + Fmt(" ev %d %u %u", e.kind, e.ch, e.val);
    }

    St Step(const St& s, const Event& e, bool& ok) {
        ok = true;
        LoadState(s);
        St ref = s;
        Expect x = Ref::Apply(ref, e);
        u16 ret = 0;
        auto& t = *m.teakra;
        try {
            switch (e.kind) {
            case H_SEND: t.SendData((u8)e.ch, e.val); break;
            case D_RECV: ret = t.MMIORead(0x0C2 + e.ch * 4); break;
            case D_SEND: t.MMIOWrite(0x0C0 + e.ch * 4, e.val); break;
            case D_PEEK: ret = t.MMIORead(0x0C0 + e.ch * 4); break;
            case H_RECV: ret = t.RecvData((u8)e.ch); break;
            case H_PEEK: ret = t.PeekRecvData((u8)e.ch); break;
            case D_DISABLE: t.MMIOWrite(0x0D4, e.val); break;
            case H_SETSEM: t.SetSemaphore(e.val); break;
            case D_ACK: t.MMIOWrite(0x0D0, e.val); break;
            case D_MASK: t.MMIOWrite(0x0CE, e.val); break;
            case D_SETSEM: t.MMIOWrite(0x0CC, e.val); break;
            case H_CLEAR: t.ClearSemaphore(e.val); break;
            case H_MASK: t.MaskSemaphore(e.val); break;
            }
        } catch (const T::VerifAssertion& a) {
            res.AddViolation(std::string("c14:assert:") + kKindName[e.kind], Fmt("assertion %s in %s from %s", a.expression, Show(e).c_str(), Show(s).c_str()), Replay(s, e));
            ok = false;
            return s;
        }
        ++res.transitions;
        ++res.traces_validated;
        St got = SaveState();
        u16 icu_req = m.impl->icu.GetRequest();
        std::string bad;
        auto fail = [&](const std::string& what) {
            if (bad.empty())
                bad = what;
        };
        // state after the event (ready/data/disable/semaphore/mask) must equal the model's
        for (int d = 0; d < 2; ++d) {
            ApbpSnap a = got.d[d], b = ref.d[d];
            a.signal = b.signal = false;
            if (std::memcmp(&a, &b, sizeof(a)) != 0)
                fail("state");
        }
        // invariant in the reached state: signal flag == ((semaphore & ~mask) != 0), both directions
        for (int d = 0; d < 2; ++d)
            if (got.d[d].signal != Ref::Sig(got.d[d]))
                fail("signal-invariant");
        if (x.has_ret && ret != x.ret)
            fail("return-value");
        // interrupts towards the DSP arrive as ICU request 14 and nothing else
        int dsp_irq = (icu_req >> 14) & 1;
        if (icu_req & ~0x4000)
            fail("wrong-icu-line");
        if (x.dsp_irq >= 0 && dsp_irq != x.dsp_irq)
            fail(x.dsp_irq ? "dsp-interrupt-missing" : "dsp-interrupt-spurious");
        for (int i = 0; i < 3; ++i)
            if ((m.host_data_cb[i] != 0) != (x.host_cb[i] != 0))
                fail(x.host_cb[i] ? "host-callback-missing" : "host-callback-spurious");
        if (x.host_sem >= 0 && (m.host_sem_cb != 0) != (x.host_sem != 0))
            fail(x.host_sem ? "host-semaphore-callback-missing" : "host-semaphore-callback-spurious");
        // status views: DSP-side registers and host API report the same flags (non-destructive reads)
        u16 d6 = t.MMIORead(0x0D6), d8 = t.MMIORead(0x0D8);
        const ApbpSnap& c = ref.d[0];
        const ApbpSnap& r = ref.d[1];
        u16 e6 = (r.ready[0] << 5) | (r.ready[1] << 6) | (r.ready[2] << 7) | (c.ready[0] << 8) | (Ref::Sig(c) << 9) |
                 (c.ready[1] << 12) | (c.ready[2] << 13);
        u16 e8 = (Ref::Sig(c) << 9) | (r.ready[0] << 10) | (r.ready[1] << 11) | (r.ready[2] << 12) | (c.ready[0] << 13) |
                 (c.ready[1] << 14) | (c.ready[2] << 15);
        if (d6 != e6 || d8 != e8)
            fail("status-register");
        for (u8 i = 0; i < 3; ++i) {
            if (t.SendDataIsEmpty(i) != !c.ready[i] || t.RecvDataIsReady(i) != r.ready[i])
                fail("host-ready-api");
        }
        if (t.GetSemaphore() != r.semaphore || t.MMIORead(0x0D2) != c.semaphore || t.MMIORead(0x0CC) != r.semaphore ||
            t.MMIORead(0x0CE) != c.mask)
            fail("semaphore-readback");
        u16 d4 = t.MMIORead(0x0D4);
        if (((d4 >> 8) & 1) != (c.disable[0] != 0) || ((d4 >> 12) & 1) != (c.disable[1] != 0) ||
            ((d4 >> 13) & 1) != (c.disable[2] != 0))
            fail("disable-readback");
        St after_reads = SaveState();
        if (!(after_reads == got))
            fail("status-read-has-side-effect");
        if (!bad.empty()) {
            res.AddViolation("c14:" + bad + ":" + Cls(s, e),
                             Fmt("%s from %s: implementation -> %s ret=%04X icu=%04X host_cb=%d%d%d sem_cb=%d D6=%04X D8=%04X; "
                                 "statement model -> %s ret=%04X dsp_irq=%d host_cb=%d%d%d sem_cb=%d D6=%04X D8=%04X",
                                 Show(e).c_str(), Show(s).c_str(), Show(got).c_str(), ret, icu_req, m.host_data_cb[0],
                                 m.host_data_cb[1], m.host_data_cb[2], m.host_sem_cb, d6, d8, Show(ref).c_str(), x.ret,
                                 x.dsp_irq, x.host_cb[0], x.host_cb[1], x.host_cb[2], x.host_sem, e6, e8),
                             Replay(s, e));
        }
        if (!(got == s) || icu_req || m.host_sem_cb || m.host_data_cb[0] || m.host_data_cb[1] || m.host_data_cb[2])
            digests.insert(Fnv(&got, sizeof(got), Fnv(&s, sizeof(s)) ^ Mix(e.kind * 7919 + e.ch * 131 + e.val)));
        return got;
    }

    // BFS from the reset state over the events selected by `pick`; returns true if a fixpoint was reached
    bool Explore(const std::function<bool(const Event&)>& pick, int max_depth, const std::string& label) {
        std::vector<Event> evs;
        for (auto& e : alphabet)
            if (pick(e))
                evs.push_back(e);
        St init = Zero();
        std::unordered_set<St, StHash> seen{init};
        std::vector<St> frontier{init}, next;
        int depth = 0;
        while (!frontier.empty() && depth < max_depth) {
            next.clear();
            for (auto& s : frontier)
                for (auto& e : evs) {
                    bool ok;
                    const u64 viol_before = res.violation_events;
                    St n = Step(s, e, ok);
                    ++res.evaluations;
                    // a violating transition is reported, not expanded
                    if (ok && res.violation_events == viol_before && seen.insert(n).second)
                        next.push_back(n);
                }
            frontier.swap(next);
            ++depth;
        }
        res.states += seen.size();
        res.Extra(label + "_states", seen.size());
        res.Extra(label + "_depth", depth);
        return frontier.empty();
    }
};

inline int RunReplay(const std::string& r, Result& res) {
    St s = Zero();
    int v[24], k;
    unsigned ch, val;
    int n = 0;
    const char* p = r.c_str() + 3;
    for (int i = 0; i < 24; ++i) {
        int used;
        if (std::sscanf(p, " %d%n", &v[i], &used) != 1)
            return 2;
        p += used;
        ++n;
    }
    if (std::sscanf(p, " ev %d %u %u", &k, &ch, &val) != 3)
        return 2;
    for (int d = 0; d < 2; ++d) {
        int* q = v + 12 * d;
        ApbpSnap& a = s.d[d];
        for (int i = 0; i < 3; ++i)
            a.ready[i] = q[i], a.data[i] = q[3 + i], a.disable[i] = q[6 + i];
        a.semaphore = q[9], a.mask = q[10], a.signal = q[11];
    }
    QuietStdout quiet;
    Engine eng(res);
    bool ok;
    Event e{k, (u16)ch, (u16)val};
    St nx = eng.Step(s, e, ok);
    quiet.Say(Fmt("replay: %s --%s--> %s\n", Show(s).c_str(), Show(e).c_str(), Show(nx).c_str()));
    for (auto& x : res.violations)
        quiet.Say(Fmt("  %s\n    %s\n", x.key.c_str(), x.text.c_str()));
    return res.violations.empty() ? 0 : 1;
}

inline void Run(const Args& args, Result& res) {
    res.property = "C14";
    QuietStdout quiet;
    Engine eng(res);
    int depth = args.thorough() ? 6 : 4;
    eng.Explore([](const Event&) { return true; }, depth, "L1_combined");
    bool all_fix = true;
    for (int comp = 0; comp < 8; ++comp) {
        bool fix = eng.Explore(
            [comp](const Event& e) {
                for (int c : Components(e))
                    if (c == comp)
                        return true;
                return false;
            },
            100000, Fmt("L2_component%d", comp));
        all_fix = all_fix && fix;
    }
    // pairs of components (cross-talk between a data channel and a semaphore, two channels, ...) to fixpoint
    {
        for (int a = 0; a < 8; ++a)
            for (int b = a + 1; b < 8; ++b) {
                bool fix = eng.Explore(
                    [a, b](const Event& e) {
                        for (int c : Components(e))
                            if (c == a || c == b)
                                return true;
                        return false;
                    },
                    100000, Fmt("L3_pair%d_%d", a, b));
                all_fix = all_fix && fix;
            }
    }
    if (!all_fix)
        res.exhaustive = false;
    res.distinct_nontrivial = eng.digests.size();
    res.rule = "BFS over the two real Apbp objects inside a Teakra: host side through the public API, DSP side through "
               "MMIO 0x0C0-0x0D8; 76 events (send v in {1,2} / receive / peek per channel and direction, interrupt-disable "
               "subsets, semaphore set/ack/mask with all subsets of bits {0,1,15}); every transition compared with the "
               "statement model (state, return value, ICU line 14, host callbacks) plus signal==((sem&~mask)!=0) and "
               "status-register/host-API agreement in every reached state; non-trivial = transition that changes state or "
               "raises an interrupt/callback";
    res.bound = Fmt("L1: all event sequences to depth %d over the combined alphabet; L2: complete reachable set of each of "
                    "the 8 components (6 data channels, 2 semaphore directions)%s",
                    depth, "; L3: complete reachable set of every pair of components");
    res.assumptions = {"payload values restricted to {1,2}, semaphore bits to {0,1,15} (the code treats all bits alike)",
                       "DSP->CPU channels have no interrupt-disable control reachable through the facade"};
    res.AddSample("host.SendData(0,1); dsp.read CMD0; dsp.write REPLY0=2; host.PeekRecvData(0); host.RecvData(0)");
    res.AddSample("host.SetSemaphore(8001); dsp.write MASK=8001; dsp.write MASK=0000 (signal must rise, IRQ 14); dsp.write ACK=8001");
}
} // namespace c14
