// Whole-machine access for the system-level engines.  This TU textually includes the repository's
// processor.cpp, apbp.cpp, mmio.cpp and teakra.cpp (in that order - see DESIGN 2.1) so that
// Teakra::Impl, Processor::Impl, Apbp::Impl and MMIORegion::Impl are complete types here; the
// engine is compiled with -fno-access-control.  Those four objects are therefore NOT linked.
#pragma once
#include "../common/verif.h"
#include "../common/adapters.h"

#include "processor.cpp"
// keep order: processor.cpp first, otherwise `Teakra::RegisterState` inside processor.cpp would
// resolve to class Teakra::Teakra once teakra.h has been seen.
#include "apbp.cpp"
#include "mmio.cpp"
#include "teakra.cpp"

namespace sys {
using namespace verif;
namespace T = ::Teakra;

struct ApbpSnap {
    bool ready[3];
    u16 data[3];
    u16 disable[3];
    u16 semaphore, mask;
    bool signal;
};
struct IcuSnap {
    u16 request, enabled[3], venabled;
    std::array<u16, 16> vlow, vhigh, vctx;
};
struct TimerSnap {
    u16 update_mmio, pause, mode, scale, start_high, start_low;
    u32 counter;
    u16 counter_high, counter_low;
};
struct BtdmpSnap {
    u16 clock_config, period, timer, enable;
    bool empty, full;
    std::deque<u16> queue;
    std::shared_ptr<const T::Btdmp> object; // only where the port's state is not reachable by member name: a copy of the object for an exact restore
};
struct CoreSnap {
    bool ip[3], ipv, vctx, idle;
    u32 vaddr;
};

// Complete modelled machine state except DSP memory (handled through tracked windows) and the raw
// backing words of MMIO cells (the alphabets never write unmodelled bits, see DESIGN).
struct Snap {
    T::RegisterState regs;
    CoreSnap core;
    T::MemoryInterfaceUnit miu;
    IcuSnap icu;
    ApbpSnap apbp[2]; // 0 = from_cpu, 1 = from_dsp
    TimerSnap timer[2];
    BtdmpSnap btdmp[2];
    std::vector<u16> window; // tracked data words
};

struct Machine {
    std::unique_ptr<T::Teakra> teakra;
    T::Teakra::Impl* impl;
    T::Interpreter* interp;
    // callback log
    std::vector<std::string> log;
    int host_data_cb[3] = {0, 0, 0};
    int host_sem_cb = 0;
    u64 log_dropped = 0;
    // tracked data window [lo, hi) in bank 0 data space
    u32 win_lo = 0, win_hi = 0;

    explicit Machine(u8* user_memory = nullptr) {
        T::UserConfig cfg;
        cfg.dsp_memory = user_memory;
        teakra = std::make_unique<T::Teakra>(cfg);
        impl = teakra->impl.get();
        interp = &impl->processor.impl->interpreter;
        for (int i = 0; i < 3; ++i)
            teakra->SetRecvDataHandler(i, [this, i]() {
                ++host_data_cb[i];
                log.push_back(Fmt("recv%d", i));
            });
        teakra->SetSemaphoreHandler([this]() {
            ++host_sem_cb;
            log.push_back("sem");
        });
        teakra->SetAudioCallback([this](std::array<std::int16_t, 2> f) {
            // a runaway producer (a fast-forward without budget emits frames without end) must not take the machine's memory with it:
            // beyond a million entries the log stops growing; the call that never returns is then reported by the pool supervisor
            if (log.size() < 1000000)
                log.push_back(Fmt("audio(%d,%d)", f[0], f[1]));
            else
                ++log_dropped;
        });
    }
    T::RegisterState& regs() {
        return impl->processor.impl->regs;
    }
    T::Apbp& apbp(int i) {
        return i == 0 ? impl->apbp_from_cpu : impl->apbp_from_dsp;
    }
    u16 DataWord(u32 a) const {
        return impl->shared_memory.raw[(0x20000 + a) * 2] | (impl->shared_memory.raw[(0x20000 + a) * 2 + 1] << 8);
    }
    void SetDataWord(u32 a, u16 v) {
        impl->shared_memory.raw[(0x20000 + a) * 2] = (u8)v;
        impl->shared_memory.raw[(0x20000 + a) * 2 + 1] = (u8)(v >> 8);
    }
    void SetProg(u32 a, u16 v) {
        impl->shared_memory.raw[a * 2] = (u8)v;
        impl->shared_memory.raw[a * 2 + 1] = (u8)(v >> 8);
    }

    // mailbox state: by member name where the members are the pinned ones (no locks taken: the scheduler's state hash runs outside any
    // scheduled thread), else through the public interface (every component has a getter)
    template <class A>
    static ApbpSnap SaveApbpT(const A& ap) {
        using I = std::remove_reference_t<decltype(*ap.impl)>;
        ApbpSnap s{};
        if constexpr (ApbpByName<I>()) {
            const I& a = *ap.impl;
            for (int i = 0; i < 3; ++i) {
                s.ready[i] = a.data_channels[i].ready;
                s.data[i] = a.data_channels[i].data;
                s.disable[i] = a.data_channels[i].disable_interrupt;
            }
            s.semaphore = a.semaphore;
            s.mask = a.semaphore_mask;
            s.signal = a.semaphore_master_signal;
        } else
            s = SaveApbpPublic(ap);
        return s;
    }
    static ApbpSnap SaveApbp(const T::Apbp& a) {
        return SaveApbpT(a);
    }
    static ApbpSnap SaveApbpPublic(const T::Apbp& a) {
        ApbpSnap s{};
        for (unsigned i = 0; i < 3; ++i) {
            s.ready[i] = a.IsDataReady(i);
            s.data[i] = a.PeekData(i);
            s.disable[i] = a.GetDisableInterrupt(i);
        }
        s.semaphore = a.GetSemaphore();
        s.mask = a.GetSemaphoreMask();
        s.signal = a.IsSemaphoreSignaled();
        return s;
    }
    template <class I>
    static constexpr bool ApbpByName() {
        if constexpr (verif_adapt::has_semaphore<I>(0) && verif_adapt::has_semaphore_mask<I>(0) && verif_adapt::has_semaphore_master_signal<I>(0) && verif_adapt::has_data_channels<I>(0)) {
            using C = std::remove_reference_t<decltype(std::declval<I&>().data_channels[0])>;
            return verif_adapt::has_ready<C>(0) && verif_adapt::has_data<C>(0) && verif_adapt::has_disable_interrupt<C>(0);
        } else
            return false;
    }
    template <class A>
    static void LoadApbpT(A& ap, const ApbpSnap& s) {
        using I = std::remove_reference_t<decltype(*ap.impl)>;
        if constexpr (ApbpByName<I>()) {
            I& a = *ap.impl;
            for (int i = 0; i < 3; ++i) {
                a.data_channels[i].ready = s.ready[i];
                a.data_channels[i].data = s.data[i];
                a.data_channels[i].disable_interrupt = s.disable[i];
            }
            a.semaphore = s.semaphore;
            a.semaphore_mask = s.mask;
            a.semaphore_master_signal = s.signal;
        } else {
            // public interface only: the state is re-established from Reset; handlers are silenced while doing so (callers restore the
            // interrupt controller and the host-side counters after the mailboxes)
            ap.Reset();
            ap.MaskSemaphore(0xFFFF);
            if (s.semaphore)
                ap.SetSemaphore(s.semaphore);
            ap.MaskSemaphore(s.mask);
            for (unsigned i = 0; i < 3; ++i) {
                ap.SetDisableInterrupt(i, 1);
                if (s.ready[i])
                    ap.SendData(i, s.data[i]);
                else if (s.data[i]) { // an emptied mailbox keeps its last word
                    ap.SendData(i, s.data[i]);
                    (void)ap.RecvData(i);
                }
                ap.SetDisableInterrupt(i, s.disable[i]);
            }
        }
    }
    void LoadApbp(T::Apbp& ap, const ApbpSnap& s) {
        const auto cb0 = host_data_cb[0], cb1 = host_data_cb[1], cb2 = host_data_cb[2];
        const auto sem = host_sem_cb;
        const size_t nlog = log.size();
        LoadApbpT(ap, s);
        host_data_cb[0] = cb0, host_data_cb[1] = cb1, host_data_cb[2] = cb2, host_sem_cb = sem;
        log.resize(nlog);
    }
    template <class I>
    static void ReadIcuWords(const I& icu, IcuSnap& s) {
        if constexpr (verif_adapt::has_request<I>(0) && verif_adapt::has_enabled<I>(0) && verif_adapt::has_vectored_enabled<I>(0)) {
            s.request = (u16)icu.request.to_ulong(); // no lock taken (see SaveApbpT)
            for (int i = 0; i < 3; ++i)
                s.enabled[i] = (u16)icu.enabled[i].to_ulong();
            s.venabled = (u16)icu.vectored_enabled.to_ulong();
        } else {
            s.request = icu.GetRequest();
            for (int i = 0; i < 3; ++i)
                s.enabled[i] = icu.GetEnable(i);
            s.venabled = icu.GetEnableVectored();
        }
    }
    IcuSnap SaveIcu() {
        IcuSnap s;
        auto& icu = impl->icu;
        ReadIcuWords(icu, s);
        s.vlow = icu.vector_low;
        s.vhigh = icu.vector_high;
        s.vctx = icu.vector_context_switch;
        return s;
    }
    template <class I>
    void LoadIcuT(I& icu, const IcuSnap& s) {
        for (int i = 0; i < 3; ++i)
            icu.SetEnable(i, s.enabled[i]);
        icu.SetEnableVectored(s.venabled);
        icu.vector_low = s.vlow;
        icu.vector_high = s.vhigh;
        icu.vector_context_switch = s.vctx;
        if constexpr (verif_adapt::has_request<I>(0)) {
            icu.request = s.request; // std::bitset<16> or a plain word
        } else {
            // public interface only: acknowledge everything, raise the wanted requests again; the signals this sends to the core are undone
            const CoreSnap c = SaveCore();
            icu.Acknowledge(0xFFFF);
            if (s.request)
                icu.Trigger(s.request);
            LoadCore(c);
        }
    }
    void LoadIcu(const IcuSnap& s) {
        LoadIcuT(impl->icu, s);
    }
    static TimerSnap SaveTimer(const T::Timer& t) {
        return {t.update_mmio, t.pause, (u16)t.count_mode, t.scale, t.start_high, t.start_low,
                t.counter,     t.counter_high, t.counter_low};
    }
    static void LoadTimer(T::Timer& t, const TimerSnap& s) {
        t.update_mmio = s.update_mmio;
        t.pause = s.pause;
        t.count_mode = (T::Timer::CountMode)s.mode;
        t.scale = s.scale;
        t.start_high = s.start_high;
        t.start_low = s.start_low;
        t.counter = s.counter;
        t.counter_high = s.counter_high;
        t.counter_low = s.counter_low;
    }
    static BtdmpSnap SaveBtdmp(const T::Btdmp& b) {
        const verif_adapt::BtdmpView v = verif_adapt::ReadBtdmp(b);
        BtdmpSnap s;
        s.clock_config = v.clock_config, s.period = v.period, s.timer = v.timer, s.enable = v.enable, s.empty = v.empty, s.full = v.full;
        s.queue = v.queue;
        if constexpr (!verif_adapt::BtdmpByName<T::Btdmp>())
            s.object = std::make_shared<const T::Btdmp>(b);
        return s;
    }
    static void LoadBtdmp(T::Btdmp& b, const BtdmpSnap& s) {
        if (s.object) {
            b = *s.object;
            return;
        }
        verif_adapt::BtdmpView v;
        v.clock_config = s.clock_config, v.period = s.period, v.timer = s.timer, v.enable = s.enable, v.empty = s.empty, v.full = s.full;
        v.queue = s.queue;
        verif_adapt::WriteBtdmp(b, v);
    }
    CoreSnap SaveCore() {
        CoreSnap c;
        for (int i = 0; i < 3; ++i)
            c.ip[i] = interp->interrupt_pending[i].load();
        c.ipv = interp->vinterrupt_pending.load();
        c.vctx = interp->vinterrupt_context_switch.load();
        c.vaddr = interp->vinterrupt_address.load();
        c.idle = interp->idle;
        return c;
    }
    void LoadCore(const CoreSnap& c) {
        for (int i = 0; i < 3; ++i)
            interp->interrupt_pending[i] = c.ip[i];
        interp->vinterrupt_pending = c.ipv;
        interp->vinterrupt_context_switch = c.vctx;
        interp->vinterrupt_address = c.vaddr;
        interp->idle = c.idle;
    }

    Snap Save() {
        Snap s;
        s.regs = regs();
        s.core = SaveCore();
        s.miu = impl->miu;
        s.icu = SaveIcu();
        s.apbp[0] = SaveApbp(apbp(0));
        s.apbp[1] = SaveApbp(apbp(1));
        for (int i = 0; i < 2; ++i) {
            s.timer[i] = SaveTimer(impl->timer[i]);
            s.btdmp[i] = SaveBtdmp(impl->btdmp[i]);
        }
        s.window.resize(win_hi - win_lo);
        for (u32 a = win_lo; a < win_hi; ++a)
            s.window[a - win_lo] = DataWord(a);
        return s;
    }
    void Load(const Snap& s) {
        regs() = s.regs;
        impl->miu = s.miu;
        LoadApbp(apbp(0), s.apbp[0]); // mailboxes first, then the interrupt controller, then the core's latches: a restore through the
        LoadApbp(apbp(1), s.apbp[1]); // public interface may signal downstream, the later restores overwrite that
        LoadIcu(s.icu);
        LoadCore(s.core);
        for (int i = 0; i < 2; ++i) {
            LoadTimer(impl->timer[i], s.timer[i]);
            LoadBtdmp(impl->btdmp[i], s.btdmp[i]);
        }
        for (u32 a = win_lo; a < win_hi && a - win_lo < s.window.size(); ++a)
            SetDataWord(a, s.window[a - win_lo]);
    }
};

// Canonical bytes of the register file: every named field in declaration order, then the hidden
// shadow slots made visible behaviourally (see DESIGN section 3, "Canonical state").
struct Bytes {
    std::vector<u8> b;
    template <typename X>
    void Put(const X& x) {
        const u8* p = reinterpret_cast<const u8*>(&x);
        b.insert(b.end(), p, p + sizeof(X));
    }
    u64 Hash() const {
        return Fnv(b.data(), b.size());
    }
};
inline void PutRegsVisible(Bytes& o, const T::RegisterState& r) {
    o.Put(r.pc), o.Put(r.prpage), o.Put(r.cpc), o.Put(r.repc), o.Put(r.repcs);
    o.Put((u8)r.rep), o.Put(r.crep), o.Put(r.bcn), o.Put(r.lp);
    for (auto& f : r.bkrep_stack)
        o.Put(f.start), o.Put(f.end), o.Put(f.lc);
    o.Put(r.a), o.Put(r.b), o.Put(r.a1s), o.Put(r.b1s), o.Put(r.ccnta), o.Put(r.sat), o.Put(r.sata);
    o.Put(r.s), o.Put(r.sv), o.Put(r.fz), o.Put(r.fm), o.Put(r.fn), o.Put(r.fv), o.Put(r.fe);
    o.Put(r.fc0), o.Put(r.fc1), o.Put(r.flm), o.Put(r.fvl), o.Put(r.fr), o.Put(r.vtr0), o.Put(r.vtr1);
    o.Put(r.x), o.Put(r.y), o.Put(r.hwm), o.Put(r.p), o.Put(r.pe), o.Put(r.ps), o.Put(r.p0h_cbs);
    o.Put(r.r), o.Put(r.mixp), o.Put(r.sp), o.Put(r.page), o.Put(r.pcmhi);
    o.Put(r.r0b), o.Put(r.r1b), o.Put(r.r4b), o.Put(r.r7b);
    o.Put(r.stepi), o.Put(r.stepj), o.Put(r.modi), o.Put(r.modj), o.Put(r.stepi0), o.Put(r.stepj0);
    o.Put(r.stepib), o.Put(r.stepjb), o.Put(r.modib), o.Put(r.modjb), o.Put(r.stepi0b), o.Put(r.stepj0b);
    o.Put(r.m), o.Put(r.br), o.Put(r.stp16), o.Put(r.cmd), o.Put(r.epi), o.Put(r.epj);
    o.Put(r.arstep), o.Put(r.arpstepi), o.Put(r.arpstepj), o.Put(r.aroffset), o.Put(r.arpoffseti);
    o.Put(r.arpoffsetj), o.Put(r.arrn), o.Put(r.arprni), o.Put(r.arprnj);
    o.Put(r.ip), o.Put(r.ipv), o.Put(r.im), o.Put(r.imv), o.Put(r.ic), o.Put(r.nimc), o.Put(r.ie);
    o.Put(r.ou), o.Put(r.iu), o.Put(r.ext), o.Put(r.mod0_unk_const);
}
inline void PutRegs(Bytes& o, const T::RegisterState& r) {
    PutRegsVisible(o, r);
    T::RegisterState c = r;
    c.ShadowSwap(); // brings the swap-shadows (incl. ar/arp banks) into the visible fields
    PutRegsVisible(o, c);
    T::RegisterState d = r;
    d.ShadowRestore(); // brings the one-way flag shadows into the visible fields
    o.Put(d.flm), o.Put(d.fvl), o.Put(d.fe), o.Put(d.fc0), o.Put(d.fc1), o.Put(d.fv), o.Put(d.fn);
    o.Put(d.fm), o.Put(d.fz), o.Put(d.fr);
}
} // namespace sys
