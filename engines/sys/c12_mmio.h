// C12 — MMIO read-back / no-alias exploration over the real MMIORegion inside a Teakra, against the
// documented field table in spec/mmio_fields.h.
#pragma once
#include <algorithm>
#include "../../spec/mmio_fields.h"
#include "sys.h"

namespace c12 {
using namespace sys;

struct Table {
    std::vector<spec::Field> fields;
    std::vector<std::vector<int>> by_off; // index by offset/2
    Table() : fields(spec::MmioFields()), by_off(0x400) {
        for (size_t i = 0; i < fields.size(); ++i)
            by_off[fields[i].off / 2].push_back((int)i);
    }
};

using Image = std::vector<u16>; // read-back of every even offset (destructive-read ports skipped)

struct Access {
    Machine& m;
    int path;   // 0 host accessor, 1 DSP data access at the window base
    u16 mirror; // host: which of the 32 mirrors
    u16 Read(u16 a) {
        if (path == 0)
            return m.teakra->MMIORead((u16)(a + mirror * 0x800));
        return m.teakra->DataRead((u16)(m.impl->miu.mmio_base + a));
    }
    void Write(u16 a, u16 v) {
        if (path == 0)
            m.teakra->MMIOWrite((u16)(a + mirror * 0x800), v);
        else
            m.teakra->DataWrite((u16)(m.impl->miu.mmio_base + a), v);
    }
    Image ReadAll() {
        Image im(0x400, 0);
        for (u16 a = 0; a < 0x800; a += 2)
            if (!spec::DestructiveRead(a))
                im[a / 2] = Read(a);
        return im;
    }
};

inline void ApplyPrefix(Machine& m, int p) {
    auto& t = *m.teakra;
    t.Reset();
    switch (p) {
    case 0: break;
    case 1: // timer 0 running with mirror update
        t.MMIOWrite(0x24, 5), t.MMIOWrite(0x26, 0), t.MMIOWrite(0x20, (1 << 2) | (1 << 9) | (1 << 10));
        t.Run(3);
        break;
    case 2: // DMA channel 5 selected and programmed
        t.MMIOWrite(0x1BE, 5);
        for (u16 o = 0x1C0; o <= 0x1D8; o += 2)
            t.MMIOWrite(o, (u16)(0x5000 + o));
        break;
    case 3: // mailboxes full in both directions, semaphores set
        for (u8 c = 0; c < 3; ++c) {
            t.SendData(c, (u16)(0x1100 + c));
            t.MMIOWrite(0xC0 + c * 4, (u16)(0x2200 + c));
        }
        t.SetSemaphore(0x8001);
        t.MaskSemaphore(0x00F0); // the host masks some DSP->host semaphores: the mask gates the signal and the interrupt only, the bits still accumulate
        t.MMIOWrite(0xCC, 0x4002);
        break;
    case 4: // ICU routing set, requests pending
        t.MMIOWrite(0x206, 0x0011), t.MMIOWrite(0x208, 0x0022), t.MMIOWrite(0x20A, 0x0044), t.MMIOWrite(0x20C, 0x0088);
        t.MMIOWrite(0x204, 0x00F0);
        break;
    case 5: // audio port 0 with queued words
        for (u16 i = 0; i < 3; ++i)
            t.MMIOWrite(0x2C6, (u16)(0x100 + i));
        t.MMIOWrite(0x2BE, 0x8000);
        break;
    case 6: // AHBM / MIU configured
        t.MMIOWrite(0xE2, 0x0012), t.MMIOWrite(0xE4, 0x0100), t.MMIOWrite(0xE6, 0x0004);
        t.MMIOWrite(0x114, 0x1E20), t.MMIOWrite(0x11A, 0x0014);
        break;
    }
}
static const int kPrefixes = 7;

inline std::vector<u16> Values(const Table& tab, u16 a) {
    if (a == 0x1BE)
        return {0, 1, 2, 3, 4, 5, 6, 7}; // channel selector: documented width only (wider values belong to C18)
    std::vector<u16> v{0x0000, 0xFFFF, 0x5555, 0xAAAA};
    for (int b = 0; b < 16; ++b)
        v.push_back((u16)(1u << b));
    // every value of every documented multi-bit field of at most 6 bits (mode selectors and the like), once with
    // the other bits clear and once with the other bits set
    for (int fi : tab.by_off[a / 2]) {
        const spec::Field& f = tab.fields[fi];
        if (f.width < 2 || f.width > 6)
            continue;
        u16 mask = (u16)(((1u << f.width) - 1) << f.lo);
        for (u16 x = 0; x < (1u << f.width); ++x)
            for (u16 rest : {(u16)0, (u16)0xFFFF}) {
                u16 val = (u16)(((x << f.lo) & mask) | (rest & ~mask));
                if (std::find(v.begin(), v.end(), val) == v.end())
                    v.push_back(val);
            }
    }
    return v;
}

struct Checker {
    const Table& tab;
    Result& res;
    std::unordered_set<u64> digests;
    Checker(const Table& t, Result& r) : tab(t), res(r) {}

    // one write step with oracle; returns false if the configuration left the modelled space (assert)
    bool Step(Access& ac, u16 a, u16 v, const std::string& ctx, const std::string& replay) {
        Image r0, r1;
        try {
            r0 = ac.ReadAll();
            ac.Write(a, v);
            r1 = ac.ReadAll();
        } catch (const T::VerifAssertion&) {
            ++res.evaluations;
            return false;
        }
        ++res.evaluations;
        ++res.transitions;
        ++res.traces_validated;
        const char* pn = ac.path ? "dsp-path" : "host-path";
        u16 got = r1[a / 2], before = r0[a / 2];
        for (int fi : tab.by_off[a / 2]) {
            const spec::Field& f = tab.fields[fi];
            u16 mask = (u16)(((1u << f.width) - 1) << f.lo);
            if (f.width == 16)
                mask = 0xFFFF;
            u16 want;
            bool check = true;
            switch (f.cls) {
            case spec::RW: want = v & mask; break;
            case spec::TRIG: want = 0; break;
            case spec::W1S: want = (before | v) & mask; break;
            default: check = false; want = 0; break;
            }
            if (check && (got & mask) != want)
                res.AddViolation(Fmt("c12:readback:%s@%03X:%s", f.name, a, pn),
                                 Fmt("%s write %04X to +0x%03X (%s, bits %d..%d) reads back %04X, field expected %04X; %s", pn, v, a,
                                     f.name, f.lo, f.lo + f.width - 1, got, want, ctx.c_str()),
                                 replay);
        }
        // the counter mirror follows a restart / event write only while the MU bit of the timer's configuration is set (timer.md)
        auto coupled = [&](u16 b) {
            if (!spec::Coupled(a, b))
                return false;
            for (u16 t = 0; t < 2; ++t) {
                u16 base = (u16)(0x20 + t * 0x10);
                if ((a == base || a == base + 2) && (b == base + 8 || b == base + 10)) {
                    u16 cfg = a == base ? v : r0[base / 2];
                    return (cfg >> 9 & 1) != 0;
                }
            }
            return true;
        };
        for (u16 b = 0; b < 0x800; b += 2)
            if (b != a && r1[b / 2] != r0[b / 2] && !coupled(b))
                res.AddViolation(Fmt("c12:alias:%03X->%03X:%s", a, b, pn),
                                 Fmt("%s write %04X to +0x%03X changed +0x%03X from %04X to %04X (no documented coupling); %s", pn, v,
                                     a, b, r0[b / 2], r1[b / 2], ctx.c_str()),
                                 replay);
        if (r1 != r0)
            digests.insert(Fnv(r1.data(), r1.size() * 2, Mix(a * 65536 + v)));
        return true;
    }
};

// The sweep of one shard: offsets a with (a/2) % nshards == shard, all values, from prefix p, one path.
// `stop_at` (>=0) lets the replay stop after a given step.
inline void Sweep(const Table& tab, Result& res, std::unordered_set<u64>& dig, int path, int prefix, int shard, int nshards,
                  long stop_at = -1) {
    Machine m;
    ApplyPrefix(m, prefix);
    Checker ck(tab, res);
    Access ac{m, path, (u16)((prefix * 5 + shard) & 31)};
    long step = 0;
    for (u16 a = 0; a < 0x800; a += 2) {
        if ((a / 2) % nshards != shard)
            continue;
        if (path == 1 && (a == 0x112 || a == 0x11E))
            continue; // page / window relocation through the DSP path are exercised by the dedicated layer
        for (u16 v : Values(tab, a)) {
            std::string replay = Fmt("c12 sweep %d %d %d %d %ld", path, prefix, shard, nshards, step);
            bool ok = ck.Step(ac, a, v, Fmt("prefix %d, step %ld of shard %d/%d", prefix, step, shard, nshards), replay);
            if (!ok) { // deliberate assertion (e.g. timer restart with a watchdog mode): start over behind it
                ApplyPrefix(m, prefix);
            }
            if (stop_at >= 0 && step == stop_at) {
                dig.insert(ck.digests.begin(), ck.digests.end());
                return;
            }
            ++step;
        }
    }
    dig.insert(ck.digests.begin(), ck.digests.end());
}

// Dedicated layers (each from a fresh machine): pairs inside a block, DMA channel window, mirrors, relocation
inline void Dedicated(const Table& tab, Result& res, std::unordered_set<u64>& dig, int part, int nparts) {
    struct Block {
        u16 lo, hi;
    };
    const Block blocks[] = {{0x20, 0x2E}, {0x30, 0x3E}, {0xC0, 0xD8}, {0xE0, 0xF2}, {0x100, 0x122}, {0x184, 0x1DE}, {0x200, 0x21A}, {0x2A0, 0x2CA}};
    int job = 0;
    auto mine = [&]() { return (job++ % nparts) == part; };
    // (B) ordered pairs of registers of one block
    for (int path = 0; path < 2; ++path)
        for (const Block& b : blocks) {
            if (!mine())
                continue;
            Machine m;
            m.teakra->Reset();
            Checker ck(tab, res);
            Access ac{m, path, 3};
            for (u16 a1 = b.lo; a1 <= b.hi; a1 += 2)
                for (u16 a2 = b.lo; a2 <= b.hi; a2 += 2) {
                    if (a1 == a2 || (path == 1 && (a1 == 0x112 || a1 == 0x11E || a2 == 0x112 || a2 == 0x11E)))
                        continue;
                    for (u16 v1 : {(u16)0xFFFF, (u16)0x5555})
                        for (u16 v2 : {(u16)0xAAAA, (u16)0x0000}) {
                            u16 w1 = a1 == 0x1BE ? (v1 & 7) : v1, w2 = a2 == 0x1BE ? (v2 & 7) : v2;
                            std::string rp = Fmt("c12 pair %d %u %u %u %u", path, a1, w1, a2, w2);
                            bool ok = ck.Step(ac, a1, w1, "pair, first write", rp) && ck.Step(ac, a2, w2, Fmt("pair, after write %04X to +0x%03X", w1, a1), rp);
                            if (!ok) {
                                m.teakra->Reset();
                                continue;
                            }
                            // the first register still holds its RW fields unless coupled to the second
                            if (!spec::Coupled(a2, a1)) {
                                u16 got = 0;
                                try {
                                    got = spec::DestructiveRead(a1) ? 0 : ac.Read(a1);
                                } catch (const T::VerifAssertion&) {
                                    continue;
                                }
                                for (int fi : tab.by_off[a1 / 2]) {
                                    const spec::Field& f = tab.fields[fi];
                                    if (f.cls != spec::RW)
                                        continue;
                                    u16 mask = f.width == 16 ? 0xFFFF : (u16)(((1u << f.width) - 1) << f.lo);
                                    if ((got & mask) != (w1 & mask))
                                        res.AddViolation(Fmt("c12:pair-lost:%s@%03X<-%03X:%s", f.name, a1, a2, path ? "dsp-path" : "host-path"),
                                                         Fmt("after writing %04X to +0x%03X and then %04X to +0x%03X, %s reads %04X", w1, a1, w2, a2, f.name, got),
                                                         rp);
                                }
                            }
                        }
                }
            dig.insert(ck.digests.begin(), ck.digests.end());
        }
    // (C) DMA channel window: eight independent copies
    for (int path = 0; path < 2; ++path) {
        if (!mine())
            continue;
        Machine m;
        m.teakra->Reset();
        Access ac{m, path, 9};
        auto val = [](u16 ch, u16 o) { return (u16)((o == 0x1DA ? 0x04FF : 0xFFFF) & (0x1000 * (ch + 1) + o * 7 + ch)); };
        const int order1[] = {3, 7, 0, 5, 1, 6, 2, 4}, order2[] = {6, 2, 7, 4, 0, 3, 5, 1};
        try {
            for (int ch : order1) {
                ac.Write(0x1BE, (u16)ch);
                for (u16 o = 0x1C0; o <= 0x1DA; o += 2)
                    ac.Write(o, val((u16)ch, o));
            }
            for (int ch : order2) {
                ac.Write(0x1BE, (u16)ch);
                ++res.evaluations;
                if (ac.Read(0x1BE) != ch)
                    res.AddViolation(Fmt("c12:dma-window:select-readback:ch%d:%s", ch, path ? "dsp-path" : "host-path"), Fmt("channel select %d reads back %u", ch, ac.Read(0x1BE)), Fmt("c12 dmawin %d", path));
                for (u16 o = 0x1C0; o <= 0x1DA; o += 2) {
                    u16 got = ac.Read(o), want = val((u16)ch, o);
                    u16 mask = o == 0x1DA ? 0x04FF : 0xFFFF;
                    ++res.transitions;
                    ++res.traces_validated;
                    if ((got & mask) != want)
                        res.AddViolation(Fmt("c12:dma-window:ch%d@%03X:%s", ch, o, path ? "dsp-path" : "host-path"),
                                         Fmt("DMA channel %d register +0x%03X reads %04X, written %04X (channels must hold independent copies)", ch, o, got, want),
                                         Fmt("c12 dmawin %d", path));
                }
                // the host's channel-0 query helpers look at channel 0 through the same window: they must return channel 0's words
                // and leave the window where the program put it
                u16 h_src = m.teakra->DMAChan0GetSrcHigh(), h_dst = m.teakra->DMAChan0GetDstHigh();
                ++res.evaluations;
                if (h_src != val(0, 0x1C2) || h_dst != val(0, 0x1C6))
                    res.AddViolation(Fmt("c12:dma-window:host-query-value:ch%d:%s", ch, path ? "dsp-path" : "host-path"),
                                     Fmt("DMAChan0GetSrcHigh/DstHigh return %04X/%04X, channel 0 holds %04X/%04X", h_src, h_dst, val(0, 0x1C2), val(0, 0x1C6)), Fmt("c12 dmawin %d", path));
                if (ac.Read(0x1BE) != ch || ac.Read(0x1C0) != val((u16)ch, 0x1C0) || ac.Read(0x1C6) != val((u16)ch, 0x1C6))
                    res.AddViolation(Fmt("c12:dma-window:host-query-moves-window:ch%d:%s", ch, path ? "dsp-path" : "host-path"),
                                     Fmt("after DMAChan0GetSrcHigh/DstHigh with channel %d selected: select reads %u, +0x1C0 reads %04X (channel's value %04X)", ch, ac.Read(0x1BE), ac.Read(0x1C0), val((u16)ch, 0x1C0)), Fmt("c12 dmawin %d", path));
            }
        } catch (const T::VerifAssertion& a) {
            res.AddViolation("c12:dma-window:assert", a.expression, Fmt("c12 dmawin %d", path));
        }
    }
    // (C2) a DMA start that goes through an AHBM channel: whatever that channel's configuration holds (all four burst codes, the unit
    // sizes, both directions), the start changes no register except through the documented coupling (completion -> ICU pending)
    for (int path = 0; path < 2; ++path) {
        if (!mine())
            continue;
        for (u16 n = 0; n < 3; ++n)
            for (u16 burst = 0; burst < 4; ++burst)
                for (u16 unit = 0; unit < 3; ++unit)
                    for (int src_ext = 0; src_ext < 2; ++src_ext) {
                        Machine m;
                        m.teakra->Reset();
                        {
                            T::AHBMCallback cb;
                            cb.read8 = [](u32 a) { return (u8)a; };
                            cb.read16 = [](u32 a) { return (u16)a; };
                            cb.read32 = [](u32 a) { return a; };
                            cb.write8 = [](u32, u8) {};
                            cb.write16 = [](u32, u16) {};
                            cb.write32 = [](u32, u32) {};
                            m.teakra->SetAHBMCallback(cb);
                        }
                        Checker ck(tab, res);
                        Access ac{m, path, 5};
                        const u16 ch = (u16)(2 + n), ub = unit == 2 ? 4 : unit == 1 ? 2 : 1;
                        std::string rp = Fmt("c12 ahbmdma %d %u %u %u %d", path, n, burst, unit, src_ext);
                        try {
                            ac.Write((u16)(0xE2 + 6 * n), (u16)((burst << 1) | (unit << 4)));
                            ac.Write((u16)(0xE4 + 6 * n), (u16)(src_ext ? 0 : 0x0100));
                            ac.Write((u16)(0xE6 + 6 * n), (u16)(1u << ch));
                            ac.Write(0x1BE, ch);
                            ac.Write(0x1C0, (u16)(src_ext ? 0x0100 : 0x0200)), ac.Write(0x1C2, (u16)(src_ext ? 0x2000 : 0));
                            ac.Write(0x1C4, (u16)(src_ext ? 0x0300 : 0x0100)), ac.Write(0x1C6, (u16)(src_ext ? 0 : 0x2000));
                            ac.Write(0x1C8, 8), ac.Write(0x1CA, 1), ac.Write(0x1CC, 1);
                            ac.Write(0x1CE, (u16)(src_ext ? ub : (unit == 2 ? 2 : 1))), ac.Write(0x1D0, (u16)(src_ext ? (unit == 2 ? 2 : 1) : ub));
                            ac.Write(0x1DA, (u16)((src_ext ? 0x0007 : 0x0070) | (unit == 2 ? 0x0400 : 0)));
                        } catch (const T::VerifAssertion&) {
                            continue;
                        }
                        ck.Step(ac, 0x1DE, 0x40C0, Fmt("DMA channel %u through AHBM channel %u (burst code %u, unit code %u, %s external)", ch, n, burst, unit, src_ext ? "source" : "destination"), rp);
                        dig.insert(ck.digests.begin(), ck.digests.end());
                    }
    }
    // (D) the host accessor reaches the same register at each of the 32 mirrors
    if (mine()) {
        Machine m;
        m.teakra->Reset();
        const u16 regs[] = {0x24, 0x36, 0xCE, 0xE6, 0x10E, 0x1C8, 0x206, 0x214, 0x2A2, 0x02, 0x7FE};
        for (u16 k = 0; k < 32; ++k)
            for (u16 a : regs) {
                u16 v = (u16)(0x1234 + 97 * k + a);
                if (a == 0xE6)
                    v &= 0xFF;
                m.teakra->MMIOWrite((u16)(a + k * 0x800), v);
                u16 got = m.teakra->MMIORead((u16)(a + ((k + 7) & 31) * 0x800));
                u16 got2 = m.teakra->DataRead((u16)(0x8000 + a));
                ++res.evaluations, ++res.transitions, ++res.traces_validated;
                if (got != v || got2 != v)
                    res.AddViolation(Fmt("c12:mirror:@%03X", a), Fmt("write %04X at mirror %u of +0x%03X reads %04X at mirror %u and %04X through the DSP window", v, k, a, got, (k + 7) & 31, got2),
                                     "c12 mirror");
            }
    }
    // (E) window relocation: the DSP path addresses registers relative to the configured base
    for (u16 base : {(u16)0x8000, (u16)0x8200, (u16)0x8400, (u16)0x0600, (u16)0xF800, (u16)0x4000, (u16)0xFC00}) {
        if (!mine())
            continue;
        Machine m;
        m.teakra->Reset();
        m.teakra->DataWrite(0x8000 + 0x11E, base); // relocate through the DSP path itself
        ++res.evaluations;
        if (m.teakra->MMIORead(0x11E) != base) {
            res.AddViolation("c12:relocate:base-readback", Fmt("MMIO base written %04X reads back %04X", base, m.teakra->MMIORead(0x11E)), std::string("c12 reloc"));
            continue;
        }
        const u16 regs[] = {0x24, 0x26, 0x34, 0xCE, 0xE6, 0x10E, 0x1C8, 0x1CA, 0x206, 0x208, 0x214, 0x2A2, 0x100, 0x7FE};
        for (u16 a : regs) {
            u32 addr = (u32)base + a;
            if (addr > 0xFFFF)
                continue;
            u16 v = (u16)(0x4321 + a * 3);
            if (a == 0xE6)
                v &= 0xFF;
            m.teakra->DataWrite((u16)addr, v);
            ++res.transitions, ++res.traces_validated;
            u16 h = m.teakra->MMIORead(a), d = m.teakra->DataRead((u16)addr);
            if (h != v || d != v)
                res.AddViolation(Fmt("c12:relocate:@%03X:base%s", a, (base & 0x7FF) ? "-unaligned" : "-aligned"),
                                 Fmt("window at %04X: DSP write %04X to %04X reads %04X through the host accessor (+0x%03X) and %04X through the DSP path", base, v, addr, h, a, d),
                                 std::string("c12 reloc"));
        }
        for (u16 a : regs) { // and the other way round
            u32 addr = (u32)base + a;
            if (addr > 0xFFFF)
                continue;
            u16 v = (u16)(0x0F0F + a * 5);
            if (a == 0xE6)
                v &= 0xFF;
            m.teakra->MMIOWrite(a, v);
            u16 d = m.teakra->DataRead((u16)addr);
            ++res.transitions, ++res.traces_validated;
            if (d != v)
                res.AddViolation(Fmt("c12:relocate-host:@%03X:base%s", a, (base & 0x7FF) ? "-unaligned" : "-aligned"),
                                 Fmt("window at %04X: host write %04X to +0x%03X reads %04X through the DSP path at %04X", base, v, a, d, addr), std::string("c12 reloc"));
        }
    }
}

inline int RunReplay(const std::string& r, Result& res) {
    QuietStdout quiet;
    Table tab;
    std::unordered_set<u64> dig;
    int path, prefix, shard, nshards;
    long step;
    if (std::sscanf(r.c_str(), "c12 sweep %d %d %d %d %ld", &path, &prefix, &shard, &nshards, &step) == 5) {
        Result all;
        Sweep(tab, all, dig, path, prefix, shard, nshards, step);
        // only the violations of the last step count
        for (auto& v : all.violations)
            if (v.replay == r)
                res.AddViolation(v.key, v.text, v.replay);
    } else {
        Dedicated(tab, res, dig, 0, 1);
        std::vector<Violation> keep;
        for (auto& v : res.violations)
            if (v.replay == r)
                keep.push_back(v);
        res.violations = keep;
    }
    for (auto& x : res.violations)
        quiet.Say(Fmt("  %s\n    %s\n", x.key.c_str(), x.text.c_str()));
    return res.violations.empty() ? 0 : 1;
}

inline void Run(const Args& args, Result& res) {
    res.property = "C12";
    Table tab;
    int nshards = 4;
    struct Job {
        int kind, path, prefix, shard;
    };
    std::vector<Job> jobs;
    for (int path = 0; path < 2; ++path)
        for (int p = 0; p < kPrefixes; ++p)
            for (int s = 0; s < nshards; ++s)
                jobs.push_back({0, path, p, s});
    int dparts = 8;
    for (int d = 0; d < dparts; ++d)
        jobs.push_back({1, 0, 0, d});
    RunPool(args.jobs,
            [&](int idx, int cnt, WorkerBlock& blk, Result& local) {
                QuietStdout quiet;
                std::unordered_set<u64> dig;
                for (size_t j = idx; j < jobs.size(); j += cnt) {
                    const Job& jb = jobs[j];
                    if (jb.kind == 0)
                        Sweep(tab, local, dig, jb.path, jb.prefix, jb.shard, nshards);
                    else
                        Dedicated(tab, local, dig, jb.shard, dparts);
                }
                blk.evaluations = local.evaluations;
                blk.transitions = local.transitions;
                blk.traces = local.traces_validated;
                blk.states = local.transitions;
                blk.distinct = dig.size();
            },
            res);
    res.rule = "every even MMIO offset x value in {0,FFFF,5555,AAAA, each single bit} is written through the host accessor and "
               "through the DSP data path, from the reset state and six busy prefixes, as one long history per shard; before and "
               "after each write all 1024 registers are read (non-destructive ports only): documented RW fields must read back the "
               "written bits, trigger bits 0, set-views old|v, and every other register that "
               "changed must be in the documented coupling table; plus ordered register pairs inside each peripheral block, the "
               "eight DMA channel windows, the 32 host mirrors and seven window relocations; distinct = distinct register images";
    res.bound = Fmt("%d prefixes x 2 paths x 1024 offsets x (20 values + every value of every documented 2..6-bit field against clear and set neighbours) (sweep, history depth up to 5120 writes per shard); all ordered "
                    "pairs of registers within 8 blocks x 4 value pairs x 2 paths; 8 channels x 14 window registers; 32 mirrors; 7 bases",
                    kPrefixes);
    res.assumptions = {"field classes and couplings come from the *.md register layouts (spec/mmio_fields.h)",
                       "DMA channel selector restricted to its documented 3 bits; ZPAGE/MMIOBASE writes through the DSP path only in the "
                       "dedicated relocation layer",
                       "a write that ends in a deliberate assertion (watchdog timer modes with restart) is counted, not compared"};
    res.AddSample("host-path write 0x5555 to +0x020 (TIMER0_CFG): TS,CM,TP,PC,MU,BP,CS,GP,TM read back, RES reads 0, only +0x028/+0x02A may change");
    res.AddSample("dsp-path: select DMA channel 3, write SIZE1; select channel 7: SIZE1 reads channel 7's own copy");
    res.AddSample("relocate window to 0x8400 via DSP write to 0x811E; DSP write to 0x8424 must reach TIMER0_START_L");
}
} // namespace c12
