// C11 — every program word, every data word, every view; MMIO window placement for every base.
#pragma once
#include "sys.h"

namespace c11 {
using namespace sys;

inline u16 Val(u32 p, u32 salt) {
    u16 v = (u16)Mix(p * 0x9E3779B1u + salt);
    return v == 0 ? 0x5AA5 : v; // never 0, so "nothing written" is distinguishable
}

struct Ctx {
    std::vector<u8> user_mem;
    std::unique_ptr<Machine> m;
    bool user;
    static thread_local u64 data_writes; // writes into the data region seen by the memory observer
    static void Hook(u32 wa, bool is_write, u16) {
        if (is_write && wa >= 0x20000)
            ++data_writes;
    }
    explicit Ctx(bool user_supplied) : user(user_supplied) {
        if (user) {
            user_mem.assign(0x80000, 0);
            m = std::make_unique<Machine>(user_mem.data());
        } else {
            m = std::make_unique<Machine>();
        }
        raw0 = m->teakra->GetDspMemory(); // a host keeps this pointer for the life of the object, across Reset
        m->teakra->Reset();
    }
    u8* raw0 = nullptr;
    u8* Raw() {
        return raw0;
    }
    u16 RawWord(u32 p) {
        return Raw()[2 * p] | (Raw()[2 * p + 1] << 8);
    }
    void SetRawWord(u32 p, u16 v) {
        Raw()[2 * p] = (u8)v;
        Raw()[2 * p + 1] = (u8)(v >> 8);
    }
    // run one instruction placed at program word 0 (with operand word 1) from a clean register file
    bool Exec(u16 op, u16 exp, const std::function<void(T::RegisterState&)>& setup) {
        auto& r = m->regs();
        r = T::RegisterState();
        setup(r);
        r.pc = 0;
        SetRawWord(0, op), SetRawWord(1, exp);
        try {
            m->teakra->Run(1);
        } catch (const T::VerifAssertion&) {
            return false;
        } catch (const T::UnimplementedException&) {
            return false;
        }
        return true;
    }
};
thread_local u64 Ctx::data_writes = 0;

struct Check {
    Result& res;
    Ctx& c;
    std::unordered_set<u64> dig;
    const char* Mem() const {
        return c.user ? "user-memory" : "own-memory";
    }
    void Fail(const std::string& view, u32 p, const std::string& text, const std::string& cls) {
        res.AddViolation(Fmt("c11:%s:%s:%s", view.c_str(), cls.c_str(), Mem()), Fmt("%s (%s) at word 0x%05X: %s", view.c_str(), Mem(), p, text.c_str()),
                         Fmt("c11 %d word %u", c.user ? 1 : 0, p));
    }
    static const char* Region(u32 p) {
        return p < 0x20000 ? "program-low" : p < 0x30000 ? "bank0" : "bank1";
    }

    // all views of one word p of the 0x40000-word shared memory
    void Word(u32 p) {
        auto& t = *c.m->teakra;
        const char* rg = Region(p);
        ++res.evaluations;
        // --- host program accessor vs raw bytes (little endian) ---
        u16 v1 = Val(p, 1);
        t.ProgramWrite(p, v1);
        if (c.Raw()[2 * p] != (v1 & 0xFF) || c.Raw()[2 * p + 1] != (v1 >> 8))
            Fail("ProgramWrite->raw bytes", p, Fmt("wrote %04X, bytes are %02X %02X", v1, c.Raw()[2 * p], c.Raw()[2 * p + 1]), rg);
        if (t.ProgramRead(p) != v1)
            Fail("ProgramWrite->ProgramRead", p, Fmt("wrote %04X, read %04X", v1, t.ProgramRead(p)), rg);
        u16 v2 = Val(p, 2);
        c.SetRawWord(p, v2);
        if (t.ProgramRead(p) != v2)
            Fail("raw bytes->ProgramRead", p, Fmt("stored %04X, read %04X", v2, t.ProgramRead(p)), rg);
        res.transitions += 3;
        // --- instruction fetch: the cell as the operand word of `mov ##imm16, r0` placed just before it ---
        if (p >= 3 && p < 0x3FFFF) {
            u16 save = c.RawWord(p - 1);
            c.SetRawWord(p - 1, 0x5E00);
            auto& r = c.m->regs();
            r = T::RegisterState();
            r.pc = p - 1;
            bool ok = true;
            try {
                t.Run(1);
            } catch (const T::VerifAssertion&) {
                ok = false;
            }
            if (!ok || r.r[0] != v2 || r.pc != p + 1)
                Fail("instruction fetch", p, Fmt("operand fetched as %04X (cell holds %04X), pc=%05X", r.r[0], v2, r.pc), rg);
            c.SetRawWord(p - 1, save);
            ++res.transitions;
        }
        // --- movp (program read by the guest): full 18-bit address in a0, and a0l + pcmhi ---
        if (p >= 3) {
            bool ok = c.Exec(0x0D40, 0, [&](T::RegisterState& r) { r.a[0] = p; });
            if (!ok || c.m->regs().r[0] != v2)
                Fail("movp a0,r0", p, Fmt("read %04X, cell holds %04X", c.m->regs().r[0], v2), rg);
            ok = c.Exec(0x0040, 0, [&](T::RegisterState& r) { r.a[0] = p & 0xFFFF; r.pcmhi = (u16)(p >> 16); });
            if (!ok || c.m->regs().r[0] != v2)
                Fail("movp a0l,r0 with pcmhi", p, Fmt("read %04X, cell holds %04X", c.m->regs().r[0], v2), rg);
            // movd: data word (bank 0, 0x0700) -> program word p
            u16 v3 = Val(p, 3);
            c.SetRawWord(0x20700, v3);
            ok = c.Exec(0x5F80, 0, [&](T::RegisterState& r) { r.r[0] = 0x0700; r.r[4] = (u16)p; r.pcmhi = (u16)(p >> 16); });
            if (p != 0x20700 && (!ok || t.ProgramRead(p) != v3))
                Fail("movd [r0],[r4] with pcmhi", p, Fmt("program word reads %04X after storing %04X", t.ProgramRead(p), v3), rg);
            res.transitions += 3;
        }
        dig.insert(Mix(p) ^ t.ProgramRead(p));
        if (p < 0x20000)
            return;
        // ================= data views of the same cell =================
        u32 d = p - 0x20000;
        u16 a = (u16)d, z = (u16)(d >> 16);
        u16 w1 = Val(p, 4);
        t.DataWriteA32(d, w1);
        if (c.RawWord(p) != w1 || t.ProgramRead(p) != w1 || t.DataReadA32(d) != w1)
            Fail("DataWriteA32", p, Fmt("wrote %04X: raw %04X ProgramRead %04X DataReadA32 %04X", w1, c.RawWord(p), t.ProgramRead(p), t.DataReadA32(d)), rg);
        // ... and with the other data bank selected: the flat address names its cell whatever bank the 16-bit accesses currently use
        {
            c.m->impl->miu.z_page = (u16)(z ^ 1);
            const u16 w1b = (u16)(w1 ^ 0x0F0F);
            t.DataWriteA32(d, w1b);
            const u16 back = t.DataReadA32(d);
            if (c.RawWord(p) != w1b || t.ProgramRead(p) != w1b || back != w1b)
                Fail("DataWriteA32:other-bank-selected", p, Fmt("bank select %u, wrote %04X: raw %04X ProgramRead %04X DataReadA32 %04X", z ^ 1, w1b, c.RawWord(p), t.ProgramRead(p), back), rg);
            t.DataWriteA32(d, w1);
            ++res.transitions;
        }
        c.m->impl->miu.z_page = z;
        u16 w2 = Val(p, 5);
        t.DataWrite(a, w2, true);
        if (c.RawWord(p) != w2 || t.DataRead(a, true) != w2 || t.DataReadA32(d) != w2)
            Fail("DataWrite(bypass)", p, Fmt("z_page=%u wrote %04X: raw %04X DataRead %04X DataReadA32 %04X", z, w2, c.RawWord(p), t.DataRead(a, true), t.DataReadA32(d)), rg);
        res.transitions += 2;
        bool in_mmio = c.m->impl->miu.InMMIO(a);
        if (!in_mmio) {
            u16 w3 = Val(p, 6);
            t.DataWrite(a, w3, false);
            if (c.RawWord(p) != w3 || t.DataRead(a, false) != w3)
                Fail("DataWrite", p, Fmt("z_page=%u wrote %04X: raw %04X DataRead %04X", z, w3, c.RawWord(p), t.DataRead(a, false)), rg);
            ++res.transitions;
            // ---- guest stores, one per addressing form ----
            struct Form {
                const char* name;
                u16 op, exp;
                std::function<void(T::RegisterState&, u16 val)> setup;
            };
            const u16 r7v = 0x1111;
            std::vector<Form> stores = {
                {"store [page:imm8]", (u16)(0x2000 | (a & 0xFF)), 0, [&](T::RegisterState& r, u16 v) { r.page = a >> 8; r.r[0] = v; }},
                {"store [imm16]", 0xD4BC, a, [&](T::RegisterState& r, u16 v) { r.a[0] = v; }},
                {"store [r7+imm16]", 0xD49C, (u16)(a - r7v), [&](T::RegisterState& r, u16 v) { r.a[0] = v; r.r[7] = r7v; }},
                {"store [r7+imm7s]", (u16)(0xDC80 | 5), 0, [&](T::RegisterState& r, u16 v) { r.a[0] = v; r.r[7] = (u16)(a - 5); }},
                {"store [r7-imm7s]", (u16)(0xDC80 | 0x7D), 0, [&](T::RegisterState& r, u16 v) { r.a[0] = v; r.r[7] = (u16)(a + 3); }},
                {"store [r1]", 0x1801, 0, [&](T::RegisterState& r, u16 v) { r.r[0] = v; r.r[1] = a; }},
                {"push r0", 0x5E40, 0, [&](T::RegisterState& r, u16 v) { r.r[0] = v; r.sp = (u16)(a + 1); }},
            };
            u32 salt = 10;
            for (auto& f : stores) {
                u16 v = Val(p, salt++);
                bool ok = c.Exec(f.op, f.exp, [&](T::RegisterState& r) { f.setup(r, v); });
                c.m->impl->miu.z_page = z; // Exec does not touch the MIU; keep explicit
                ++res.transitions;
                if (!ok || c.RawWord(p) != v)
                    Fail(f.name, p, Fmt("z_page=%u stored %04X, cell holds %04X%s", z, v, c.RawWord(p), ok ? "" : " (aborted)"), rg);
            }
            // ---- guest loads ----
            struct LForm {
                const char* name;
                u16 op, exp;
                std::function<void(T::RegisterState&)> setup;
                std::function<u16(T::RegisterState&)> result;
            };
            std::vector<LForm> loads = {
                {"load [page:imm8]", (u16)(0x6000 | (a & 0xFF)), 0, [&](T::RegisterState& r) { r.page = a >> 8; }, [](T::RegisterState& r) { return r.r[0]; }},
                {"load [imm16]", 0xD4B8, a, [&](T::RegisterState&) {}, [](T::RegisterState& r) { return (u16)r.a[0]; }},
                {"load [r7+imm16]", 0xD498, (u16)(a - r7v), [&](T::RegisterState& r) { r.r[7] = r7v; }, [](T::RegisterState& r) { return (u16)r.a[0]; }},
                {"load [r7+imm7s]", (u16)(0xD880 | 5), 0, [&](T::RegisterState& r) { r.r[7] = (u16)(a - 5); }, [](T::RegisterState& r) { return (u16)r.a[0]; }},
                {"load [r1]", 0x1C01, 0, [&](T::RegisterState& r) { r.r[1] = a; }, [](T::RegisterState& r) { return r.r[0]; }},
                {"pop r0", 0x5E60, 0, [&](T::RegisterState& r) { r.sp = a; }, [](T::RegisterState& r) { return r.r[0]; }},
            };
            u16 cell = Val(p, 30);
            c.SetRawWord(p, cell);
            for (auto& f : loads) {
                bool ok = c.Exec(f.op, f.exp, f.setup);
                ++res.transitions;
                u16 got = f.result(c.m->regs());
                if (!ok || got != cell)
                    Fail(f.name, p, Fmt("z_page=%u loaded %04X, cell holds %04X%s", z, got, cell, ok ? "" : " (aborted)"), rg);
            }
        } else if (z == 0) {
            // inside the MMIO window (default base): the access reaches a register, never the memory underneath
            u16 off = (u16)(a - c.m->impl->miu.mmio_base);
            bool plain = (off & 1) || off == 0x0400 || off == 0x07FE || off == 0x0002 || off == 0x0024; // cells that simply hold a value
            u16 under = Val(p, 40);
            c.SetRawWord(p, under);
            if (plain) {
                u16 v = Val(p, 41);
                Ctx::data_writes = 0;
                T::verif_mem_hook = &Ctx::Hook;
                t.DataWrite(a, v, false);
                bool ok = c.Exec(0x1801, 0, [&](T::RegisterState& r) { r.r[0] = (u16)(v ^ 0x0101); r.r[1] = a; });
                T::verif_mem_hook = nullptr;
                ++res.transitions;
                u16 reg = t.MMIORead(off);
                if (!ok || reg != (u16)(v ^ 0x0101) || c.RawWord(p) != under || Ctx::data_writes != 0 || t.DataRead(a, false) != reg || t.DataRead(a, true) != under)
                    Fail("MMIO window access", p, Fmt("offset +0x%03X: register reads %04X (stored %04X), memory underneath %04X (was %04X), %llu memory writes, DataRead %04X, bypass read %04X",
                                                      off, reg, v ^ 0x0101, c.RawWord(p), under, (unsigned long long)Ctx::data_writes, t.DataRead(a, false), t.DataRead(a, true)), "mmio-window");
            }
        }
        c.m->impl->miu.z_page = 0;
    }

    // the MMIO window for one base value
    void Window(u16 base) {
        auto& t = *c.m->teakra;
        t.MMIOWrite(0x11E, base);
        const int offs[] = {-1, 0, 0x24, 0x400, 0x7FE, 0x7FF, 0x800};
        for (int off : offs) {
            int addr = (int)base + off;
            if (addr < 0 || addr > 0xFFFF)
                continue;
            ++res.evaluations;
            u16 a = (u16)addr;
            bool inside = off >= 0 && off < 0x800;
            u32 p = 0x20000 + a;
            u16 under = Val(base * 8 + (off & 0xFFF), 50), v = Val(base * 8 + (off & 0xFFF), 51);
            c.SetRawWord(p, under);
            u16 probe_before = t.MMIORead(0x24);
            Ctx::data_writes = 0;
            T::verif_mem_hook = &Ctx::Hook;
            bool ok = c.Exec(0x1801, 0, [&](T::RegisterState& r) { r.r[0] = v; r.r[1] = a; });
            T::verif_mem_hook = nullptr;
            ++res.transitions;
            std::string cls = Fmt("base-%s:%s", (base & 0x7FF) ? ((base & 0x1FF) ? "offgrid" : "unaligned") : "aligned", inside ? "inside" : "outside");
            std::string rp = Fmt("c11 %d window %u", c.user ? 1 : 0, base);
            if (!ok) {
                res.AddViolation("c11:window:abort:" + cls, Fmt("store to %04X with window at %04X aborted", a, base), rp);
                continue;
            }
            if (inside) {
                u16 reg = t.MMIORead((u16)off);
                u16 ld = 0;
                bool ok2 = c.Exec(0x1C01, 0, [&](T::RegisterState& r) { r.r[1] = a; });
                ld = c.m->regs().r[0];
                if (reg != v || c.RawWord(p) != under || Ctx::data_writes != 0 || !ok2 || ld != v || t.DataRead(a, true) != under)
                    res.AddViolation(Fmt("c11:window:%s:%s", cls.c_str(), Mem()),
                                     Fmt("window at %04X, store %04X to %04X (offset +0x%03X): register reads %04X, guest load %04X, memory underneath %04X (was %04X), %llu memory writes",
                                         base, v, a, off, reg, ld, c.RawWord(p), under, (unsigned long long)Ctx::data_writes), rp);
                // with bypass the same address reaches memory and leaves the register alone
                u16 w = Val(base * 8 + (off & 0xFFF), 52);
                t.DataWrite(a, w, true);
                if (c.RawWord(p) != w || t.MMIORead((u16)off) != v)
                    res.AddViolation(Fmt("c11:window-bypass:%s:%s", cls.c_str(), Mem()),
                                     Fmt("window at %04X, bypass write %04X to %04X: memory %04X, register %04X (was %04X)", base, w, a, c.RawWord(p), t.MMIORead((u16)off), v), rp);
            } else {
                if (c.RawWord(p) != v || t.MMIORead(0x24) != probe_before)
                    res.AddViolation(Fmt("c11:window:%s:%s", cls.c_str(), Mem()),
                                     Fmt("window at %04X, store %04X to %04X (just outside): memory holds %04X, TIMER0 start register %04X (was %04X)", base, v, a,
                                         c.RawWord(p), t.MMIORead(0x24), probe_before), rp);
            }
        }
        t.MMIOWrite(0x11E, 0x8000);
    }
};

inline std::vector<u16> Bases() {
    std::vector<u16> b;
    for (u32 k = 0; k < 128; ++k)
        b.push_back((u16)(k * 0x200));
    for (u16 x : {0x8001, 0xFC00, 0xFFFF, 0x0001, 0x87FF})
        b.push_back(x);
    return b;
}


// A store into program memory is seen by the very next fetch of that cell, also inside one Run call and under a repeat: the fetch
// view and the store view are the same bytes at every instant, not only between calls.
inline void SelfModifying(Result& res, Ctx& c, std::unordered_set<u64>& dig) {
    struct Case {
        const char* name;
        std::vector<u16> prog; // at 0x1000
        u16 r4;                // program address the movd writes to
        int cycles;
        u64 want_a0;
    };
    const std::vector<Case> cases = {
        {"movd overwrites the next instruction", {0x5FA8, 0x0000, 0x0000, 0x0000}, 0x1001, 2, 1},
        {"movd overwrites the instruction after next", {0x5FA8, 0x0000, 0x0000, 0x0000}, 0x1002, 3, 1},
        {"rep: movd overwrites itself, the remaining repetitions execute the new word", {0x0C02, 0x5FA8, 0x0000, 0x0000, 0x0000}, 0x1001, 4, 2},
        {"bkrep: movd overwrites the last instruction of its block", {0x5C01, 0x1003, 0x5FA8, 0x0000, 0x0000, 0x0000}, 0x1003, 5, 2},
    };
    for (size_t ci = 0; ci < cases.size(); ++ci)
        for (int split = 0; split < 2; ++split) {
            const Case& k = cases[ci];
            auto& t = *c.m->teakra;
            t.Reset();
            auto& r = c.m->regs();
            for (size_t i = 0; i < k.prog.size(); ++i)
                t.ProgramWrite(0x1000 + (u32)i, k.prog[i]);
            for (u16 a = 0; a < 4; ++a)
                t.DataWrite((u16)(0x0200 + a), 0x67D0); // inc a0
            r.pc = 0x1000, r.r[0] = 0x0200, r.r[4] = k.r4, r.pcmhi = 0, r.a[0] = 0;
            bool ok = true;
            try {
                if (split)
                    for (int i = 0; i < k.cycles; ++i)
                        t.Run(1);
                else
                    t.Run(k.cycles);
            } catch (...) {
                ok = false;
            }
            ++res.evaluations;
            res.transitions += k.cycles;
            dig.insert(Mix(ci * 2 + split) ^ r.a[0]);
            if (t.GetDspMemory() != c.raw0 || (c.raw0[2 * k.r4] | (c.raw0[2 * k.r4 + 1] << 8)) != t.ProgramRead(k.r4))
                res.AddViolation(Fmt("c11:raw-pointer-after-reset:%s", c.user ? "user-memory" : "own-memory"),
                                 Fmt("after %zu Reset calls the pointer obtained from GetDspMemory() at construction no longer shows the memory the other views use (GetDspMemory() now %s)",
                                     ci * 2 + split + 2, t.GetDspMemory() == c.raw0 ? "the same" : "different"),
                                 Fmt("c11 %d selfmod 0", c.user ? 1 : 0));
            u16 seen = t.ProgramRead(k.r4);
            if (!ok || r.a[0] != k.want_a0 || seen != 0x67D0)
                res.AddViolation(Fmt("c11:self-modifying:%s:%s", split ? "stepped" : "one-call", c.user ? "user-memory" : "own-memory"),
                                 Fmt("%s (%s): program word %04X reads %04X through the host accessor after the store, a0=%llX, expected the new instruction to have executed %llu time(s)",
                                     k.name, split ? "n x Run(1)" : "one Run call", k.r4, seen, (unsigned long long)r.a[0], (unsigned long long)k.want_a0),
                                 Fmt("c11 %d selfmod 0", c.user ? 1 : 0));
        }
}

inline int RunReplay(const std::string& r, Result& res) {
    QuietStdout quiet;
    int user;
    unsigned x;
    if (std::sscanf(r.c_str(), "c11 %d word %u", &user, &x) == 2) {
        Ctx c(user != 0);
        Check ck{res, c};
        ck.Word(x);
    } else if (std::sscanf(r.c_str(), "c11 %d selfmod %u", &user, &x) == 2) {
        Ctx c(user != 0);
        std::unordered_set<u64> dg;
        SelfModifying(res, c, dg);
    } else if (std::sscanf(r.c_str(), "c11 %d window %u", &user, &x) == 2) {
        Ctx c(user != 0);
        Check ck{res, c};
        ck.Window((u16)x);
    } else {
        return 2;
    }
    for (auto& v : res.violations)
        quiet.Say(Fmt("  %s\n    %s\n", v.key.c_str(), v.text.c_str()));
    return res.violations.empty() ? 0 : 1;
}

inline void Run(const Args& args, Result& res) {
    res.property = "C11";
    auto bases = Bases();
    RunPool(args.jobs,
            [&](int idx, int cnt, WorkerBlock& blk, Result& local) {
                QuietStdout quiet;
                u64 distinct = 0;
                for (int user = 0; user < 2; ++user) {
                    Ctx c(user != 0);
                    Check ck{local, c};
                    // descending so that the scratch words 0..2 and 0x20700 are visited last
                    for (u32 p = 0x40000 - 1 - idx; p < 0x40000; p -= cnt) {
                        ck.Word(p);
                        if (p < (u32)cnt)
                            break;
                    }
                    for (size_t i = idx; i < bases.size(); i += cnt)
                        ck.Window(bases[i]);
                    if (idx == 0)
                        SelfModifying(local, c, ck.dig);
                    distinct += ck.dig.size();
                }
                blk.evaluations = local.evaluations;
                blk.transitions = local.transitions;
                blk.traces = local.transitions;
                blk.states = local.evaluations;
                blk.distinct = distinct;
            },
            res);
    res.rule = "every one of the 2^18 words of the shared memory is written and read through every view: ProgramWrite/Read, raw bytes "
               "(little endian), instruction fetch (as operand word), movp (a0 / a0l+pcmhi), movd; for the 2^17 data words additionally "
               "DataWriteA32/ReadA32, DataWrite/Read with and without bypass for z_page = bank, 7 guest store forms and 6 guest load forms "
               "(each one real Run(1)); words under the MMIO window are checked for register-not-memory semantics with the memory observer; "
               "133 window bases x 7 boundary offsets; stores into program memory seen by the next fetch inside one Run call (next instruction, under rep, at the end of a block); "
               " everything for owned and user-supplied memory; distinct = distinct (word,value) pairs";
    res.bound = "all 262144 words x 2 memory ownership modes; all 128 bases k*0x200 plus 5 off-grid bases";
    res.assumptions = {"default paging mode (page_mode 0); data accesses with z_page=1 inside the window assert deliberately and are not compared",
                       "position-dependent pseudo-random 16-bit values (never 0) so that neighbouring cells always differ"};
    res.AddSample("word 0x2FFFF: ProgramWrite, raw bytes 0x5FFFE/0x5FFFF, DataWriteA32(0xFFFF), DataWrite(0xFFFF) z_page=0, push r0 with sp=0, mov a0l,[0xFFFF]");
    res.AddSample("window base 0x8400: store to 0x83FF -> memory; 0x8400 -> register +0x000; 0x8BFF -> register +0x7FF; 0x8C00 -> memory");
}
} // namespace c11
