// C17 — behaviour depends only on the call history; Reset equals a fresh machine.
//   (a) every history of the API alphabet is run on two instances built on heaps pre-filled with
//       different patterns (operator new is replaced in this binary): observations must be equal.
//   (b) h1 ; Reset ; h2 ; observe  ==  fresh ; Reset ; h2 ; observe, for every h1, h2 of the alphabet.
#pragma once
#include <map>
#include <set>
#include "../../spec/mmio_fields.h"
#include "sys.h"

namespace verif_heap {
extern thread_local int g_fill; // -1: no fill
}

namespace c17 {
using namespace sys;

struct Ext { // external memory behind the AHBM callbacks, with an access log
    std::map<u32, u8> bytes;
    std::vector<std::string>* log = nullptr;
    u8 Get(u32 a) {
        auto it = bytes.find(a);
        return it == bytes.end() ? (u8)(a * 3 + 1) : it->second;
    }
};

struct Inst {
    std::unique_ptr<Machine> m;
    Ext ext;
    explicit Inst(u8* user_memory = nullptr) {
        m = std::make_unique<Machine>(user_memory);
        ext.log = &m->log;
        T::AHBMCallback cb;
        cb.read8 = [this](u32 a) { ext.log->push_back(Fmt("r8:%X", a)); return ext.Get(a); };
        cb.write8 = [this](u32 a, u8 v) { ext.log->push_back(Fmt("w8:%X=%X", a, v)); ext.bytes[a] = v; };
        cb.read16 = [this](u32 a) { ext.log->push_back(Fmt("r16:%X", a)); return (u16)(ext.Get(a) | (ext.Get(a + 1) << 8)); };
        cb.write16 = [this](u32 a, u16 v) { ext.log->push_back(Fmt("w16:%X=%X", a, v)); ext.bytes[a] = (u8)v; ext.bytes[a + 1] = (u8)(v >> 8); };
        cb.read32 = [this](u32 a) {
            ext.log->push_back(Fmt("r32:%X", a));
            return (u32)(ext.Get(a) | (ext.Get(a + 1) << 8) | (ext.Get(a + 2) << 16) | ((u32)ext.Get(a + 3) << 24));
        };
        cb.write32 = [this](u32 a, u32 v) {
            ext.log->push_back(Fmt("w32:%X=%X", a, v));
            for (int i = 0; i < 4; ++i)
                ext.bytes[a + i] = (u8)(v >> (8 * i));
        };
        m->teakra->SetAHBMCallback(cb);
    }
};

struct Op {
    const char* name;
    std::function<void(Inst&)> run;
};

inline void LoadProg(T::Teakra& t, const std::vector<u16>& words) {
    for (size_t i = 0; i < words.size(); ++i)
        t.ProgramWrite((u32)i, words[i]);
}

inline std::vector<Op> Alphabet() {
    std::vector<Op> ops;
    auto add = [&](const char* n, std::function<void(Inst&)> f) { ops.push_back({n, std::move(f)}); };
    // --- core programs (hand-assembled) ---
    add("prog:inc-loop;Run(9)", [](Inst& i) { LoadProg(*i.m->teakra, {0x67D0, 0x77D0, 0x4180, 0x0000}); i.m->teakra->Run(9); });
    add("prog:status-words;Run(12)", [](Inst& i) {
        // mov #,mod0 ; mov #,mod1 ; mov #,mod2 ; mov #,ar0 ; mov #,arp1 ; mov #,cfgi ; mov #,st0 ; brr -1
        LoadProg(*i.m->teakra, {0x0034, 0x0CA3, 0x0035, 0x3042, 0x0036, 0x0F0F, 0x0008, 0x1234, 0x000B, 0x2345, 0x5E0E, 0x4567,
                                0x5E08, 0x0FF1, 0x57F0});
        i.m->teakra->Run(12);
    });
    add("prog:banks;Run(10)", [](Inst& i) {
        // mov #,r0 ; mov #,a0 ; mov #,b1 ; cntx s ; banke r0 r1 r4 cfgi r7 cfgj ; bankr ; mov #,sv ; brr -1
        LoadProg(*i.m->teakra, {0x5E00, 0x1111, 0x5E18, 0x7FFF, 0x5F20, 0x8001, 0xD380, 0x4BBF, 0x8CDF, 0x5E1F, 0x0005, 0x57F0});
        i.m->teakra->Run(10);
    });
    add("prog:stack+loop-state;Run(8)", [](Inst& i) {
        // mov #,sp ; push r0 ; rep 3 ; inc a0 ; bkrep 2,0x0009 ; nop ; nop ; ...
        LoadProg(*i.m->teakra, {0x5E0D, 0x0900, 0x5E40, 0x0C03, 0x67D0, 0x5C02, 0x0009, 0x0000, 0x0000, 0x0000, 0x0000, 0x57F0});
        i.m->teakra->Run(8);
    });
    add("prog:irq-idle;Run(30)", [](Inst& i) {
        // reset: br 0x20 ; int0 @6: add 1,a1 ; reti ; main @0x20: mov #,sp ; mov #0x0180,mod3 (ie, im0) ; brr -1
        std::vector<u16> p(0x30, 0);
        p[0] = 0x4180, p[1] = 0x0020, p[6] = 0xC701, p[7] = 0x45C0;
        p[0x20] = 0x5E0D, p[0x21] = 0x0A00, p[0x22] = 0x0037, p[0x23] = 0x0180, p[0x24] = 0x57F0;
        LoadProg(*i.m->teakra, p);
        i.m->teakra->Run(30);
    });
    add("Run(1)", [](Inst& i) { i.m->teakra->Run(1); });
    add("Run(40)", [](Inst& i) { i.m->teakra->Run(40); });
    // --- peripherals through MMIO ---
    add("timer0:auto,start=4,MU,RES", [](Inst& i) { auto& t = *i.m->teakra; t.MMIOWrite(0x24, 4); t.MMIOWrite(0x26, 0); t.MMIOWrite(0x20, (1 << 2) | (1 << 9) | (1 << 10)); });
    add("timer1:single,start=0x10003,pause", [](Inst& i) { auto& t = *i.m->teakra; t.MMIOWrite(0x34, 3); t.MMIOWrite(0x36, 1); t.MMIOWrite(0x30, (1 << 8) | (1 << 10)); });
    add("icu:route+trigger", [](Inst& i) { auto& t = *i.m->teakra; t.MMIOWrite(0x206, 0x0400); t.MMIOWrite(0x208, 0x0220); t.MMIOWrite(0x20C, 0x4000); t.MMIOWrite(0x204, 0x4620); });
    add("icu:vectors", [](Inst& i) { auto& t = *i.m->teakra; t.MMIOWrite(0x212 + 14 * 4, 0x8001); t.MMIOWrite(0x214 + 14 * 4, 0x2345); t.MMIOWrite(0x214, 0x0111); });
    add("icu:ack", [](Inst& i) { i.m->teakra->MMIOWrite(0x202, 0x0600); });
    add("apbp:disable-bits", [](Inst& i) { i.m->teakra->MMIOWrite(0x0D4, 0x3100); });
    add("apbp:dsp-reply+sem", [](Inst& i) { auto& t = *i.m->teakra; t.MMIOWrite(0x0C4, 0x0BEE); t.MMIOWrite(0x0CC, 0x0081); t.MMIOWrite(0x0CE, 0x8000); });
    add("ahbm:cfg burst4/u32", [](Inst& i) { auto& t = *i.m->teakra; t.MMIOWrite(0x0E2, (1 << 1) | (2 << 4)); t.MMIOWrite(0x0E6, 0x0001); });
    add("ahbm:cfg write/u16/burst8", [](Inst& i) { auto& t = *i.m->teakra; t.MMIOWrite(0x0E2, (2 << 1) | (1 << 4)); t.MMIOWrite(0x0E4, 0x0100); });
    add("miu:pages", [](Inst& i) { auto& t = *i.m->teakra; t.MMIOWrite(0x114, 0x1010); t.MMIOWrite(0x10E, 1); t.MMIOWrite(0x11A, 0x0040); });
    add("miu:mmio-base", [](Inst& i) { i.m->teakra->MMIOWrite(0x11E, 0x4000); });
    add("dma:program ch3", [](Inst& i) {
        auto& t = *i.m->teakra;
        t.MMIOWrite(0x1BE, 3);
        t.MMIOWrite(0x1C0, 0x0100), t.MMIOWrite(0x1C4, 0x0200), t.MMIOWrite(0x1C8, 4), t.MMIOWrite(0x1CA, 2), t.MMIOWrite(0x1CE, 1), t.MMIOWrite(0x1D0, 2);
        t.MMIOWrite(0x1D2, 3), t.MMIOWrite(0x1D4, 1), t.MMIOWrite(0x184, 0x0008);
    });
    add("dma:program ch7+ch0", [](Inst& i) {
        auto& t = *i.m->teakra;
        for (u16 ch : {(u16)7, (u16)0}) {
            t.MMIOWrite(0x1BE, ch);
            t.MMIOWrite(0x1C0, (u16)(0x0140 + ch)), t.MMIOWrite(0x1C4, (u16)(0x0240 + ch)), t.MMIOWrite(0x1C8, 3), t.MMIOWrite(0x1CA, 2), t.MMIOWrite(0x1CC, 2);
            t.MMIOWrite(0x1CE, 1), t.MMIOWrite(0x1D0, 1), t.MMIOWrite(0x1D6, 5), t.MMIOWrite(0x1D8, 7);
        }
        t.MMIOWrite(0x1BE, 7);
    });
    // every documented read/write register field of every peripheral written with a pattern (all 8 DMA channel windows, all 16 vectors,
    // all 3 AHBM channels, both audio ports): whatever a register holds, Reset has to bring it back
    for (u16 pattern : {(u16)0x5555, (u16)0xAAAA})
        add(pattern == 0x5555 ? "mmio:every RW field=0x5555" : "mmio:every RW field=0xAAAA", [pattern](Inst& i) {
            static const std::vector<spec::Field> fields = spec::MmioFields();
            std::map<u16, u16> mask;
            for (auto& f : fields)
                if (f.cls == spec::RW)
                    mask[f.off] |= (u16)(((1u << f.width) - 1) << f.lo);
            auto& t = *i.m->teakra;
            for (auto& [off, mk] : mask) {
                if (off == 0x11E || off == 0x20 || off == 0x30 || off == 0x1BE || (off >= 0x1C0 && off <= 0x1DA))
                    continue; // the MMIO window stays where it is; timer modes are set by the timer operations; DMA windows below
                t.MMIOWrite(off, (u16)(pattern & mk));
            }
            for (u16 ch = 0; ch < 8; ++ch) {
                t.MMIOWrite(0x1BE, ch);
                for (u16 off = 0x1C0; off <= 0x1DA; off += 2)
                    t.MMIOWrite(off, (u16)((pattern + ch * 0x0101) & mask[off] & (off >= 0x1C8 && off <= 0x1CC ? 0x0003 : 0xFFFF))); // transfer sizes stay small: a later start has to finish
            }
        });
    add("dma:start", [](Inst& i) { i.m->teakra->MMIOWrite(0x1DE, 0x40C0); });
    add("btdmp0:queue3+enable", [](Inst& i) { auto& t = *i.m->teakra; t.MMIOWrite(0x2C6, 0x11), t.MMIOWrite(0x2C6, 0x22), t.MMIOWrite(0x2C6, 0x33); t.MMIOWrite(0x2BE, 0x8000); t.MMIOWrite(0x2A2, 0x1004); });
    add("btdmp1:queue1+enable", [](Inst& i) { auto& t = *i.m->teakra; t.MMIOWrite(0x346, 0x44); t.MMIOWrite(0x33E, 0x8000); });
    // --- memory accessors ---
    add("DataWrite", [](Inst& i) { i.m->teakra->DataWrite(0x1234, 0xBEEF); i.m->teakra->DataWriteA32(0x1FFFE, 0x7777); });
    add("ProgramWrite", [](Inst& i) { i.m->teakra->ProgramWrite(0x2000, 0xCAFE); i.m->teakra->ProgramWrite(0x3FFFF, 0x0001); });
    // --- mailbox / semaphores (host side) ---
    add("SendData(0)", [](Inst& i) { i.m->teakra->SendData(0, 0x0ABC); });
    add("SendData(2)x2", [](Inst& i) { i.m->teakra->SendData(2, 1); i.m->teakra->SendData(2, 2); });
    add("RecvData(1)", [](Inst& i) { i.m->log.push_back(Fmt("recv1=%X", i.m->teakra->RecvData(1))); });
    add("SetSemaphore", [](Inst& i) { i.m->teakra->SetSemaphore(0x8001); });
    add("ClearSemaphore", [](Inst& i) { i.m->teakra->ClearSemaphore(0x0001); });
    add("MaskSemaphore", [](Inst& i) { i.m->teakra->MaskSemaphore(0x0080); });
    // --- AHBM host accessors (leave burst queues half consumed) ---
    add("AHBMRead32", [](Inst& i) { i.m->log.push_back(Fmt("ahbm=%X", i.m->teakra->AHBMRead32(0x20000010))); });
    add("AHBMRead16", [](Inst& i) { i.m->log.push_back(Fmt("ahbm=%X", i.m->teakra->AHBMRead16(0x20000102))); });
    add("AHBMWrite32", [](Inst& i) { i.m->teakra->AHBMWrite32(0x20000200, 0x11223344); });
    add("AHBMWrite16", [](Inst& i) { i.m->teakra->AHBMWrite16(0x20000300, 0x5566); });
    return ops;
}

enum { O_REGS, O_CORE, O_MIU, O_ICU, O_APBP, O_TIMER, O_BTDMP, O_DMA, O_AHBM, O_MEM, O_API, O_LOG, O_MMIO, O_COUNT };
static const char* kObsName[] = {"registers", "interrupt-latches", "miu", "icu", "apbp", "timers", "audio-port", "dma", "ahbm", "memory", "host-api", "callback-log", "mmio-register-words"};
using Obs = std::array<u64, O_COUNT>;

inline Obs Observe(Inst& in, bool with_mmio_words = false) {
    Machine& m = *in.m;
    Obs o{};
    Bytes b;
    PutRegs(b, m.regs());
    o[O_REGS] = b.Hash();
    CoreSnap c = m.SaveCore();
    Bytes bc;
    for (int i = 0; i < 3; ++i)
        bc.Put((u8)c.ip[i]);
    bc.Put((u8)c.ipv);
    if (c.ipv) // the vectored address/context latch is only meaningful while a request is latched
        bc.Put((u8)c.vctx), bc.Put(c.vaddr);
    o[O_CORE] = bc.Hash();
    Bytes bm;
    auto& miu = m.impl->miu;
    bm.Put(miu.x_page), bm.Put(miu.y_page), bm.Put(miu.z_page), bm.Put(miu.x_size), bm.Put(miu.y_size), bm.Put(miu.page_mode), bm.Put(miu.mmio_base);
    o[O_MIU] = bm.Hash();
    IcuSnap is = m.SaveIcu();
    Bytes bi;
    bi.Put(is.request), bi.Put(is.enabled), bi.Put(is.venabled), bi.Put(is.vlow), bi.Put(is.vhigh), bi.Put(is.vctx);
    o[O_ICU] = bi.Hash();
    Bytes ba;
    for (int d = 0; d < 2; ++d) {
        ApbpSnap a = Machine::SaveApbp(m.apbp(d));
        for (int i = 0; i < 3; ++i)
            ba.Put((u8)a.ready[i]), ba.Put(a.data[i]), ba.Put(a.disable[i]);
        ba.Put(a.semaphore), ba.Put(a.mask), ba.Put((u8)a.signal);
    }
    o[O_APBP] = ba.Hash();
    Bytes bt;
    for (int i = 0; i < 2; ++i) {
        TimerSnap s = Machine::SaveTimer(m.impl->timer[i]);
        bt.Put(s.update_mmio), bt.Put(s.pause), bt.Put(s.mode), bt.Put(s.scale), bt.Put(s.start_high), bt.Put(s.start_low), bt.Put(s.counter);
        bt.Put(s.counter_high), bt.Put(s.counter_low);
    }
    o[O_TIMER] = bt.Hash();
    Bytes bb;
    for (int i = 0; i < 2; ++i) {
        BtdmpSnap s = Machine::SaveBtdmp(m.impl->btdmp[i]);
        bb.Put(s.clock_config), bb.Put(s.period), bb.Put(s.timer), bb.Put(s.enable), bb.Put((u8)s.empty), bb.Put((u8)s.full);
        for (u16 v : s.queue)
            bb.Put(v);
        bb.Put((u16)0xFFFF);
    }
    o[O_BTDMP] = bb.Hash();
    Bytes bd;
    auto& dma = m.impl->dma;
    // every channel's register copies through the DMA's own accessors (the channel window is moved over all eight channels and put back)
    const u16 active = dma.GetActiveChannel();
    bd.Put(dma.GetChannelEnabled()), bd.Put(active);
    for (u16 ch = 0; ch < 8; ++ch) {
        dma.ActivateChannel(ch);
        bd.Put(dma.GetAddrSrcLow()), bd.Put(dma.GetAddrSrcHigh()), bd.Put(dma.GetAddrDstLow()), bd.Put(dma.GetAddrDstHigh()), bd.Put(dma.GetSize0()), bd.Put(dma.GetSize1());
        bd.Put(dma.GetSize2()), bd.Put(dma.GetSrcStep0()), bd.Put(dma.GetDstStep0()), bd.Put(dma.GetSrcStep1()), bd.Put(dma.GetDstStep1()), bd.Put(dma.GetSrcStep2());
        bd.Put(dma.GetDstStep2()), bd.Put(dma.GetSrcSpace()), bd.Put(dma.GetDstSpace()), bd.Put(dma.GetDwordMode()), bd.Put(dma.GetY()), bd.Put(dma.GetZ());
        // transfer-internal fields (current addresses, counters) are rewritten by the next start and are
        // not observable through any register: not compared
    }
    dma.ActivateChannel(active);
    o[O_DMA] = bd.Hash();
    Bytes bh;
    auto& ahbm = m.impl->ahbm;
    bh.Put(ahbm.busy_flag);
    for (auto& ch : ahbm.channels) {
        bh.Put((u16)ch.unit_size), bh.Put((u16)ch.burst_size), bh.Put((u16)ch.direction), bh.Put(ch.dma_channel);
        auto q = ch.burst_queue;
        while (!q.empty()) {
            bh.Put(q.front());
            q.pop();
        }
        bh.Put((u32)0xFFFFFFFF);
        if (!ch.burst_queue.empty())
            bh.Put(ch.write_burst_start);
    }
    o[O_AHBM] = bh.Hash();
    const u64* w = reinterpret_cast<const u64*>(m.impl->shared_memory.raw);
    u64 h = 0x9E3779B97F4A7C15ull;
    for (size_t i = 0; i < 0x80000 / 8; ++i)
        h = (h ^ w[i]) * 0x100000001B3ull + (h >> 29);
    o[O_MEM] = h;
    Bytes bp;
    auto& t = *m.teakra;
    for (u8 i = 0; i < 3; ++i)
        bp.Put((u8)t.SendDataIsEmpty(i)), bp.Put((u8)t.RecvDataIsReady(i)), bp.Put(t.PeekRecvData(i));
    bp.Put(t.GetSemaphore()), bp.Put(t.DMAChan0GetSrcHigh()), bp.Put(t.DMAChan0GetDstHigh());
    for (u16 i = 0; i < 3; ++i)
        bp.Put(t.AHBMGetUnitSize(i)), bp.Put(t.AHBMGetDirection(i)), bp.Put(t.AHBMGetDmaChannel(i));
    bp.Put(t.ProgramRead(0x2000));
    try { // with some memory-page configurations the translated host read ends in a deliberate assertion: that outcome is the observation then
        bp.Put(t.DataRead(0x1234, true));
    } catch (const T::VerifAssertion&) {
        bp.Put((u16)0xDEAD);
    }
    bp.Put(t.DataReadA32(0x1FFFE));
    o[O_API] = bp.Hash();
    u64 lh = 7;
    for (auto& s : m.log)
        lh = Fnv(s.data(), s.size(), lh) * 31 + 3;
    o[O_LOG] = lh ^ m.log.size();
    if (with_mmio_words) {
        // every register word as the host reads it, unimplemented bits included (data ports whose read consumes something are left out; this is
        // the last thing done to the instance).  Only compared between instances with the same history: Reset does not claim to clear the
        // backing words of unimplemented bits (DESIGN section 7).
        static const std::vector<spec::Field> fields = spec::MmioFields();
        std::set<u16> ports;
        for (auto& f : fields)
            if (f.cls == spec::FIFO)
                ports.insert(f.off);
        Bytes bw;
        for (u16 off = 0; off < 0x800; off += 2) {
            if (ports.count(off))
                continue;
            try {
                bw.Put(t.MMIORead(off));
            } catch (const T::VerifAssertion&) {
                bw.Put((u16)0xDEAD);
            } catch (const T::UnimplementedException&) {
                bw.Put((u16)0xDEAE);
            }
        }
        o[O_MMIO] = bw.Hash();
    }
    return o;
}

inline int FirstDiff(const Obs& a, const Obs& b) {
    for (int i = 0; i < O_COUNT; ++i)
        if (a[i] != b[i])
            return i;
    return -1;
}

// run ops; returns false on a deliberate assertion / unimplemented (history leaves the modelled space)
inline bool Apply(Inst& in, const std::vector<Op>& ops, const std::vector<int>& h) {
    try {
        for (int k : h)
            ops[k].run(in);
    } catch (const T::VerifAssertion&) {
        return false;
    } catch (const T::UnimplementedException&) {
        return false;
    }
    return true;
}
inline std::string HistStr(const std::vector<Op>& ops, const std::vector<int>& h) {
    std::string s;
    for (int k : h)
        s += std::string(s.empty() ? "" : " ; ") + ops[k].name;
    return s.empty() ? "(nothing)" : s;
}
inline std::string HistIds(const std::vector<int>& h) {
    std::string s;
    for (int k : h)
        s += Fmt("%s%d", s.empty() ? "" : ",", k);
    return s.empty() ? "-" : s;
}
inline std::vector<int> ParseIds(const std::string& s) {
    std::vector<int> h;
    if (s == "-")
        return h;
    const char* p = s.c_str();
    while (*p) {
        h.push_back((int)std::strtol(p, (char**)&p, 10));
        if (*p == ',')
            ++p;
    }
    return h;
}

// (a) heap-independence of one history
inline void CheckFresh(const std::vector<Op>& ops, const std::vector<int>& h, bool reset_first, Result& res, std::unordered_set<u64>& dig) {
    Obs o[3];
    bool ok[3];
    const int fills[3] = {0x00, 0xFF, 0xA5};
    for (int v = 0; v < 3; ++v) {
        verif_heap::g_fill = fills[v];
        {
            if (v == 1) { // a junk instance is used and destroyed first, so freed blocks carry old content
                Inst junk;
                junk.m->teakra->Reset();
                junk.m->teakra->MMIOWrite(0x206, 0xFFFF), junk.m->teakra->MMIOWrite(0x214, 0x7777);
                junk.m->teakra->MMIOWrite(0x11A, 0xFFFF), junk.m->teakra->MMIOWrite(0x120, 0xFFFF), junk.m->teakra->MMIOWrite(0x2A0, 0xFFFF); // unimplemented bits too
                junk.m->teakra->Run(5);
            }
            Inst in;
            if (reset_first)
                in.m->teakra->Reset();
            ok[v] = Apply(in, ops, h);
            if (ok[v])
                o[v] = Observe(in, true);
        }
        verif_heap::g_fill = -1;
    }
    ++res.evaluations;
    res.transitions += 3 * (h.size() + 1);
    res.traces_validated += 3;
    if (!ok[0] || !ok[1] || !ok[2]) {
        if (ok[0] != ok[1] || ok[0] != ok[2])
            res.AddViolation(Fmt("c17:fresh:outcome-differs:%s", reset_first ? "after-reset" : "no-reset"),
                             "history " + HistStr(ops, h) + " ends differently depending on the heap fill pattern",
                             Fmt("c17 fresh %d %s", reset_first, HistIds(h).c_str()));
        return;
    }
    dig.insert(Fnv(o[0].data(), sizeof(Obs)));
    for (int v = 1; v < 3; ++v) {
        int d = FirstDiff(o[0], o[v]);
        if (d >= 0) {
            res.AddViolation(Fmt("c17:fresh:%s:%s", kObsName[d], reset_first ? "after-reset" : "no-reset"),
                             Fmt("two instances built on heaps filled with 0x00 and 0x%02X, driven by the same history [%s%s], differ in %s",
                                 fills[v], reset_first ? "Reset ; " : "", HistStr(ops, h).c_str(), kObsName[d]),
                             Fmt("c17 fresh %d %s", reset_first, HistIds(h).c_str()));
            break;
        }
    }
}

// (b) Reset == fresh: runs h1;Reset;h2 on `in` (which may carry arbitrary earlier history) and compares
inline bool CheckReset(Inst& in, const std::vector<Op>& ops, const std::vector<int>& h1, const std::vector<int>& h2, const Obs& want, bool want_ok,
                       Result& res, const std::string& replay, bool chained) {
    bool ok1 = Apply(in, ops, h1);
    (void)ok1; // even a history that hit an assertion is followed by Reset
    in.m->log.clear();
    in.m->host_sem_cb = 0;
    in.m->teakra->Reset();
    in.ext.bytes.clear();
    bool ok2 = Apply(in, ops, h2);
    ++res.evaluations;
    res.transitions += h1.size() + h2.size() + 1;
    ++res.traces_validated;
    if (!ok2 || !want_ok)
        return ok2 == want_ok;
    Obs got = Observe(in);
    int d = FirstDiff(got, want);
    if (d < 0)
        return true;
    if (!chained)
        res.AddViolation(Fmt("c17:reset:%s:after[%s]", kObsName[d], h1.empty() ? "-" : ops[h1.back()].name),
                         Fmt("[%s] ; Reset ; [%s] differs from fresh ; Reset ; [%s] in %s", HistStr(ops, h1).c_str(), HistStr(ops, h2).c_str(),
                             HistStr(ops, h2).c_str(), kObsName[d]),
                         replay);
    return false;
}


// (c) the same with DSP memory supplied by the host (UserConfig::dsp_memory): the instance under test lives in a buffer that was
// full of 0x5A and then carries h1's traces, the reference in a zeroed buffer; after Reset both must observe the same
inline void CheckUserMemory(const std::vector<Op>& ops, const std::vector<int>& h1, const std::vector<int>& h2, Result& res, std::unordered_set<u64>& dig) {
    static std::vector<u8> buf_a(0x80000), buf_b(0x80000);
    std::fill(buf_a.begin(), buf_a.end(), 0x5A);
    std::fill(buf_b.begin(), buf_b.end(), 0x00);
    std::string rp = Fmt("c17 usermem %s %s", HistIds(h1).c_str(), HistIds(h2).c_str());
    Inst ref(buf_b.data());
    ref.m->teakra->Reset();
    bool wok = Apply(ref, ops, h2);
    Obs want = wok ? Observe(ref) : Obs{};
    Inst in(buf_a.data());
    size_t before = res.violations.size();
    CheckReset(in, ops, h1, h2, want, wok, res, rp, false);
    if (res.violations.size() != before)
        res.violations.back().key += ":user-memory";
    if (wok)
        dig.insert(Fnv(want.data(), sizeof(Obs), 0x5A));
}

struct Plan {
    std::vector<std::vector<int>> fresh, h1s, h2s;
    bool th;
};
inline Plan MakePlan(int n, bool th) {
    Plan p;
    p.th = th;
    p.fresh.push_back({});
    for (int i = 0; i < n; ++i)
        p.fresh.push_back({i});
    for (int i = 0; i < n; ++i)
        for (int j = 0; j < n; ++j)
            if (th || (i % 3 == 0 && j % 2 == 1) || i < 5)
                p.fresh.push_back({i, j});
    p.h1s.push_back({});
    p.h2s.push_back({});
    for (int i = 0; i < n; ++i) {
        p.h1s.push_back({i});
        p.h2s.push_back({i});
    }
    for (int i = 0; i < n; ++i)
        for (int j = 0; j < n; ++j)
            p.h1s.push_back({i, j});
    if (th)
        for (int i = 0; i < n; i += 2)
            for (int j = 1; j < n; j += 3)
                for (int k = 0; k < n; k += 4)
                    p.h1s.push_back({i, j, k});
    return p;
}

// (b) for one worker: one instance serves many (h1,h2) cases in a row; a disagreement is re-run alone on a
// fresh instance.  stop_case >= 0: replay mode, stop after that case ordinal of this worker.
inline void ChainWorker(const std::vector<Op>& ops, const Plan& plan, int idx, int cnt, Result& local, std::unordered_set<u64>& dig,
                        long stop_case = -1) {
    std::vector<Obs> want(plan.h2s.size());
    std::vector<char> wok(plan.h2s.size());
    for (size_t j = 0; j < plan.h2s.size(); ++j) {
        Inst ref;
        ref.m->teakra->Reset();
        wok[j] = Apply(ref, ops, plan.h2s[j]);
        if (wok[j])
            want[j] = Observe(ref);
    }
    std::unique_ptr<Inst> in;
    int used = 0;
    long ordinal = 0;
    for (size_t i = idx; i < plan.h1s.size(); i += cnt)
        for (size_t j = 0; j < plan.h2s.size(); ++j, ++ordinal) {
            if (!in || used >= 256) {
                in = std::make_unique<Inst>();
                used = 0;
            }
            ++used;
            const auto& h1 = plan.h1s[i];
            const auto& h2 = plan.h2s[j];
            std::string rp = Fmt("c17 reset %s %s", HistIds(h1).c_str(), HistIds(h2).c_str());
            if (!CheckReset(*in, ops, h1, h2, want[j], wok[j], local, rp, true)) {
                Inst alone;
                bool ok = CheckReset(alone, ops, h1, h2, want[j], wok[j], local, rp, false);
                if (ok) // only the longer chained history shows it: report with the chain position
                    local.AddViolation("c17:reset:only-in-longer-history",
                                       Fmt("[%s];Reset;[%s] agrees with fresh when run alone but not as case %d of a chain of "
                                           "Reset-separated cases on one instance (state survives Reset and shows up later)",
                                           HistStr(ops, h1).c_str(), HistStr(ops, h2).c_str(), used),
                                       Fmt("c17 chain %d %d %d %ld", plan.th ? 1 : 0, idx, cnt, ordinal));
                in.reset();
            }
            dig.insert(Fnv(want[j].data(), sizeof(Obs), i * 1000003 + j));
            if (stop_case >= 0 && ordinal == stop_case)
                return;
        }
}

inline int RunReplay(const std::string& r, Result& res) {
    QuietStdout quiet;
    auto ops = Alphabet();
    char a[256] = {0}, b[256] = {0};
    int rf;
    std::unordered_set<u64> dig;
    if (std::sscanf(r.c_str(), "c17 fresh %d %255s", &rf, a) == 2) {
        CheckFresh(ops, ParseIds(a), rf != 0, res, dig);
    } else if (r.rfind("c17 chain", 0) == 0) {
        int th, idx, cnt;
        long ord;
        if (std::sscanf(r.c_str(), "c17 chain %d %d %d %ld", &th, &idx, &cnt, &ord) != 4)
            return 2;
        Plan plan = MakePlan((int)ops.size(), th != 0);
        Result all;
        ChainWorker(ops, plan, idx, cnt, all, dig, ord);
        for (auto& v : all.violations)
            if (v.replay == r)
                res.AddViolation(v.key, v.text, v.replay);
    } else if (std::sscanf(r.c_str(), "c17 usermem %255s %255s", a, b) == 2) {
        CheckUserMemory(ops, ParseIds(a), ParseIds(b), res, dig);
    } else if (std::sscanf(r.c_str(), "c17 reset %255s %255s", a, b) == 2) {
        auto h1 = ParseIds(a), h2 = ParseIds(b);
        Inst ref;
        ref.m->teakra->Reset();
        bool wok = Apply(ref, ops, h2);
        Obs want = wok ? Observe(ref) : Obs{};
        Inst in;
        CheckReset(in, ops, h1, h2, want, wok, res, r, false);
    } else {
        return 2;
    }
    for (auto& x : res.violations)
        quiet.Say(Fmt("  %s\n    %s\n", x.key.c_str(), x.text.c_str()));
    return res.violations.empty() ? 0 : 1;
}

inline void Run(const Args& args, Result& res) {
    res.property = "C17";
    auto ops = Alphabet();
    int n = (int)ops.size();
    bool th = args.thorough();
    Plan plan = MakePlan(n, th);
    auto& fresh = plan.fresh;
    auto& h1s = plan.h1s;
    auto& h2s = plan.h2s;
    RunPool(args.jobs,
            [&](int idx, int cnt, WorkerBlock& blk, Result& local) {
                QuietStdout quiet;
                std::unordered_set<u64> dig;
                for (size_t i = idx; i < fresh.size(); i += cnt) {
                    CheckFresh(ops, fresh[i], false, local, dig);
                    CheckFresh(ops, fresh[i], true, local, dig);
                }
                ChainWorker(ops, plan, idx, cnt, local, dig);
                {
                    size_t job = 0;
                    for (auto& h1 : h1s)
                        if (h1.size() <= 1)
                            for (auto& h2 : h2s)
                                if (h2.size() <= 1 && (job++ % cnt) == (size_t)idx)
                                    CheckUserMemory(ops, h1, h2, local, dig);
                }
                blk.evaluations = local.evaluations;
                blk.transitions = local.transitions;
                blk.traces = local.traces_validated;
                blk.states = local.evaluations;
                blk.distinct = dig.size();
            },
            res);
    res.rule = Fmt("API alphabet of %d calls (5 hand-assembled programs + Run, MMIO programming of timers/ICU/APBP/AHBM/MIU/DMA/audio port, "
                   "memory accessors, mailbox/semaphore calls, AHBM accessors with half-consumed bursts). (a) every history is run on three "
                   "instances whose heap (operator new) is pre-filled with 0x00/0xFF/0xA5, with and without an initial Reset, observations "
                   "(registers incl. hidden banks, latches, MIU, ICU incl. vectors, APBP, timers, audio port, DMA, AHBM incl. burst queues, "
                   "512 KiB memory digest, host API getters, callback/AHBM access log) must be equal; (b) h1;Reset;h2 must equal "
                   "fresh;Reset;h2 for every pair, instances are reused across cases (longer histories), a disagreement is re-run alone; (c) the same "
                   "for histories of length <= 1 with host-supplied DSP memory (instance in a buffer full of 0x5A, reference in a zeroed one); "
                   "distinct = distinct observation vectors",
                   n);
    res.bound = Fmt("(a) %zu histories (length <= 2) x 2 variants x 3 heap fills; (b) %zu histories h1 (length <= %d) x %zu histories h2 (length <= 1)",
                    fresh.size(), h1s.size(), th ? 3 : 2, h2s.size());
    res.assumptions = {"raw backing words of unimplemented MMIO fields are not modelled state and are not observed",
                       "DMA transfer-internal counters are not observed (no register shows them; rewritten at the next start)",
                       "the vectored-interrupt address/context latch is observed only while a vectored request is latched"};
    res.AddSample("[timer0:auto,start=4,MU,RES ; prog:irq-idle;Run(30)] ; Reset ; [Run(40)]  vs  fresh ; Reset ; [Run(40)]");
    res.AddSample("heap fill 0x00 vs 0xFF: construct ; icu:route+trigger ; observe ICU vectors / hidden ar banks");
}
} // namespace c17
