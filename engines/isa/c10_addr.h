// C10 — address register stepping: every register x every modulo value x every offset x modes x step
// sources through the real addressing instructions, against linear / cyclic-walk / bit-reverse arithmetic.
#pragma once
#include "c03_alu.h"

namespace c10 {
using namespace isa;

inline u16 BitRev16(u16 v) {
    u16 r = 0;
    for (int i = 0; i < 16; ++i)
        if (v >> i & 1)
            r |= (u16)(1u << (15 - i));
    return r;
}

// step codes: 0 zero, 1 +1, 2 -1, 3 +s, 4 +2, 5 -2, 6 +2*, 7 -2*
struct Model {
    bool defined;   // the statement defines the new register value
    u16 value;
    bool high_only; // only "bits above the alignment unchanged" is defined
    u16 mask;
};
inline u16 MaskFor(u16 mod) {
    u16 mask = 0;
    while (mask < mod)
        mask = (u16)((mask << 1) | 1);
    return mask;
}
inline Model StepModel(const VState& s, int unit, int code, bool dmod) {
    Model m{false, 0, false, 0};
    u16 r = s.r[unit];
    bool ep = (unit == 3 && s.epi) || (unit == 7 && s.epj);
    bool two = code >= 4;
    if (ep && !two) { // end-pointer mode takes precedence: any non-(+-2) step zeroes the register
        m.defined = true;
        m.value = 0;
        return m;
    }
    if (code == 0) {
        m.defined = true;
        m.value = r;
        return m;
    }
    bool modulo = s.m[unit] && !s.br[unit] && !dmod;
    if (!modulo) {
        if (s.m[unit] && s.br[unit] && !dmod)
            return m; // bit reversal together with modulo: not described by the statement
        u16 step;
        switch (code) {
        case 1: step = 1; break;
        case 2: step = 0xFFFF; break;
        case 4: case 6: step = 2; break;
        case 5: case 7: step = 0xFFFE; break;
        default: { // configured step
            u16 s7 = unit < 4 ? s.stepi : s.stepj;
            u16 s16 = unit < 4 ? s.stepi0 : s.stepj0;
            if (s.br[unit] && !s.m[unit])
                step = s16;
            else
                step = (u16)((s7 & 0x40) ? (s7 | 0xFF80) : (s7 & 0x7F));
            if (s.stp16 == 1 && s.cmd == 0) {
                step = s16;
                if (s.m[unit])
                    step = (u16)((step & 0x100) ? (step | 0xFE00) : (step & 0x1FF));
            }
            break;
        }
        }
        m.defined = true;
        m.value = (u16)(r + step);
        return m;
    }
    // modulo enabled: +1 / -1 walk cyclically through [base, base+mod]
    u16 mod = unit < 4 ? s.modi : s.modj;
    u16 mask = MaskFor(mod);
    m.mask = mask;
    if (code != 1 && code != 2) {
        m.high_only = true;
        return m;
    }
    u16 base = r & ~mask, off = r & mask;
    if (off > mod) {
        m.high_only = true; // outside the buffer: only the alignment guarantee
        return m;
    }
    m.defined = true;
    if (code == 1)
        m.value = off == mod ? base : (u16)(r + 1);
    else
        m.value = off == 0 ? (u16)(base + mod) : (u16)(r - 1);
    return m;
}

struct Engine {
    Lib impl;
    VState base;
    Result& res;
    std::unordered_set<u64> digests;
    explicit Engine(Result& r) : res(r) {
        impl = LoadLib("libimpl.so");
        impl.api->default_state(&base);
        base.pc = 0x1000;
        base.sp = 0x0800;
        impl.api->fill_memory(impl.m, 0);
    }
    static std::string Cfg(const VState& s, int unit) {
        return Fmt("m=%u br=%u cmd=%u stp16=%u ep=%u", s.m[unit], s.br[unit], s.cmd, s.stp16, unit == 3 ? s.epi : unit == 7 ? s.epj : 0);
    }
    void Fail(const std::string& key, const std::string& text, u16 op, u16 exp, const VState& s) {
        res.AddViolation("c10:" + key, text, Fmt("c10 %u %u %s", op, exp, SerState(s).c_str()));
    }
    // run one addressing instruction and check every unit in `units` (unit, step code, dmod)
    struct Use {
        int unit, code;
        bool dmod;
    };
    void Check(const char* form, u16 op, u16 exp, const VState& s, const std::vector<Use>& uses, bool check_access, bool check_others = true) {
        u16 words[2] = {op, exp};
        VState out;
        RunResult rr;
        impl.api->run(impl.m, &s, words, 2, 1, &out, &rr);
        ++res.evaluations, ++res.transitions, ++res.traces_validated;
        if (rr.outcome == OUT_UNIMPLEMENTED)
            return;
        if (rr.outcome != OUT_OK && !check_others)
            return; // generic layer: reserved operand encodings end in a deliberate assertion (C18's business)
        if (rr.outcome != OUT_OK) {
            Fail(Fmt("%s:outcome=%s", form, OutcomeName(rr.outcome)), Fmt("opcode %04X ends with %s %s", op, OutcomeName(rr.outcome), rr.assert_expr), op, exp, s);
            return;
        }
        u64 dg = op;
        for (auto& u : uses) {
            // two uses of the same register in one instruction are outside the statement
            int same = 0;
            for (auto& v : uses)
                same += v.unit == u.unit;
            if (same > 1)
                return;
            Model m = StepModel(s, u.unit, u.code, u.dmod);
            u16 got = out.r[u.unit];
            dg = dg * 31 + got;
            const char* stepn[] = {"zero", "+1", "-1", "+step", "+2", "-2", "+2*", "-2*"};
            if (m.defined && got != m.value) {
                u16 mod = u.unit < 4 ? s.modi : s.modj;
                std::string cls = s.m[u.unit] && !s.br[u.unit] && !u.dmod ? Fmt("modulo:step%s:cmd=%u", stepn[u.code], s.cmd)
                                  : Fmt("linear:step%s:%s", stepn[u.code], s.br[u.unit] ? "bitrev" : ((u.unit == 3 && s.epi) || (u.unit == 7 && s.epj)) ? "endptr" : "plain");
                Fail(Fmt("%s:%s", form, cls.c_str()),
                     Fmt("opcode %04X (%s): r%d=%04X step %s%s, %s, mod=%03X step7=%02X step16=%04X: register becomes %04X, expected %04X", op, form, u.unit,
                         s.r[u.unit], stepn[u.code], u.dmod ? " (dmod)" : "", Cfg(s, u.unit).c_str(), mod, u.unit < 4 ? s.stepi : s.stepj,
                         u.unit < 4 ? s.stepi0 : s.stepj0, got, m.value),
                     op, exp, s);
                return;
            }
            if (m.high_only && ((got ^ s.r[u.unit]) & ~m.mask)) {
                Fail(Fmt("%s:modulo:alignment:cmd=%u", form, s.cmd),
                     Fmt("opcode %04X (%s): r%d=%04X step %s with modulo %03X (alignment mask %04X): register becomes %04X, bits above the alignment changed", op,
                         form, u.unit, s.r[u.unit], stepn[u.code], u.unit < 4 ? s.modi : s.modj, m.mask, got),
                     op, exp, s);
                return;
            }
        }
        // every register that is not used must be unchanged
        for (int i = 0; i < 8; ++i) {
            bool used = false;
            for (auto& u : uses)
                used |= u.unit == i;
            if (check_others && !used && out.r[i] != s.r[i]) {
                Fail(Fmt("%s:other-register", form), Fmt("opcode %04X (%s): r%d changed from %04X to %04X although the instruction names r%d", op, form, i, s.r[i], out.r[i], uses[0].unit), op, exp, s);
                return;
            }
        }
        if (check_access && uses.size() == 1) {
            int unit = uses[0].unit;
            u16 want = (s.br[unit] && !s.m[unit]) ? BitRev16(s.r[unit]) : s.r[unit];
            // first data access of the instruction
            for (int i = 0; i < rr.n_logged; ++i)
                if (rr.log[i].addr >= 0x20000) {
                    u16 a = (u16)(rr.log[i].addr - 0x20000);
                    if (a != want)
                        Fail(Fmt("%s:access-address:%s", form, s.br[unit] && !s.m[unit] ? "bitrev" : "plain"),
                             Fmt("opcode %04X (%s): r%d=%04X, %s: memory accessed at %04X, expected the pre-modified %s value %04X", op, form, unit, s.r[unit],
                                 Cfg(s, unit).c_str(), a, s.br[unit] && !s.m[unit] ? "bit-reversed" : "register", want),
                             op, exp, s);
                    break;
                }
        }
        digests.insert(Mix(dg));
    }


    // two addressing instructions in ONE Run call: the second step must follow the statement from wherever the first one left the
    // register (a stepping rule must not depend on what an earlier instruction of the same call did - cached masks, latched steps)
    void CheckSeq(u16 op1, u16 op2, const VState& s, int unit, int code1, int code2) {
        u16 words[2] = {op1, op2};
        VState o1, o2;
        RunResult r1, r2;
        // before each of the two runs one step is executed under a different addressing configuration, so that whatever the
        // interpreter may remember from earlier steps does not belong to this configuration when the sequence starts
        auto scrub = [&]() {
            VState z = s, zo;
            z.modi ^= 0x1FF, z.modj ^= 0x1FF, z.stepi ^= 0x7F, z.stepj ^= 0x7F;
            u16 w[2] = {(u16)(0x0080 | unit | (1 << 3)), 0};
            RunResult zr;
            impl.api->run(impl.m, &z, w, 2, 1, &zo, &zr);
        };
        scrub();
        impl.api->run(impl.m, &s, words, 2, 1, &o1, &r1);
        scrub();
        impl.api->run(impl.m, &s, words, 2, 2, &o2, &r2);
        res.evaluations += 4, res.transitions += 5, res.traces_validated += 4;
        if (r1.outcome != OUT_OK || r2.outcome != OUT_OK)
            return;
        VState mid = s;
        mid.r[unit] = o1.r[unit];
        Model m = StepModel(mid, unit, code2, false);
        u16 got = o2.r[unit];
        const char* stepn[] = {"zero", "+1", "-1", "+step", "+2", "-2", "+2*", "-2*"};
        std::string rp = Fmt("c10seq %u %u %d %d %d %s", op1, op2, unit, code1, code2, SerState(s).c_str());
        if (m.defined && got != m.value)
            res.AddViolation(Fmt("c10:sequence:step%s-then-step%s:cmd=%u", stepn[code1], stepn[code2], s.cmd),
                             Fmt("r%d=%04X, %s, mod=%03X step7=%02X: after step %s the register is %04X; a following step %s in the same Run gives %04X, the statement gives %04X",
                                 unit, s.r[unit], Cfg(s, unit).c_str(), unit < 4 ? s.modi : s.modj, unit < 4 ? s.stepi : s.stepj, stepn[code1], o1.r[unit], stepn[code2], got, m.value),
                             rp);
        else if (m.high_only && (code2 == 1 || code2 == 2) && ((got ^ mid.r[unit]) & ~m.mask)) // the alignment guarantee is stated for +1/-1 only
            res.AddViolation(Fmt("c10:sequence:alignment:cmd=%u", s.cmd),
                             Fmt("r%d=%04X after step %s, then step %s: bits above the alignment mask %04X changed (%04X)", unit, o1.r[unit], stepn[code1], stepn[code2], m.mask, got), rp);
        digests.insert(Mix(((u64)op1 << 32) ^ op2 ^ ((u64)got << 16) ^ s.r[unit]));
    }

    // a configuration instruction followed by a step in the same call: the step uses the configuration the first instruction
    // established (`mid` = the state the statement expects after the first instruction)
    void CheckCfgSeq(const char* what, u16 op1, u16 op2, const VState& s, const VState& mid, int unit, int code2) {
        u16 words[2] = {op1, op2};
        VState o2;
        RunResult r2;
        impl.api->run(impl.m, &s, words, 2, 2, &o2, &r2);
        ++res.evaluations, res.transitions += 2, ++res.traces_validated;
        if (r2.outcome != OUT_OK)
            return;
        Model m = StepModel(mid, unit, code2, false);
        const char* stepn[] = {"zero", "+1", "-1", "+step", "+2", "-2", "+2*", "-2*"};
        digests.insert(Mix(((u64)op1 << 32) ^ op2 ^ ((u64)o2.r[unit] << 16) ^ s.r[unit]));
        if (m.defined && o2.r[unit] != m.value)
            res.AddViolation(Fmt("c10:configure-then-step:%s:step%s:cmd=%u", what, stepn[code2], s.cmd),
                             Fmt("%s (opcode %04X) then step %s of r%d=%04X (%s, stp16=%u): the register becomes %04X, the configuration just established gives %04X", what, op1,
                                 stepn[code2], unit, s.r[unit], Cfg(mid, unit).c_str(), s.stp16, o2.r[unit], m.value),
                             Fmt("c10cfg %s %u %u %d %d %s | %s", what, op1, op2, unit, code2, SerState(s).c_str(), SerState(mid).c_str()));
    }
    void ConfigureLayer(int unit, int cmd) {
        const bool i_side = unit < 4;
        // (G) load stepi/stepj: all 128 immediates, then +s (linear)
        for (u16 s7 = 0; s7 < 128; ++s7)
            for (u16 r : {(u16)0x6400, (u16)0x000F, (u16)0xFFF0}) {
                VState s = base;
                s.cmd = (u16)cmd, s.r[unit] = r;
                (i_side ? s.stepi : s.stepj) = 0x15;
                VState mid = s;
                (i_side ? mid.stepi : mid.stepj) = s7;
                CheckCfgSeq(i_side ? "load-stepi" : "load-stepj", (u16)((i_side ? 0xDB80 : 0xDF80) | s7), (u16)(0x0080 | unit | (3 << 3)), s, mid, unit, 3);
                // the field holds the 7-bit step, nothing more (the word cfgi/cfgj shares its other bits with the modulo)
                u16 w[2] = {(u16)((i_side ? 0xDB80 : 0xDF80) | s7), 0};
                VState o1;
                RunResult r1;
                impl.api->run(impl.m, &s, w, 2, 1, &o1, &r1);
                ++res.evaluations, ++res.transitions, ++res.traces_validated;
                u16 got = i_side ? o1.stepi : o1.stepj;
                if (r1.outcome == OUT_OK && got != s7)
                    res.AddViolation(Fmt("c10:configure:%s:field", i_side ? "load-stepi" : "load-stepj"),
                                     Fmt("load step #%02X leaves the 7-bit step field at %04X", s7, got), Fmt("c10cfg1 %u %s", w[0], SerState(s).c_str()));
            }
        // (H) load modi/modj, then +1 / -1 at both ends of the buffer
        for (u16 mod : {(u16)1, (u16)2, (u16)3, (u16)5, (u16)7, (u16)8, (u16)0x1F, (u16)0x20, (u16)0xFF, (u16)0x100, (u16)0x1FF}) {
            u16 mask = MaskFor(mod);
            for (u16 off : {(u16)0, mod, (u16)(mod / 2)})
                for (int code : {1, 2}) {
                    VState s = base;
                    s.cmd = (u16)cmd, s.m[unit] = 1;
                    (i_side ? s.modi : s.modj) = (u16)(mod ^ 0x155);
                    s.r[unit] = (u16)((0x65FF & ~mask) | off);
                    VState mid = s;
                    (i_side ? mid.modi : mid.modj) = mod;
                    CheckCfgSeq(i_side ? "load-modi" : "load-modj", (u16)((i_side ? 0x0200 : 0x0A00) | mod), (u16)(0x0080 | unit | (code << 3)), s, mid, unit, code);
                }
        }
        // (I) bank exchange of the configuration word, then +s / +-1: the other bank's step, modulo and (with stp16) 16-bit step apply
        for (int stp16 = 0; stp16 < 2; ++stp16)
            for (int br = 0; br < 2; ++br)
                for (int m = 0; m < 2; ++m) {
                    if (br && m)
                        continue;
                    for (int code : {3, 1, 2}) {
                        VState s = base;
                        s.cmd = (u16)cmd, s.stp16 = (u16)stp16, s.br[unit] = (u16)br, s.m[unit] = (u16)m;
                        s.stepi = 3, s.stepib = 0x7B, s.stepj = 5, s.stepjb = 0x79, s.modi = 7, s.modib = 0x1F, s.modj = 3, s.modjb = 0x0F;
                        s.stepi0 = 0x0010, s.stepi0b = 0x0300, s.stepj0 = 0xFFF0, s.stepj0b = 0x0021;
                        s.r[unit] = (u16)(0x6400 | (m ? (i_side ? 0x1F : 0x0F) : 0x12));
                        VState mid = s;
                        if (i_side) {
                            std::swap(mid.stepi, mid.stepib), std::swap(mid.modi, mid.modib);
                            if (stp16)
                                std::swap(mid.stepi0, mid.stepi0b);
                        } else {
                            std::swap(mid.stepj, mid.stepjb), std::swap(mid.modj, mid.modjb);
                            if (stp16)
                                std::swap(mid.stepj0, mid.stepj0b);
                        }
                        CheckCfgSeq(i_side ? "banke-cfgi" : "banke-cfgj", (u16)(0x4B80 | (i_side ? 0x01 : 0x20)), (u16)(0x0080 | unit | (code << 3)), s, mid, unit, code);
                    }
                }
    }
    // ---- generic layers over the whole opcode space ----
    // the address-register uses an instruction form names (operand types of the decode table row)
    static bool UsesOf(const DecodeInfo& d, const VState& s, std::vector<Use>& uses) {
        uses.clear();
        std::string n = d.name;
        bool dm_i = false, dm_j = false, dm = false;
        if (n == "modr_dmod" || n == "modr_i2_dmod" || n == "modr_d2_dmod")
            dm = true;
        if (n == "modr_demod" || n == "modr_ddmod")
            dm_i = true;
        if (n == "modr_edmod" || n == "modr_ddmod")
            dm_j = true;
        auto T = [&](int i) { return i < d.nargs ? std::string(d.arg_types[i]) : std::string(); };
        for (int i = 0; i < d.nargs; ++i) {
            std::string t = T(i), t1 = T(i + 1), t2 = T(i + 2);
            if ((t == "Rn" || t == "R45" || t == "R0123") && ArgIs(d, i + 1, "StepZIDS")) {
                int unit = t == "R45" ? 4 + d.args[i] : d.args[i];
                uses.push_back({unit, (int)d.args[i + 1], dm});
                ++i;
            } else if ((t == "ArRn1" || t == "ArRn2") && (t1 == "ArStep1" || t1 == "ArStep2" || t1 == "ArStep1Alt")) {
                int si = t1 == "ArStep1Alt" ? d.args[i + 1] + 2 : d.args[i + 1];
                uses.push_back({(int)s.arrn[d.args[i]], (int)s.arstep[si], false});
                ++i;
            } else if ((t == "ArpRn1" || t == "ArpRn2") && t1.compare(0, 7, "ArpStep") == 0 && t2.compare(0, 7, "ArpStep") == 0) {
                bool di = dm_i, dj = dm_j;
                // mma-style rows carry their two modulo-disable flags as the next two bool operands
                if (T(i + 3) == "bool" && T(i + 4) == "bool" && std::string(d.name) == "mma")
                    di = d.args[i + 3], dj = d.args[i + 4];
                uses.push_back({(int)s.arprni[d.args[i]], (int)s.arpstepi[d.args[i + 1]], di});
                uses.push_back({(int)s.arprnj[d.args[i]] + 4, (int)s.arpstepj[d.args[i + 2]], dj});
                i += 2;
            }
        }
        if (n == "modr_i2" || n == "modr_i2_dmod")
            uses = {{(int)d.args[0], 4, dm}};
        if (n == "modr_d2" || n == "modr_d2_dmod")
            uses = {{(int)d.args[0], 5, dm}};
        if ((n == "max_ge_r0" || n == "max_gt_r0" || n == "min_le_r0" || n == "min_lt_r0") && ArgIs(d, 1, "StepZIDS"))
            uses = {{0, (int)d.args[1], false}};
        if (uses.empty())
            return false;
        // a form that also names one of those registers as a plain operand (mov [r1]+, r1; the implicit r6 of the _r6 forms) is outside the statement
        if (n.find("r6") != std::string::npos)
            for (auto& u : uses)
                if (u.unit == 6)
                    return false;
        for (int i = 0; i < d.nargs; ++i) {
            std::string t = T(i);
            int reg = -1;
            if (t == "Register" && kRegister[d.args[i] & 31] >= R_r0 && kRegister[d.args[i] & 31] <= R_r7)
                reg = kRegister[d.args[i] & 31] - R_r0;
            if (t == "RnOld")
                reg = d.args[i] < 6 ? d.args[i] : d.args[i] == 6 ? 7 : -1;
            if (t == "Rn" && !ArgIs(d, i + 1, "StepZIDS"))
                reg = d.args[i];
            for (auto& u : uses)
                if (u.unit == reg)
                    return false;
        }
        return true;
    }
    VState GenericState(int variant) {
        VState s = base;
        for (int k = 0; k < 4; ++k)
            s.r[k] = (u16)(0x6420 + 8 * k), s.r[4 + k] = (u16)(0xCC20 + 8 * k);
        const u16 rn[4] = {0, 5, 2, 7}, st[4] = {1, 2, 4, 3}, pi[4] = {0, 1, 2, 3}, pj[4] = {1, 0, 3, 2}, si[4] = {1, 2, 5, 3}, sj[4] = {2, 1, 4, 6};
        for (int k = 0; k < 4; ++k) {
            s.arrn[k] = rn[(k + variant) & 3], s.arstep[k] = st[(k + variant) & 3];
            s.arprni[k] = pi[(k + variant) & 3], s.arprnj[k] = pj[(k + variant) & 3];
            s.arpstepi[k] = si[(k + 3 * variant) & 3], s.arpstepj[k] = sj[(k + variant) & 3];
        }
        s.stepi = 3, s.stepj = 0x7D, s.stepi0 = 0x0005, s.stepj0 = 0xFFF9;
        if (variant & 1)
            s.cmd = 0;
        if (variant == 6) { // end-pointer mode of r3 / r7: every step except +-2 zeroes the register, whatever form names it
            s.epi = s.epj = 1;
            return s;
        }
        if (variant >= 4) { // modulo addressing on for every register, each at the end (variant 4) or the start (variant 5) of its 8-word buffer:
                            // the forms that carry a modulo-disable flag step linearly, the others wrap
            s.modi = s.modj = 7;
            for (int k = 0; k < 8; ++k)
                s.m[k] = 1, s.br[k] = 0, s.r[k] = (u16)((s.r[k] & ~7) | (variant == 4 ? 7 : 0));
        }
        return s;
    }
    // E: every opcode whose form names address registers with steps: the registers step as configured
    void GenericStep(u16 op, const DecodeInfo& d) {
        for (int variant = 0; variant < 7; ++variant) {
            VState s = GenericState(variant);
            std::vector<Use> uses;
            if (!UsesOf(d, s, uses))
                return;
            Check(Fmt("form:%s", d.name).c_str(), op, 0x0010, s, uses, false, false);
        }
    }
    // D: every opcode that accesses memory at an address register's value: with bit reversal enabled (modulo off)
    // the access goes to the bit-reversed address and not to the raw register value
    void GenericBitRev(u16 op, const DecodeInfo& d) {
        std::string n = d.name;
        if (n == "undefined")
            return;
        VState s0 = GenericState(0);
        u16 words[2] = {op, 0x0010};
        VState out;
        RunResult r0;
        impl.api->run(impl.m, &s0, words, 2, 1, &out, &r0);
        ++res.evaluations, ++res.transitions, ++res.traces_validated;
        if (r0.outcome != OUT_OK || r0.n_logged == 0)
            return;
        std::vector<Use> named;
        if (!UsesOf(d, s0, named))
            return; // only indirect addressing through a named address register ([r7+imm], loop-frame pointers etc. are other modes)
        for (int unit = 0; unit < 8; ++unit) {
            bool is_named = false;
            for (auto& u : named)
                is_named |= u.unit == unit;
            if (!is_named)
                continue;
            u16 p = s0.r[unit];
            bool hit = false;
            for (int i = 0; i < r0.n_logged; ++i)
                hit |= r0.log[i].addr == 0x20000u + p;
            if (!hit)
                continue;
            VState s1 = s0;
            s1.br[unit] = 1, s1.m[unit] = 0;
            s1.r[unit] = BitRev16(p);
            RunResult r1;
            impl.api->run(impl.m, &s1, words, 2, 1, &out, &r1);
            ++res.evaluations, ++res.transitions, ++res.traces_validated;
            if (r1.outcome != OUT_OK)
                continue;
            bool at_rev = false, at_raw = false;
            for (int i = 0; i < r1.n_logged; ++i) {
                at_rev |= r1.log[i].addr == 0x20000u + p;
                at_raw |= r1.log[i].addr == 0x20000u + BitRev16(p);
            }
            digests.insert(Mix(op * 8 + unit));
            if (!at_rev || at_raw)
                res.AddViolation(Fmt("c10:form:%s:access-address:bitrev", d.name),
                                 Fmt("opcode %04X (%s): with r%d=%04X the instruction accesses memory at %04X; with bit reversal enabled for r%d (modulo off) and "
                                     "r%d=%04X (whose reversal is %04X) it %s", op, d.name, unit, p, p, unit, unit, BitRev16(p), p,
                                     at_raw ? "accesses the raw register value instead of its bit reversal" : "no longer accesses the reversed address"),
                                 Fmt("c10gen %u %d", op, unit));
        }
    }
};

inline int RunReplay(const std::string& r, Result& res) {
    QuietStdout quiet;
    unsigned op, exp;
    int n = 0;
    {
        unsigned gop;
        int gunit;
        if (std::sscanf(r.c_str(), "c10gen %u %d", &gop, &gunit) == 2) {
            Engine e(res);
            DecodeInfo d;
            e.impl.api->decode((u16)gop, &d);
            e.GenericBitRev((u16)gop, d);
            for (auto& v : res.violations)
                quiet.Say(Fmt("  %s\n    %s\n", v.key.c_str(), v.text.c_str()));
            return res.violations.empty() ? 0 : 1;
        }
    }
    {
        unsigned o1, o2;
        int unit, c1, c2, used = 0;
        if (std::sscanf(r.c_str(), "c10seq %u %u %d %d %d %n", &o1, &o2, &unit, &c1, &c2, &used) == 5) {
            VState st;
            if (!ParseState(r.substr(used), st))
                return 2;
            Engine e(res);
            e.CheckSeq((u16)o1, (u16)o2, st, unit, c1, c2);
            for (auto& v : res.violations)
                quiet.Say(Fmt("  %s\n    %s\n", v.key.c_str(), v.text.c_str()));
            return res.violations.empty() ? 0 : 1;
        }
    }
    if (r.rfind("c10cfg1 ", 0) == 0) {
        unsigned o1;
        int used = 0;
        if (std::sscanf(r.c_str(), "c10cfg1 %u %n", &o1, &used) != 1)
            return 2;
        VState st;
        if (!ParseState(r.substr(used), st))
            return 2;
        Engine e(res);
        u16 w[2] = {(u16)o1, 0};
        VState out;
        RunResult rr;
        e.impl.api->run(e.impl.m, &st, w, 2, 1, &out, &rr);
        bool i_side = (o1 & 0xFF80) == 0xDB80;
        u16 got = i_side ? out.stepi : out.stepj;
        if (rr.outcome == OUT_OK && got != (o1 & 0x7F)) {
            quiet.Say(Fmt("  load step #%02X leaves the step field at %04X\n", o1 & 0x7F, got));
            return 1;
        }
        return 0;
    }
    if (r.rfind("c10cfg ", 0) == 0) {
        char what[32];
        unsigned o1, o2;
        int unit, c2, used = 0;
        if (std::sscanf(r.c_str(), "c10cfg %31s %u %u %d %d %n", what, &o1, &o2, &unit, &c2, &used) != 5)
            return 2;
        std::string rest = r.substr(used);
        size_t bar = rest.find(" | ");
        VState st, mid;
        if (bar == std::string::npos || !ParseState(rest.substr(0, bar), st) || !ParseState(rest.substr(bar + 3), mid))
            return 2;
        Engine e(res);
        e.CheckCfgSeq(what, (u16)o1, (u16)o2, st, mid, unit, c2);
        for (auto& v : res.violations)
            quiet.Say(Fmt("  %s\n    %s\n", v.key.c_str(), v.text.c_str()));
        return res.violations.empty() ? 0 : 1;
    }
    if (std::sscanf(r.c_str(), "c10 %u %u %n", &op, &exp, &n) != 2)
        return 2;
    VState s;
    if (!ParseState(r.substr(n), s))
        return 2;
    Engine e(res);
    DecodeInfo d;
    e.impl.api->decode((u16)op, &d);
    std::string nm = d.name;
    std::vector<Engine::Use> uses;
    bool access = false;
    auto arp = [&](int rn, int si, int sj, bool di, bool dj) {
        uses.push_back({(int)s.arprni[rn], (int)s.arpstepi[si], di});
        uses.push_back({(int)s.arprnj[rn] + 4, (int)s.arpstepj[sj], dj});
    };
    if (nm == "modr") uses = {{d.args[0], d.args[1], false}};
    else if (nm == "modr_dmod") uses = {{d.args[0], d.args[1], true}};
    else if (nm == "modr_i2") uses = {{d.args[0], 4, false}};
    else if (nm == "modr_i2_dmod") uses = {{d.args[0], 4, true}};
    else if (nm == "modr_d2") uses = {{d.args[0], 5, false}};
    else if (nm == "modr_d2_dmod") uses = {{d.args[0], 5, true}};
    else if (nm == "modr_eemod") arp(d.args[0], d.args[1], d.args[2], false, false);
    else if (nm == "modr_edmod") arp(d.args[0], d.args[1], d.args[2], false, true);
    else if (nm == "modr_demod") arp(d.args[0], d.args[1], d.args[2], true, false);
    else if (nm == "modr_ddmod") arp(d.args[0], d.args[1], d.args[2], true, true);
    else if (nm == "mov" && d.nargs == 3 && ArgIs(d, 0, "Rn")) uses = {{d.args[0], d.args[1], false}}, access = true;
    else if (nm == "mov" && d.nargs == 3 && ArgIs(d, 1, "Rn")) uses = {{d.args[1], d.args[2], false}}, access = true;
    else if (nm == "mov_repc_to" && ArgsAre(d, {"ArRn1", "ArStep1"})) uses = {{(int)s.arrn[d.args[0]], (int)s.arstep[d.args[1]], false}}, access = true;
    else if (nm == "movr" && ArgsAre(d, {"ArRn2", "ArStep2", "Abh"})) uses = {{(int)s.arrn[d.args[0]], (int)s.arstep[d.args[1]], false}}, access = true;
    else if (Engine::UsesOf(d, s, uses)) {
        e.Check(Fmt("form:%s", d.name).c_str(), (u16)op, (u16)exp, s, uses, false, false);
        for (auto& v : res.violations)
            quiet.Say(Fmt("  %s\n    %s\n", v.key.c_str(), v.text.c_str()));
        return res.violations.empty() ? 0 : 1;
    } else return 2;
    e.Check("replay", (u16)op, (u16)exp, s, uses, access);
    for (auto& v : res.violations)
        quiet.Say(Fmt("  %s\n    %s\n", v.key.c_str(), v.text.c_str()));
    return res.violations.empty() ? 0 : 1;
}

inline void Run(const Args& args, Result& res) {
    res.property = "C10";
    bool th = args.thorough();
    RunPool(args.jobs,
            [&](int idx, int cnt, WorkerBlock& blk, Result& local) {
                QuietStdout quiet;
                Engine e(local);
                const std::vector<u16> starts = {0x0000, 0x0001, 0x0002, 0x7FFF, 0x8000, 0xFFFE, 0xFFFF, 0x6400, 0x65FF, 0x00FF, 0x0100, 0x1234, 0xFE00, 0x5555, 0xAAAA, 0x8001};
                long job = 0;
                auto mine = [&]() { return (job++ % cnt) == idx; };
                for (int unit = 0; unit < 8; ++unit) {
                    // ---- A1: modulo off, every start value, steps 0,+1,-1 (modr), +2/-2 (modr_i2/d2), both dmod variants
                    for (int br = 0; br < 2; ++br)
                        for (int cmd = 0; cmd < 2; ++cmd)
                            for (int ep = 0; ep < 2; ++ep) {
                                if (ep && unit != 3 && unit != 7)
                                    continue;
                                if (!mine())
                                    continue;
                                VState s = e.base;
                                s.br[unit] = (u16)br, s.cmd = (u16)cmd, s.epi = s.epj = (u16)ep;
                                for (u32 r = 0; r < 0x10000; ++r) {
                                    s.r[unit] = (u16)r;
                                    for (int code : {0, 1, 2}) {
                                        e.Check("modr", (u16)(0x0080 | unit | (code << 3)), 0, s, {{unit, code, false}}, false);
                                        e.Check("modr-dmod", (u16)(0x00A0 | unit | (code << 3)), 0, s, {{unit, code, true}}, false);
                                    }
                                    e.Check("modr+2", (u16)(0x4990 | unit), 0, s, {{unit, 4, false}}, false);
                                    e.Check("modr-2", (u16)(0x5DA0 | unit), 0, s, {{unit, 5, false}}, false);
                                }
                                // with modulo enabled but the dmod form: still linear
                                s.m[unit] = 1;
                                (unit < 4 ? s.modi : s.modj) = 0x007;
                                for (u16 r : starts) {
                                    s.r[unit] = r;
                                    for (int code : {0, 1, 2})
                                        e.Check("modr-dmod", (u16)(0x00A0 | unit | (code << 3)), 0, s, {{unit, code, true}}, false);
                                    e.Check("modr+2-dmod", (u16)(0x4998 | unit), 0, s, {{unit, 4, true}}, false);
                                    e.Check("modr-2-dmod", (u16)(0x5DA8 | unit), 0, s, {{unit, 5, true}}, false);
                                }
                            }
                    // ---- A2: configured step (+s): all 128 7-bit steps x 16-bit step alphabet x stp16 x cmd x br
                    for (int stp16 = 0; stp16 < 2; ++stp16)
                        for (int cmd = 0; cmd < 2; ++cmd)
                            for (int br = 0; br < 3; ++br) { // br == 2: end-pointer mode of r3/r7 (the configured step zeroes the register like +1/-1 do)
                                if (br == 2 && unit != 3 && unit != 7)
                                    continue;
                                if (!mine())
                                    continue;
                                VState s = e.base;
                                s.stp16 = (u16)stp16, s.cmd = (u16)cmd, s.br[unit] = (u16)(br == 1);
                                if (br == 2)
                                    s.epi = s.epj = 1;
                                for (u16 s7 = 0; s7 < 128; ++s7)
                                    for (u16 s16 : {(u16)0x0000, (u16)0x0001, (u16)0x7FFF, (u16)0x8000, (u16)0xFFFF, (u16)0x0100, (u16)0x01FF}) {
                                        (unit < 4 ? s.stepi : s.stepj) = s7;
                                        (unit < 4 ? s.stepi0 : s.stepj0) = s16;
                                        for (u16 r : starts) {
                                            s.r[unit] = r;
                                            e.Check("modr+s", (u16)(0x0080 | unit | (3 << 3)), 0, s, {{unit, 3, false}}, false);
                                        }
                                    }
                            }
                    // ---- A3: modulo on, +1/-1: all 512 modulo values x all offsets 0..mask x high patterns x cmd
                    for (int cmd = 0; cmd < 2; ++cmd)
                        for (u16 mod = 0; mod < 512; ++mod) {
                            if (!mine())
                                continue;
                            VState s = e.base;
                            s.cmd = (u16)cmd, s.m[unit] = 1;
                            (unit < 4 ? s.modi : s.modj) = mod;
                            u16 mask = MaskFor(mod);
                            // (a one-word buffer, modulo value 0, has no alignment: it may sit at an odd address)
                            for (u16 high : {(u16)0x0000, (u16)0x6400, (u16)0xFE00, (u16)0x0001, (u16)0x6401, (u16)0xFFFF}) {
                                if ((high & 1) && mask != 0)
                                    continue;
                                for (u32 off = 0; off <= mask; ++off) {
                                    s.r[unit] = (u16)((high & ~mask) | off);
                                    for (int code : {1, 2, 0})
                                        e.Check("modr", (u16)(0x0080 | unit | (code << 3)), 0, s, {{unit, code, false}}, false);
                                }
                            }
                        }
                    // ---- B: the access uses the pre-modified value (bit-reversed when br and not m): load and store forms
                    for (int br = 0; br < 2; ++br)
                        for (int m = 0; m < 2; ++m) {
                            if (!mine())
                                continue;
                            VState s = e.base;
                            s.br[unit] = (u16)br, s.m[unit] = (u16)m;
                            (unit < 4 ? s.modi : s.modj) = 0x01F;
                            for (u16 r : starts) {
                                if ((br && !m ? BitRev16(r) : r) >= 0x8000 && (br && !m ? BitRev16(r) : r) < 0x8800)
                                    continue; // MMIO window
                                s.r[unit] = r;
                                for (int code = 0; code < 4; ++code) {
                                    e.Check("load[Rn]", (u16)(0x1C00 | (7 << 5) | unit | (code << 3)), 0, s, {{unit, code, false}}, true);
                                    e.Check("store[Rn]", (u16)(0x1800 | (7 << 5) | unit | (code << 3)), 0, s, {{unit, code, false}}, true);
                                }
                            }
                        }
                }
                // ---- C: ar / arp selected registers and steps (all 8 step codes incl. +-2 and +-2*)
                for (int sel = 0; sel < 2; ++sel)
                    for (int stepsel = 0; stepsel < 2; ++stepsel)
                        for (int rn = 0; rn < 8; ++rn)
                            for (int code = 0; code < 8; ++code) {
                                if (!mine())
                                    continue;
                                for (int cfg = 0; cfg < 4; ++cfg) {
                                    VState s = e.base;
                                    s.arrn[sel] = (u16)rn, s.arstep[stepsel] = (u16)code;
                                    s.arrn[1 - sel] = (u16)((rn + 3) & 7), s.arstep[1 - stepsel] = (u16)((code + 3) & 7);
                                    s.br[rn] = cfg & 1, s.cmd = (cfg >> 1) & 1;
                                    for (u16 r : starts) {
                                        u16 a = s.br[rn] ? BitRev16(r) : r;
                                        if (a >= 0x8000 && a < 0x8800)
                                            continue;
                                        s.r[rn] = r;
                                        e.Check("store[ArRn1]", (u16)(0xD7D0 | (sel << 1) | stepsel), 0, s, {{rn, code, false}}, true);
                                    }
                                }
                            }
                for (int form = 0; form < 4; ++form)
                    for (int rnsel = 0; rnsel < 4; ++rnsel)
                        for (int asi = 0; asi < 4; ++asi)
                            for (int asj = 0; asj < 4; ++asj) {
                                if (!mine())
                                    continue;
                                for (int ci = 0; ci < 8; ++ci)
                                    for (int cj = 0; cj < 8; ++cj)
                                        for (int ri = 0; ri < 4; ri += 1)
                                            for (int rj = 0; rj < 4; ++rj) {
                                                VState s = e.base;
                                                // every selector slot holds a different register / step so that a wrong index shows
                                                for (int k = 0; k < 4; ++k) {
                                                    s.arprni[k] = (u16)((ri + k - rnsel) & 3), s.arprnj[k] = (u16)((rj + k - rnsel) & 3);
                                                    s.arpstepi[k] = (u16)((ci + 3 * (k - asi)) & 7), s.arpstepj[k] = (u16)((cj + 5 * (k - asj)) & 7);
                                                }
                                                for (int k = 0; k < 8; ++k)
                                                    s.r[k] = (u16)(0x1000 * k + 0x0123);
                                                u16 op;
                                                bool di = false, dj = false;
                                                switch (form) {
                                                case 0: op = (u16)(0xD294 | (rnsel << 10) | asi | (asj << 5)); break;
                                                case 1: op = (u16)(0x0D80 | (rnsel << 5) | (asi << 1) | (asj << 3)), dj = true; break;
                                                case 2: op = (u16)(0x8464 | (rnsel << 8) | asi | (asj << 3)), di = true; break;
                                                default: op = (u16)(0x0D81 | (rnsel << 5) | (asi << 1) | (asj << 3)), di = dj = true; break;
                                                }
                                                e.Check("modr[arp]", op, 0, s, {{ri, ci, di}, {rj + 4, cj, dj}}, false);
                                            }
                            }
                // ---- S: sequences of two steps in one call (modulo on): +s / +-1 / +-2 in every order, small and large buffers
                for (int unit = 0; unit < 8; ++unit)
                    for (int cmd = 0; cmd < 2; ++cmd)
                        for (u16 mod : {(u16)1, (u16)2, (u16)3, (u16)4, (u16)5, (u16)7, (u16)8, (u16)0x10, (u16)0x1F, (u16)0x20, (u16)0x100, (u16)0x1FF}) {
                            if (!mine())
                                continue;
                            for (u16 s7 : {(u16)1, (u16)2, (u16)3, (u16)5, (u16)0x3F, (u16)0x40, (u16)0x7E, (u16)0x7B}) {
                                VState s = e.base;
                                s.cmd = (u16)cmd, s.m[unit] = 1;
                                (unit < 4 ? s.modi : s.modj) = mod;
                                (unit < 4 ? s.stepi : s.stepj) = s7;
                                u16 mask = MaskFor(mod);
                                for (u16 hi : {(u16)0x6400, (u16)(0x65FF & ~mask)}) // buffers at an aligned address and directly below the next alignment boundaries
                                for (u32 off = 0; off <= mask; ++off) {
                                    s.r[unit] = (u16)(hi | off);
                                    auto modr = [&](int code) { return code < 4 ? (u16)(0x0080 | unit | (code << 3)) : code == 4 ? (u16)(0x4990 | unit) : (u16)(0x5DA0 | unit); };
                                    static const int pairs[][2] = {{3, 1}, {3, 2}, {1, 3}, {2, 3}, {3, 3}, {4, 1}, {5, 2}, {1, 2}, {2, 1}, {3, 4}, {3, 5}};
                                    for (auto& pr : pairs)
                                        e.CheckSeq(modr(pr[0]), modr(pr[1]), s, unit, pr[0], pr[1]);
                                }
                            }
                        }
                // ---- F: configuration instructions (load step / load modulo / bank exchange) followed by a step
                for (int unit = 0; unit < 8; ++unit)
                    for (int cmd = 0; cmd < 2; ++cmd)
                        if (mine())
                            e.ConfigureLayer(unit, cmd);
                // ---- D/E: all 65536 first words ----
                for (u32 op = idx; op < 0x10000; op += cnt) {
                    DecodeInfo d;
                    e.impl.api->decode((u16)op, &d);
                    if (d.rows_matching != 1)
                        continue;
                    e.GenericStep((u16)op, d);
                    e.GenericBitRev((u16)op, d);
                }
                blk.evaluations = local.evaluations;
                blk.transitions = local.transitions;
                blk.traces = local.traces_validated;
                blk.states = local.evaluations;
                blk.distinct = e.digests.size();
            },
            res);
    res.rule = "every addressing instruction form (modr, modr dmod, modr +-2, load/store [Rn], store [ArRn], modr with register pairs in its 4 "
               "modulo-disable variants) is executed on the real interpreter for: all 8 registers x every start value (every 3rd in the quick tier) x "
               "steps 0,+1,-1,+2,-2 x bit-reverse x compatibility mode x end-pointer mode; all 128 7-bit steps x 7 16-bit steps x stp16 x mode; all "
               "512 modulo values x all offsets 0..mask x 3 high-bit patterns x both modes x +1,-1,0; every ar/arp selector and all 8 step codes; the "
               "new register value, untouched registers and the logged access address are compared with linear / cyclic-walk / bit-reverse arithmetic; "
               "configuration instructions (load stepi/stepj with all 128 immediates, load modi/modj, banke of cfgi/cfgj with and without the 16-bit step) followed by a step in the same call; "
               "sequences of two steps inside one Run call (11 step-kind pairs x 12 modulo values x 8 steps x all offsets x modes): the second step follows the statement from "
               "wherever the first left the register; generic layers over all 65536 first words: every form that names address registers with steps (Rn/R45/R0123+step, ar- and arp-selected "
               "registers) steps them as configured (4 selector configurations), and every form that accesses memory at an address register's value "
               "accesses the bit-reversed address when bit reversal is enabled for that register";
    res.bound = "all 65536 start values; all 512 modulo values and all offsets; all 128 7-bit steps; all ar/arp selector and step-code combinations";
    res.assumptions = {"with modulo enabled only +1/-1 (and zero) steps are defined by the statement; other steps are only checked for the alignment guarantee",
                       "bit reversal together with modulo, and one instruction using the same register twice, are outside the statement",
                       "the configured step (+s) is the sign-extended 7-bit step, or the 16-bit step register when bit-reversing or when stp16 is set in Teak mode"};
    res.AddSample("modr r3+ with modi=0x1FF, r3=0xFFFF (offset 0x1FF = mod): wraps to 0xFE00 in both modes");
    res.AddSample("mov [r2]+, y0 with br2=1, m2=0, r2=0x0100: memory accessed at 0x0080 (bit-reversed), r2 becomes 0x0101");
}
} // namespace c10
