// Engine binary for the instruction-level checks.  Talks to libimpl.so / libref.so through isa_abi.h only.
#include "c01_diff.h"
#include "c03_alu.h"
#include "c04_mulshift.h"
#include "c08_stack.h"
#include "c09_loops.h"
#include "c10_addr.h"
#include "c20_words.h"

int main(int argc, char** argv) {
    verif::Args args = verif::Args::Parse(argc, argv);
    const bool shard_replay = verif::ParseShardReplay(args);
    verif::Result res;
    res.tier = args.tier;
    res.seed = args.seed;
    if (!args.replay.empty()) {
        if (args.replay.rfind("c01 run", 0) == 0)
            return c01::RunReplay(args.replay, res);
        if (args.replay.rfind("c01 gen", 0) == 0)
            return c01::RunGenReplay(args.replay, res);
        if (args.replay.rfind("c20", 0) == 0)
            return c20::RunReplay(args.replay, res);
        if (args.replay.rfind("c10", 0) == 0)
            return c10::RunReplay(args.replay, res);
        if (args.replay.rfind("c09", 0) == 0)
            return c09::RunReplay(args.replay, res);
        if (args.replay.rfind("c08", 0) == 0)
            return c08::RunReplay(args.replay, res);
        if (args.replay.rfind("c04", 0) == 0)
            return c04::RunReplay(args.replay, res);
        if (args.replay.rfind("c03", 0) == 0)
            return c03::RunReplay(args.replay, res);
        return 2;
    }
    if (args.sub == "c20") {
        c20::Run(args, res);
    } else if (args.sub == "c10") {
        c10::Run(args, res);
    } else if (args.sub == "c09") {
        c09::Run(args, res);
    } else if (args.sub == "c08") {
        c08::Run(args, res);
    } else if (args.sub == "c04") {
        c04::Run(args, res);
    } else if (args.sub == "c03") {
        c03::Run(args, res);
    } else if (args.sub == "c01") {
        c01::Run(args, res);
    } else {
        std::fprintf(stderr, "usage: isa c01|... [--tier t]\n");
        return 2;
    }
    return verif::Finish(args, res, shard_replay);
}
