// C01 — (1) differential against the frozen hardware-validated reference over all 65 536 opcodes x second
// words x bounded state alphabet; (2) the hardware test generator with a harness-owned choice engine.
#pragma once
#include "isa_common.h"

namespace c01 {
using namespace isa;

struct Dev {
    int field; // index into fields, -1 = none
    u64 value;
};

struct Ctx {
    Lib impl, ref;
    std::vector<Field> fields;
    std::vector<std::pair<std::string, VState>> bases;
    Ctx() {
        impl = LoadLib("libimpl.so");
        ref = LoadLib("libref.so");
        if (impl.api->abi_version() != ref.api->abi_version()) {
            std::fprintf(stderr, "glue ABI mismatch\n");
            std::exit(2);
        }
        fields = AllFields();
        bases = BaseStates(ref, fields);
    }
};

struct CaseOut {
    VState s;
    RunResult r;
};

// compare one execution; returns "" if conforming, else the differing component
inline std::string Compare(const Ctx& c, const CaseOut& im, const CaseOut& rf, u32 pc0) {
    if (rf.r.outcome != OUT_OK)
        return ""; // the reference does not complete: no requirement
    if (im.r.outcome != OUT_OK)
        return std::string("outcome=") + OutcomeName(im.r.outcome);
    std::string d = FirstDiff(c.fields, im.s, rf.s);
    if (!d.empty())
        return d;
    if (im.r.write_digest != rf.r.write_digest)
        return "memory-writes";
    return "";
}

struct Sweep {
    Ctx& c;
    Result& res;
    DigestSet digests; // distinct (opcode, outcome) pairs with a non-trivial effect
    u64 ref_incomplete = 0;
    Sweep(Ctx& cx, Result& r) : c(cx), res(r) {}

    // returns true if the case conformed
    bool One(u16 op, u16 exp, int two_word, const VState& st, int base_idx, const Dev& d1, const Dev& d2, const DecodeInfo& di, int pattern) {
        u16 words[2] = {op, exp};
        CaseOut im, rf;
        c.ref.api->run(c.ref.m, &st, words, 2, 1, &rf.s, &rf.r);
        c.impl.api->run(c.impl.m, &st, words, 2, 1, &im.s, &im.r);
        ++res.evaluations;
        ++res.transitions;
        ++res.traces_validated;
        if (rf.r.outcome != OUT_OK)
            ++ref_incomplete;
        else if (rf.s.pc != st.pc + 1 + (di.need_expansion ? 1 : 0) || rf.r.write_digest || std::memcmp(&rf.s.a, &st.a, sizeof(VState) - offsetof(VState, a)))
            digests.insert(((u64)op << 48) ^ Fnv(&rf.s, sizeof(VState), rf.r.write_digest));
        std::string diff = Compare(c, im, rf, st.pc);
        if (diff.empty())
            return true;
        std::string devs;
        if (d1.field >= 0)
            devs += c.fields[d1.field].name;
        if (d2.field >= 0)
            devs += "+" + c.fields[d2.field].name;
        std::string key = Fmt("c01:%s:%s", di.name, diff.c_str());
        res.AddViolation(key,
                         Fmt("opcode %04X %04X (%s) from base '%s' with %s, memory pattern %d: implementation %s=%llX (outcome %s%s%s), reference %llX",
                             op, exp, di.name, c.bases[base_idx].first.c_str(), StateStr(c.fields, c.bases[base_idx].second, st).c_str(), pattern,
                             diff.c_str(),
                             [&]() -> unsigned long long {
                                 for (auto& f : c.fields)
                                     if (f.name == diff)
                                         return GetField(im.s, f);
                                 return im.r.write_digest;
                             }(),
                             OutcomeName(im.r.outcome), im.r.outcome == OUT_ASSERT ? ": " : "", im.r.outcome == OUT_ASSERT ? im.r.assert_expr : "",
                             [&]() -> unsigned long long {
                                 for (auto& f : c.fields)
                                     if (f.name == diff)
                                         return GetField(rf.s, f);
                                 return rf.r.write_digest;
                             }()),
                         Fmt("c01 run %u %u %d %s", op, exp, pattern, SerState(st).c_str()));
        return false;
    }
};

// --- the state set of a tier -----------------------------------------------------------------------------
struct StateSet {
    struct Item {
        VState s;
        int base;
        Dev d1, d2;
        bool full_second_words;
    };
    std::vector<Item> items;
};
inline StateSet BuildStates(const Ctx& c, bool thorough) {
    StateSet ss;
    size_t nb = c.bases.size();
    for (size_t b = 0; b < nb; ++b)
        ss.items.push_back({c.bases[b].second, (int)b, {-1, 0}, {-1, 0}, true});
    // 1-deviations: every value of every field's domain, on base 0 (all bases in the thorough tier)
    for (size_t b = 0; b < (thorough ? nb : 1); ++b)
        for (size_t fi = 0; fi < c.fields.size(); ++fi) {
            const Field& f = c.fields[fi];
            for (u64 v : Domain(f.kind, thorough)) {
                if (GetField(c.bases[b].second, f) == v)
                    continue;
                VState s = c.bases[b].second;
                SetField(s, f, v);
                ss.items.push_back({s, (int)b, {(int)fi, v}, {-1, 0}, false});
            }
        }
    // operand relations (ties): the accumulators / factor registers equal to the memory word an address register points at, and equal to each
    // other - comparisons that distinguish "greater" from "greater or equal" differ only here, and no independent value alphabet hits a tie
    c.impl.api->fill_memory(c.impl.m, 0);
    for (size_t b = 0; b < (thorough ? nb : 2); ++b) {
        const VState& bs = c.bases[b].second;
        for (int k = 0; k < 8; ++k) {
            const u16 w = c.impl.api->peek_data(c.impl.m, bs.r[k]);
            for (int form = 0; form < 3; ++form) {
                VState s = bs;
                const u64 v = form == 0 ? (u64)(long long)(short)w : form == 1 ? (u64)((long long)(short)w << 16) : (u64)w;
                s.a[0] = s.a[1] = s.b[0] = s.b[1] = v; // 40-bit values are kept sign-extended to 64 bits
                if (form == 2)
                    s.x[0] = s.x[1] = s.y[0] = s.y[1] = w;
                ss.items.push_back({s, (int)b, {-1, 0}, {-1, 0}, false});
            }
        }
        for (u64 v : {(u64)0x0012345678ull, (u64)0xFFFFFFFFFFFFFFFBull, (u64)0}) {
            VState s = bs;
            s.a[0] = s.a[1] = s.b[0] = s.b[1] = v;
            ss.items.push_back({s, (int)b, {-1, 0}, {-1, 0}, false});
        }
    }
    if (!thorough) {
        // quick tier: the two richest other bases with the visible (non-shadow) 1-bit/mode deviations
        for (size_t b : {(size_t)2, (size_t)3})
            for (size_t fi = 0; fi < c.fields.size(); ++fi) {
                const Field& f = c.fields[fi];
                if (f.shadow || !(f.kind == K_BIT || f.kind == K_2BIT))
                    continue;
                for (u64 v : Domain(f.kind, false)) {
                    if (GetField(c.bases[b].second, f) == v)
                        continue;
                    VState s = c.bases[b].second;
                    SetField(s, f, v);
                    ss.items.push_back({s, (int)b, {(int)fi, v}, {-1, 0}, false});
                }
            }
    }
    return ss;
}

inline int RunReplay(const std::string& r, Result& res) {
    QuietStdout quiet;
    Ctx c;
    unsigned op, exp;
    int pattern, n = 0;
    if (std::sscanf(r.c_str(), "c01 run %u %u %d %n", &op, &exp, &pattern, &n) != 3)
        return 2;
    VState st;
    if (!ParseState(r.substr(n), st))
        return 2;
    c.impl.api->fill_memory(c.impl.m, pattern);
    c.ref.api->fill_memory(c.ref.m, pattern);
    DecodeInfo di;
    c.ref.api->decode((u16)op, &di);
    Sweep sw(c, res);
    // the base index is only used for printing; find the closest base
    int best = 0;
    size_t bestd = ~0u;
    for (size_t b = 0; b < c.bases.size(); ++b) {
        size_t dcount = 0;
        for (auto& f : c.fields)
            dcount += GetField(c.bases[b].second, f) != GetField(st, f);
        if (dcount < bestd)
            bestd = dcount, best = (int)b;
    }
    sw.One((u16)op, (u16)exp, di.need_expansion, st, best, {-1, 0}, {-1, 0}, di, pattern);
    for (auto& v : res.violations)
        quiet.Say(Fmt("  %s\n    %s\n", v.key.c_str(), v.text.c_str()));
    return res.violations.empty() ? 0 : 1;
}

// ---- clause 2: the generator -----------------------------------------------------------------------------
struct GenSweep {
    Ctx& c;
    Result& res;
    std::unordered_set<u64> vectors;
    GenSweep(Ctx& cx, Result& r) : c(cx), res(r) {}
    void One(u16 op, u64 def, const std::vector<int32_t>& idx, const std::vector<u64>& val, const DecodeInfo& di) {
        GenResult g;
        c.impl.api->gen_run(c.impl.m, op, def, (int)idx.size(), idx.data(), val.data(), &g);
        if (!g.enabled)
            return;
        ++res.evaluations;
        ++res.transitions;
        ++res.traces_validated;
        vectors.insert(g.state_digest ^ ((u64)op << 40));
        std::string why;
        if (g.outcome != OUT_OK && g.outcome != OUT_UNIMPLEMENTED)
            why = Fmt("aborts (%s%s%s)", OutcomeName(g.outcome), g.outcome == OUT_ASSERT ? ": " : "", g.assert_expr);
        else if (g.outcome == OUT_OK && g.pc_after != 1u + (g.need_expansion ? 1 : 0))
            why = Fmt("pc advanced to %X instead of %d", g.pc_after, 1 + (g.need_expansion ? 1 : 0));
        else if (g.outcome == OUT_OK && g.bad_accesses)
            why = Fmt("%s data address %04X outside the two compared windows", g.first_bad_is_write ? "writes" : "reads", g.first_bad_addr);
        if (why.empty())
            return;
        std::string cls = g.outcome != OUT_OK ? "abort" : g.bad_accesses ? "window" : "pc";
        std::string rp = Fmt("c01 gen %u %llu", op, (unsigned long long)def);
        for (size_t i = 0; i < idx.size(); ++i)
            rp += Fmt(" %d:%llu", idx[i], (unsigned long long)val[i]);
        res.AddViolation(Fmt("c01:generator:%s:%s", di.name, cls.c_str()),
                         Fmt("test vector for opcode %04X (%s), expansion %04X, default answer %llX with %zu deviating draws: %s", op, di.name, g.expand,
                             (unsigned long long)def, idx.size(), why.c_str()),
                         rp);
    }
};

inline int RunGenReplay(const std::string& r, Result& res) {
    QuietStdout quiet;
    Ctx c;
    unsigned op;
    unsigned long long def;
    int n = 0;
    if (std::sscanf(r.c_str(), "c01 gen %u %llu%n", &op, &def, &n) != 2)
        return 2;
    std::vector<int32_t> idx;
    std::vector<u64> val;
    const char* p = r.c_str() + n;
    int i, used;
    unsigned long long v;
    while (std::sscanf(p, " %d:%llu%n", &i, &v, &used) == 2) {
        idx.push_back(i), val.push_back(v);
        p += used;
    }
    c.impl.api->fill_memory(c.impl.m, 0);
    DecodeInfo di;
    c.impl.api->decode((u16)op, &di);
    GenSweep gs(c, res);
    gs.One((u16)op, def, idx, val, di);
    for (auto& x : res.violations)
        quiet.Say(Fmt("  %s\n    %s\n", x.key.c_str(), x.text.c_str()));
    return res.violations.empty() ? 0 : 1;
}

inline void Run(const Args& args, Result& res) {
    res.property = "C01";
    bool th = args.thorough();
    Ctx c; // libraries are loaded once; workers fork afterwards
    StateSet ss = BuildStates(c, th);
    // choice alphabet for the generator's random draws: value = floor(x * range / 2^64) + min
    const std::vector<u64> K = {1ull, ~0ull, 1ull << 63, (1ull << 63) - 1, 0x5555555555555555ull, 0xAAAAAAAAAAAAAAAAull, Mix(args.seed * 2 + 1) | 1};
    Clock clock;
    double deadline = args.deadline_s > 0 ? args.deadline_s : (th ? 1500 : 240);
    RunPool(args.jobs,
            [&](int idx, int cnt, WorkerBlock& blk, Result& local) {
                QuietStdout quiet;
                Sweep sw(c, local);
                int pattern = 0;
                c.impl.api->fill_memory(c.impl.m, pattern);
                c.ref.api->fill_memory(c.ref.m, pattern);
                u64 done_ops = 0;
                bool capped = false;
                for (u32 op = idx; op < 0x10000; op += cnt) {
                    if (clock.Sec() > deadline) {
                        capped = true;
                        break;
                    }
                    DecodeInfo di;
                    c.ref.api->decode((u16)op, &di);
                    std::snprintf(blk.current, sizeof(blk.current), "opcode %04X", op);
                    for (auto& it : ss.items) {
                        for (u16 e : SecondWords(di.need_expansion, it.full_second_words))
                            sw.One((u16)op, e, di.need_expansion, it.s, it.base, it.d1, it.d2, di, pattern);
                    }
                    ++done_ops;
                }
                // data memory content as a state field: the other fill patterns on the base states
                for (int pat = 1; pat <= 5 && !capped; ++pat) {
                    c.impl.api->fill_memory(c.impl.m, pat);
                    c.ref.api->fill_memory(c.ref.m, pat);
                    for (u32 op = idx; op < 0x10000; op += cnt) {
                        DecodeInfo di;
                        c.ref.api->decode((u16)op, &di);
                        for (size_t b = 0; b < (th ? c.bases.size() : 3); ++b)
                            sw.One((u16)op, 0x6420, di.need_expansion, c.bases[b].second, (int)b, {-1, 0}, {-1, 0}, di, pat);
                    }
                }
                // ---- clause 1b: the addressing configuration as a cluster: step x modulo x modes x register position, all at once
                // (stepping rules depend on several of these fields together; one-field deviations cannot reach e.g. step = -64 with mod = 1)
                if (!capped) {
                    c.impl.api->fill_memory(c.impl.m, 0);
                    c.ref.api->fill_memory(c.ref.m, 0);
                    const u16 mods[] = {0, 1, 2, 3, 4, 5, 7, 8, 0x0F, 0x10, 0x1F, 0x3F, 0x40, 0x7F, 0x80, 0xFF, 0x100, 0x1FF};
                    u32 job = 0;
                    for (u16 mod : mods)
                        for (u16 s7 = 0; s7 < 128; ++s7) {
                            if ((job++ % cnt) != (u32)idx)
                                continue;
                            u16 mask = 0;
                            while (mask < mod)
                                mask = (u16)((mask << 1) | 1);
                            for (int cfg = 0; cfg < 16; ++cfg)
                                for (int unit : {0, 3, 5}) {
                                    VState st = c.bases[0].second;
                                    st.modi = st.modj = mod, st.stepi = st.stepj = s7;
                                    st.stepi0 = st.stepj0 = (cfg & 1) ? 0xFFF9 : 0x0005;
                                    st.cmd = (cfg >> 1) & 1, st.stp16 = (cfg >> 2) & 1;
                                    st.m[unit] = (cfg >> 3) & 1, st.br[unit] = 0;
                                    for (u16 r : {(u16)0x6400, (u16)(0x6400 | 1), (u16)(0x6400 | mod), (u16)((0x65FF & ~mask) | mod), (u16)((0x65FF & ~mask) | (mod ? mod - 1 : 0)),
                                                  (u16)(0x6400 | ((mod + 1) & mask))}) {
                                        st.r[unit] = r;
                                        for (u16 op : {(u16)(0x0080 | unit | (3 << 3)), (u16)(0x0080 | unit | (1 << 3)), (u16)(0x0080 | unit | (2 << 3)), (u16)(0x4990 | unit),
                                                       (u16)(0x5DA0 | unit), (u16)(0x1C00 | (7 << 5) | unit | (3 << 3))}) {
                                            DecodeInfo di;
                                            c.ref.api->decode(op, &di);
                                            sw.One(op, 0, 0, st, 0, {-1, 0}, {-1, 0}, di, 0);
                                        }
                                    }
                                }
                        }
                }
                // ---- clause 1b': the offset (second-word) address of the ar/arp-configured forms as a cluster: every form with an ar/arp operand x
                // modulo value x offset code x step code x modulo/bit-reverse mode x TeakLite mode x pointer position (the "+1 with wrap" rule looks
                // at the modulo value, the mode bits and the pointer's low bits together)
                if (!capped) {
                    c.impl.api->fill_memory(c.impl.m, 3);
                    c.ref.api->fill_memory(c.ref.m, 3);
                    std::vector<std::pair<u16, DecodeInfo>> forms;
                    {
                        std::set<int> rows;
                        for (u32 op = 0; op < 0x10000; ++op) {
                            DecodeInfo di;
                            c.ref.api->decode((u16)op, &di);
                            if (di.row < 0 || rows.count(di.row))
                                continue;
                            bool ar = false;
                            for (int a = 0; a < di.nargs; ++a)
                                ar |= std::strncmp(di.arg_types[a], "Ar", 2) == 0;
                            if (ar) {
                                rows.insert(di.row);
                                forms.push_back({(u16)op, di});
                            }
                        }
                    }
                    const u16 mods[] = {0, 1, 2, 3, 4, 5, 7, 8, 0x0F, 0x10, 0x1F, 0x3F, 0x40, 0x7F, 0x80, 0xFF, 0x100, 0x1FF};
                    u32 job = 0;
                    for (u16 mod : mods)
                        for (int unit : {0, 3, 5})
                            for (u16 off = 0; off < 4; ++off) {
                                if ((job++ % cnt) != (u32)idx)
                                    continue;
                                u16 mask = 0;
                                while (mask < mod)
                                    mask = (u16)((mask << 1) | 1);
                                for (u16 stp : {(u16)0, (u16)1, (u16)2})
                                    for (int cfg = 0; cfg < 8; ++cfg) {
                                        VState st = c.bases[0].second;
                                        st.modi = st.modj = mod;
                                        st.cmd = cfg & 1;
                                        for (int u = 0; u < 8; ++u)
                                            st.m[u] = (cfg >> 1) & 1, st.br[u] = (cfg >> 2) & 1;
                                        for (int k = 0; k < 4; ++k) {
                                            st.arrn[k] = (u16)unit;
                                            st.arprni[k] = (u16)(unit < 4 ? unit : 1), st.arprnj[k] = (u16)(unit >= 4 ? unit - 4 : 2);
                                            st.arstep[k] = st.arpstepi[k] = st.arpstepj[k] = stp;
                                            st.aroffset[k] = st.arpoffseti[k] = st.arpoffsetj[k] = off;
                                        }
                                        for (u16 r : {(u16)0x6400, (u16)(0x6400 | 1), (u16)(0x6400 | mod), (u16)((0x65FF & ~mask) | mod), (u16)((0x65FF & ~mask) | (mod ? mod - 1 : 0)),
                                                      (u16)(0x6400 | ((mod + 1) & mask))}) {
                                            for (int u = 0; u < 8; ++u)
                                                st.r[u] = (u16)(r + (u == unit ? 0 : 0x200 * (u + 1)));
                                            for (auto& f : forms)
                                                sw.One(f.first, 0x6480, f.second.need_expansion, st, 0, {-1, 0}, {-1, 0}, f.second, 3);
                                        }
                                    }
                            }
                }
                // ---- clause 1c: the loop state as a cluster: single-instruction repeat x block repeat x where the block ends, for every opcode
                // (the sequencer's rep and bkrep bookkeeping interact on the same fetch; one-field deviations keep them apart)
                if (!capped) {
                    const VState& b0 = c.bases[0].second;
                    std::vector<VState> loops;
                    for (int rep = 0; rep < 2; ++rep)
                        for (u16 repc : {(u16)0, (u16)2})
                            for (int depth = 0; depth < 3; ++depth)
                                for (int endk = 0; endk < 3; ++endk)
                                    for (u16 lc : {(u16)0, (u16)3}) {
                                        if (depth == 0 && (endk || lc))
                                            continue;
                                        if (!rep && repc)
                                            continue;
                                        if (!rep && depth == 0)
                                            continue;
                                        VState st = b0;
                                        st.rep = (u16)rep, st.repc = repc;
                                        st.lp = depth > 0, st.bcn = (u16)depth;
                                        st.bk[0] = {b0.pc - 0x40, b0.pc + 0x40, 1, 0};
                                        if (depth)
                                            st.bk[depth - 1] = {b0.pc - 3, b0.pc + (endk == 0 ? 0 : endk == 1 ? 1 : 5), lc, 0};
                                        loops.push_back(st);
                                    }
                    for (u32 op = idx; op < 0x10000; op += cnt) {
                        DecodeInfo di;
                        c.ref.api->decode((u16)op, &di);
                        for (auto& st : loops)
                            sw.One((u16)op, 0x6420, di.need_expansion, st, 0, {-1, 0}, {-1, 0}, di, 0);
                    }
                }
                blk.counters[0] = done_ops;
                blk.counters[1] = sw.ref_incomplete;
                u64 clause1_evals = local.evaluations;
                // ---- clause 2: generator ----
                c.impl.api->fill_memory(c.impl.m, 0);
                GenSweep gs(c, local);
                for (u32 op = idx; op < 0x10000 && !capped; op += cnt) {
                    DecodeInfo di;
                    c.impl.api->decode((u16)op, &di);
                    GenResult probe;
                    c.impl.api->gen_run(c.impl.m, (u16)op, 1, 0, nullptr, nullptr, &probe);
                    if (!probe.enabled)
                        continue;
                    ++blk.counters[2];
                    int draws = probe.draws;
                    for (u64 def : K) {
                        gs.One((u16)op, def, {}, {}, di);
                        if (!th && def != K[0] && def != K[1] && def != K[2])
                            continue;
                        // single deviations: every register-shaping draw (all draws before the two 512-word
                        // memory fills and after them), a stride of the memory-word draws
                        for (int i = 0; i < draws; ++i) {
                            bool mem_word = i >= 40 && i < draws - 24;
                            if (mem_word && (i % (th ? 16 : 128)) != 0)
                                continue;
                            for (u64 v : {K[0], K[1], K[2], K[4]}) {
                                if (v == def)
                                    continue;
                                gs.One((u16)op, def, {i}, {v}, di);
                            }
                        }
                    }
                    if (th) {
                        // pairs of deviations among the address-shaping draws at the end (r[i] offsets, expansion)
                        for (int i = draws - 24; i < draws; ++i)
                            for (int j = i + 1; j < draws; ++j)
                                for (u64 v : {K[0], K[1]})
                                    for (u64 w : {K[0], K[1]})
                                        gs.One((u16)op, K[2], {i, j}, {v, w}, di);
                    }
                }
                blk.evaluations = local.evaluations;
                blk.transitions = local.transitions;
                blk.traces = local.traces_validated;
                blk.states = clause1_evals;
                blk.distinct = sw.digests.size() + gs.vectors.size();
                blk.counters[3] = gs.vectors.size();
                blk.capped = capped;
            },
            res);
    res.rule = Fmt("clause 1: every 16-bit opcode x second words (12 values on the 8 base states, 3 under deviations; 2 for one-word opcodes) x "
                   "state set (%zu states: 8 bases + every 1-field deviation over the per-kind boundary domains%s) is executed by one Run(1) "
                   "in the implementation and in the frozen hardware-validated reference library; where the reference completes, the outcome, "
                   "every register-file field incl. hidden banks, pc and the multiset of memory writes must be equal; plus 5 data-memory fill "
                   "patterns on the base states. clause 2: for every opcode the real generator enables, its RNG is replaced by a choice "
                   "engine; all default answers K and every single deviation at the register-shaping draws (stride over the 1024 memory-word "
                   "draws) produce vectors that are loaded as test_verifier does and run: no abort, pc = 1+NeedExpansion, data accesses only "
                   "inside the two compared windows; distinct = distinct non-trivial (opcode, result) pairs + distinct generated vectors",
                   ss.items.size(), th ? " on all bases" : " on base 0, bit/mode deviations on two more bases");
    res.bound = Fmt("all 65536 opcodes; %zu states per opcode; addressing cluster: 18 modulo values x 128 steps x 16 mode combinations x 6 positions x 3 registers x 6 stepping instructions; offset cluster: every ar/arp-operand form x 18 modulo values x 4 offset codes x 3 step codes x 8 mode combinations x 6 positions x 3 registers; loop cluster: every opcode x 52 rep/bkrep state combinations; generator: %zu default answers, 1-deviations%s", ss.items.size(), K.size(),
                    th ? ", 2-deviations over the last 24 draws" : "");
    res.assumptions = {"the frozen reference in /verif/ref (origin and sha256 in ref/ORIGIN, ref/SHA256SUMS) is the hardware-validated semantics",
                       "states outside the declared alphabet are not visited; prpage fixed at 0 (C18 covers the rest)",
                       "MMIO-window data addresses abort deliberately in the verifier wiring of both libraries (no requirement)"};
    res.AddSample("opcode 9B48 (shfi) second word 0000 from base 'negative-acc,saturating' with sv=8000");
    res.AddSample("generator: opcode 8080 (alm [Rn]) default answer 2^63, draw #1067 (r[i] window offset) answered 2^64-1");
}
} // namespace c01
