// C ABI between the isa harness and the two glue libraries (libimpl.so compiled against /repo,
// libref.so compiled against the frozen /verif/ref).  Plain data only: the harness never includes
// a repository header, so the two copies of the (global-namespace) decoder templates never meet.
#pragma once
#include <stdint.h>

extern "C" {

// Every named field of RegisterState, flattened in declaration order, followed by the hidden
// shadow slots (made visible behaviourally by the glue, see DESIGN section 3).
struct VState {
    uint32_t pc;
    uint16_t prpage, cpc, repc, repcs, rep, crep, bcn, lp;
    struct {
        uint32_t start, end;
        uint16_t lc, pad;
    } bk[4];
    uint64_t a[2], b[2], a1s, b1s;
    uint16_t ccnta, sat, sata, s, sv;
    uint16_t fz, fm, fn, fv, fe, fc0, fc1, flm, fvl, fr;
    uint16_t vtr0, vtr1;
    uint16_t x[2], y[2], hwm, pad0;
    uint32_t p[2];
    uint16_t pe[2], ps[2], p0h_cbs;
    uint16_t r[8], mixp, sp, page, pcmhi;
    uint16_t r0b, r1b, r4b, r7b;
    uint16_t stepi, stepj, modi, modj, stepi0, stepj0;
    uint16_t stepib, stepjb, modib, modjb, stepi0b, stepj0b;
    uint16_t m[8], br[8], stp16, cmd, epi, epj;
    uint16_t arstep[4], arpstepi[4], arpstepj[4], aroffset[4], arpoffseti[4], arpoffsetj[4];
    uint16_t arrn[4], arprni[4], arprnj[4];
    uint16_t ip[3], ipv, im[3], imv, ic[3], nimc, ie;
    uint16_t ou[5], iu[2], ext[4], mod0_unk_const;
    // one-way flag shadows (ShadowStore/ShadowRestore): flm fvl fe fc0 fc1 fv fn fm fz fr
    uint16_t sh_flags[10];
    // two-way swap shadows (ShadowSwap)
    uint16_t sw_pcmhi, sw_sat, sw_sata, sw_hwm, sw_s, sw_ps[2], sw_page, sw_stp16, sw_cmd;
    uint16_t sw_m[8], sw_br[8], sw_im[3], sw_imv, sw_epi, sw_epj;
    uint16_t sw_arrn[4], sw_arstep[4], sw_aroffset[4];
    uint16_t sw_arprni[4], sw_arprnj[4], sw_arpstepi[4], sw_arpstepj[4], sw_arpoffseti[4], sw_arpoffsetj[4];
    uint16_t pad1[3];
};

enum Outcome : int32_t {
    OUT_OK = 0,
    OUT_UNIMPLEMENTED = 1, // UnimplementedException
    OUT_ASSERT = 2,        // deliberate ASSERT / UNREACHABLE (hook 1)
    OUT_OOB = 3,           // memory observer saw a word address outside the 0x40000-word array (hook 2)
    OUT_OTHER = 4,         // any other C++ exception
};

struct Access {
    uint32_t addr; // word address in the shared memory (program: < 0x20000.., data: 0x20000 + ...)
    uint16_t value;
    uint16_t is_write;
};
#define VERIF_MAX_ACCESS 64
struct RunResult {
    int32_t outcome;
    int32_t n_access;      // total accesses (may exceed the log capacity)
    int32_t n_logged;
    int32_t assert_line;   // for OUT_ASSERT
    char assert_expr[96];
    struct Access log[VERIF_MAX_ACCESS];
    uint64_t write_digest; // order-independent digest of all (addr,value) writes
    uint64_t access_digest; // order-dependent digest of all accesses
};

#define VERIF_MAX_ARGS 24
struct DecodeInfo {
    char name[32];          // handler name ("undefined" when no row matches)
    int32_t row;            // index of the matching row in the decode table, -1 if none
    int32_t rows_matching;  // how many rows match (must be <= 1)
    int32_t need_expansion;
    uint16_t mask, expected; // of the matching row
    uint16_t unused;         // Unused<> bits of the row (from the table text)
    uint16_t unused2;        // unused bits of the second word (from the row's trailing comment "unusedN@P")
    int32_t nargs;
    int32_t args[VERIF_MAX_ARGS];      // operand storage / constant value
    char arg_types[VERIF_MAX_ARGS][24]; // operand type names (Ax, MemImm8, bool, SumBase ...), truncated
    int8_t arg_bits[VERIF_MAX_ARGS];    // operand width in bits (0 for compile-time constants)
};

struct GenResult {
    int32_t enabled;        // generator emits vectors for this opcode
    int32_t outcome;
    int32_t draws;          // random draws consumed
    uint16_t expand;
    uint16_t pad;
    uint32_t pc_after;
    int32_t need_expansion;
    int32_t bad_accesses;   // data accesses outside the two compared windows
    uint32_t first_bad_addr;
    int32_t first_bad_is_write;
    int32_t data_accesses;
    uint64_t state_digest;  // digest of the emitted TestCase (to count distinct vectors)
    char assert_expr[96];
    int32_t gen_expand_kind; // the generator's own view of the form: 0 no second word, 1 any second word, 2 a data address as second word
};

// the entry of the interpreter's own 65536-entry dispatch table for one word
struct DispatchInfo {
    char name[48];
    uint16_t mask, expected;
    int32_t need_expansion;
    int32_t matches; // the entry's matcher accepts the word
};

// The API every glue library exports
struct GlueApi {
    int (*abi_version)();
    void* (*create)();                       // a machine wired like src/test_verifier/main.cpp
    void (*fill_memory)(void* m, int pattern); // data memory initial content
    void (*default_state)(struct VState* out); // RegisterState() flattened
    // run `cycles` instructions starting at state `in` (in->pc is the start address) with `words`
    // placed at program address in->pc (restored afterwards); memory writes are undone afterwards
    void (*run)(void* m, const struct VState* in, const uint16_t* words, int nwords, int cycles, struct VState* out, struct RunResult* res);
    void (*decode)(uint16_t opcode, struct DecodeInfo* out);
    int (*row_count)();
    // pseudo-register access on a state: which in {st0,st1,st2,stt0,stt1,stt2,mod0..3,cfgi,cfgj,ar0,ar1,arp0..3,icr}
    uint16_t (*pseudo_get)(const struct VState* s, int which);
    void (*pseudo_set)(struct VState* s, int which, uint16_t value);
    // generator clause (impl library only; null in the reference)
    void (*gen_run)(void* m, uint16_t opcode, uint64_t default_answer, int ndev, const int32_t* dev_index, const uint64_t* dev_value, struct GenResult* out);
    // raw data memory access (word address in data space, bank 0/1 flattened to 0..0x1FFFF)
    uint16_t (*peek_data)(void* m, uint32_t addr);
    void (*poke_data)(void* m, uint32_t addr, uint16_t v);
    void (*dispatch)(void* m, uint16_t opcode, struct DispatchInfo* out);
};
const struct GlueApi* verif_glue_api();
}
