// Glue library: compiled twice with the SAME source - once against /repo (libimpl.so, with
// -DVERIF_WITH_GENERATOR) and once against the frozen /verif/ref (libref.so).  Built with
// -fvisibility=hidden -Wl,-Bsymbolic -fno-access-control; only verif_glue_api() is exported.
#include <new>
#include <algorithm>
#include <array>
#include <cstdio>
#include <cstring>
#include <memory>
#include <random>
#include <unordered_set>
#include <string>
#include <typeinfo>
#include <vector>
#include <cxxabi.h>

#include "core_timing.h"
#include "interpreter.h"
#include "memory_interface.h"
#include "mmio.h"
#include "shared_memory.h"

#include "isa_abi.h"

#define EXPORT __attribute__((visibility("default")))

// The verifier wiring has no MMIO region; an access inside the MMIO window is a deliberate abort.
namespace Teakra {
u16 MMIORegion::Read(u16) {
    Assert("mmio access (no MMIO region in the test_verifier wiring)", __FILE__, __LINE__);
}
void MMIORegion::Write(u16, u16) {
    Assert("mmio access (no MMIO region in the test_verifier wiring)", __FILE__, __LINE__);
}
} // namespace Teakra

namespace {
using namespace Teakra;

// ---- recording visitor ---------------------------------------------------------------------------
struct RecBase {
    DecodeInfo* out = nullptr;
    void Begin(const char* n) {
        std::strncpy(out->name, n, sizeof(out->name) - 1);
        out->nargs = 0;
    }
    template <typename T>
    static const char* TypeName() {
        static std::string s = [] {
            int st = 0;
            char* d = abi::__cxa_demangle(typeid(T).name(), nullptr, nullptr, &st);
            std::string r = d ? d : typeid(T).name();
            free(d);
            return r;
        }();
        return s.c_str();
    }
    template <typename T>
    void Arg(T v) {
        if (out->nargs >= VERIF_MAX_ARGS)
            return;
        int i = out->nargs++;
        if constexpr (std::is_enum_v<T> || std::is_integral_v<T>) {
            out->args[i] = (int)v;
            out->arg_bits[i] = 0;
        } else {
            out->args[i] = (int)v.storage;
            out->arg_bits[i] = (int8_t)T::Bits;
        }
        std::strncpy(out->arg_types[i], TypeName<T>(), sizeof(out->arg_types[i]) - 1);
    }
};
#include VERIF_REC_HEADER

const std::vector<Matcher<Rec>>& RecTable() {
    static const auto t = GetDecodeTable<Rec>();
    return t;
}

void DoDecode(u16 opcode, DecodeInfo* out) {
    std::memset(out, 0, sizeof(*out));
    const auto& table = RecTable();
    out->row = -1;
    for (size_t i = 0; i < table.size(); ++i)
        if (table[i].Matches(opcode)) {
            if (out->rows_matching++ == 0)
                out->row = (int)i;
        }
    if (out->row < 0) {
        std::strcpy(out->name, "undefined");
        return;
    }
    const auto& mt = table[out->row];
    out->need_expansion = mt.NeedExpansion();
    out->mask = mt.mask;
    out->expected = mt.expected;
    if (out->row < kRowCount && std::strcmp(kRows[out->row].name, mt.GetName()) == 0) {
        out->unused = kRows[out->row].unused;
        out->unused2 = kRows[out->row].unused2;
    } else
        out->unused = 0xFFFF; // table text and table object disagree: flagged by the harness
    Rec rec;
    rec.out = out;
    mt.fn(rec, opcode, 0x0000);
}

// ---- state flattening ----------------------------------------------------------------------------
#define COPY_SCALARS(X)                                                                                                       \
    X(pc) X(prpage) X(cpc) X(repc) X(repcs) X(crep) X(bcn) X(lp) X(a1s) X(b1s) X(ccnta) X(sat) X(sata) X(s) X(sv) X(fz) X(fm) X(fn) \
    X(fv) X(fe) X(fc0) X(fc1) X(flm) X(fvl) X(fr) X(vtr0) X(vtr1) X(hwm) X(p0h_cbs) X(mixp) X(sp) X(page) X(pcmhi) X(r0b) X(r1b)     \
    X(r4b) X(r7b) X(stepi) X(stepj) X(modi) X(modj) X(stepi0) X(stepj0) X(stepib) X(stepjb) X(modib) X(modjb) X(stepi0b)       \
    X(stepj0b) X(stp16) X(cmd) X(epi) X(epj) X(ipv) X(imv) X(nimc) X(ie) X(mod0_unk_const)
#define COPY_ARRAYS(X)                                                                                                        \
    X(a) X(b) X(x) X(y) X(p) X(pe) X(ps) X(r) X(m) X(br) X(arstep) X(arpstepi) X(arpstepj) X(aroffset) X(arpoffseti) X(arpoffsetj) \
    X(arrn) X(arprni) X(arprnj) X(ip) X(im) X(ic) X(ou) X(iu) X(ext)

void VisibleToV(const RegisterState& r, VState& v) {
#define X(f) v.f = r.f;
    COPY_SCALARS(X)
#undef X
#define X(f)                                                                                                                  \
    for (size_t i = 0; i < r.f.size(); ++i)                                                                                  \
        v.f[i] = r.f[i];
    COPY_ARRAYS(X)
#undef X
    v.rep = r.rep ? 1 : 0;
    for (int i = 0; i < 4; ++i) {
        v.bk[i].start = r.bkrep_stack[i].start;
        v.bk[i].end = r.bkrep_stack[i].end;
        v.bk[i].lc = r.bkrep_stack[i].lc;
        v.bk[i].pad = 0;
    }
}
void VToVisible(const VState& v, RegisterState& r) {
#define X(f) r.f = v.f;
    COPY_SCALARS(X)
#undef X
#define X(f)                                                                                                                  \
    for (size_t i = 0; i < r.f.size(); ++i)                                                                                  \
        r.f[i] = v.f[i];
    COPY_ARRAYS(X)
#undef X
    r.rep = v.rep != 0;
    for (int i = 0; i < 4; ++i) {
        r.bkrep_stack[i].start = v.bk[i].start;
        r.bkrep_stack[i].end = v.bk[i].end;
        r.bkrep_stack[i].lc = v.bk[i].lc;
    }
}

void SaveState(const RegisterState& r, VState& v) {
    std::memset(&v, 0, sizeof(v));
    VisibleToV(r, v);
    RegisterState c = r;
    c.ShadowSwap();
    v.sw_pcmhi = c.pcmhi, v.sw_sat = c.sat, v.sw_sata = c.sata, v.sw_hwm = c.hwm, v.sw_s = c.s, v.sw_page = c.page, v.sw_stp16 = c.stp16;
    v.sw_cmd = c.cmd, v.sw_imv = c.imv, v.sw_epi = c.epi, v.sw_epj = c.epj;
    for (int i = 0; i < 2; ++i)
        v.sw_ps[i] = c.ps[i];
    for (int i = 0; i < 8; ++i)
        v.sw_m[i] = c.m[i], v.sw_br[i] = c.br[i];
    for (int i = 0; i < 3; ++i)
        v.sw_im[i] = c.im[i];
    for (int i = 0; i < 4; ++i) {
        v.sw_arrn[i] = c.arrn[i], v.sw_arstep[i] = c.arstep[i], v.sw_aroffset[i] = c.aroffset[i];
        v.sw_arprni[i] = c.arprni[i], v.sw_arprnj[i] = c.arprnj[i], v.sw_arpstepi[i] = c.arpstepi[i], v.sw_arpstepj[i] = c.arpstepj[i];
        v.sw_arpoffseti[i] = c.arpoffseti[i], v.sw_arpoffsetj[i] = c.arpoffsetj[i];
    }
    RegisterState d = r;
    d.ShadowRestore();
    const u16 fl[10] = {d.flm, d.fvl, d.fe, d.fc0, d.fc1, d.fv, d.fn, d.fm, d.fz, d.fr};
    for (int i = 0; i < 10; ++i)
        v.sh_flags[i] = fl[i];
}

void LoadState(const VState& v, RegisterState& r) {
    r = RegisterState();
    // 1. put the shadow values into the visible fields and push them into the shadow slots
    r.flm = v.sh_flags[0], r.fvl = v.sh_flags[1], r.fe = v.sh_flags[2], r.fc0 = v.sh_flags[3], r.fc1 = v.sh_flags[4];
    r.fv = v.sh_flags[5], r.fn = v.sh_flags[6], r.fm = v.sh_flags[7], r.fz = v.sh_flags[8], r.fr = v.sh_flags[9];
    r.ShadowStore();
    r.pcmhi = v.sw_pcmhi, r.sat = v.sw_sat, r.sata = v.sw_sata, r.hwm = v.sw_hwm, r.s = v.sw_s, r.page = v.sw_page, r.stp16 = v.sw_stp16;
    r.cmd = v.sw_cmd, r.imv = v.sw_imv, r.epi = v.sw_epi, r.epj = v.sw_epj;
    for (int i = 0; i < 2; ++i)
        r.ps[i] = v.sw_ps[i];
    for (int i = 0; i < 8; ++i)
        r.m[i] = v.sw_m[i], r.br[i] = v.sw_br[i];
    for (int i = 0; i < 3; ++i)
        r.im[i] = v.sw_im[i];
    for (int i = 0; i < 4; ++i) {
        r.arrn[i] = v.sw_arrn[i], r.arstep[i] = v.sw_arstep[i], r.aroffset[i] = v.sw_aroffset[i];
        r.arprni[i] = v.sw_arprni[i], r.arprnj[i] = v.sw_arprnj[i], r.arpstepi[i] = v.sw_arpstepi[i], r.arpstepj[i] = v.sw_arpstepj[i];
        r.arpoffseti[i] = v.sw_arpoffseti[i], r.arpoffsetj[i] = v.sw_arpoffsetj[i];
    }
    r.ShadowSwap(); // visible <-> shadow: the shadow slots now hold the wanted values
    // 2. the visible fields
    VToVisible(v, r);
}

// ---- machine ---------------------------------------------------------------------------------------
struct Machine;
thread_local Machine* g_m = nullptr;

struct Machine {
    CoreTiming core_timing;
    SharedMemory shared_memory;
    MemoryInterfaceUnit miu;
    MemoryInterface memory_interface{shared_memory, miu};
    RegisterState regs;
    Interpreter interpreter{core_timing, regs, memory_interface};
    std::vector<std::pair<u32, u16>> undo;
    RunResult* res = nullptr;

    Machine() {
        memory_interface.mmio = nullptr;
    }
    u16 Raw(u32 wa) const {
        return shared_memory.raw[wa * 2] | (shared_memory.raw[wa * 2 + 1] << 8);
    }
    void SetRaw(u32 wa, u16 v) {
        shared_memory.raw[wa * 2] = (u8)v;
        shared_memory.raw[wa * 2 + 1] = (u8)(v >> 8);
    }
    static void Hook(u32 wa, bool is_write, u16 value) {
        Machine* m = g_m;
        RunResult* r = m->res;
        if (wa >= 0x40000) {
            if (r->n_logged < VERIF_MAX_ACCESS)
                r->log[r->n_logged++] = {wa, value, (u16)(is_write ? 1 : 0)};
            ++r->n_access;
            throw (int)OUT_OOB;
        }
        u16 v = is_write ? value : m->Raw(wa);
        if (r->n_logged < VERIF_MAX_ACCESS)
            r->log[r->n_logged++] = {wa, v, (u16)(is_write ? 1 : 0)};
        ++r->n_access;
        u64 h = ((u64)wa << 20) ^ v ^ (is_write ? 0x8000000000ull : 0);
        h *= 0x9E3779B97F4A7C15ull;
        h ^= h >> 29;
        r->access_digest = (r->access_digest ^ h) * 0x100000001B3ull;
        if (is_write) {
            m->undo.push_back({wa, m->Raw(wa)});
            r->write_digest += h * 0xD6E8FEB86659FD93ull + (h >> 31);
        }
    }
};

u16 Pattern(int pattern, u32 a) {
    switch (pattern) {
    case 0: {
        u32 x = a * 0x9E3779B1u + 0x7F4A7C15u;
        x ^= x >> 15;
        x *= 0x2C1B3C6Du;
        x ^= x >> 12;
        return (u16)x;
    }
    case 1: return 0x0000;
    case 2: return 0xFFFF;
    case 3: return 0x8000;
    case 4: return 0x7FFF;
    case 5: return 0x0001;
    default: return (u16)(a * 7 + pattern);
    }
}

int AbiVersion() {
    return (int)sizeof(VState) * 1000 + (int)sizeof(RunResult) % 1000;
}
void* Create() {
    return new Machine();
}
void FillMemory(void* mp, int pattern) {
    Machine* m = static_cast<Machine*>(mp);
    for (u32 a = 0; a < 0x20000; ++a)
        m->SetRaw(0x20000 + a, Pattern(pattern, a));
    for (u32 a = 0; a < 0x20000; ++a)
        m->SetRaw(a, 0);
}
void DefaultState(VState* out) {
    RegisterState r;
    // the hidden ar/arp banks have no initialisers of their own in older trees: define them here
    SaveState(RegisterState(), *out);
}

void ExecGuarded(Machine* m, int cycles, RunResult* res) {
    g_m = m;
    m->res = res;
    verif_mem_hook = &Machine::Hook;
    try {
        m->interpreter.Run((u64)cycles);
        res->outcome = OUT_OK;
    } catch (const UnimplementedException&) {
        res->outcome = OUT_UNIMPLEMENTED;
    } catch (const VerifAssertion& a) {
        res->outcome = OUT_ASSERT;
        res->assert_line = a.line;
        std::strncpy(res->assert_expr, a.expression, sizeof(res->assert_expr) - 1);
    } catch (int code) {
        res->outcome = code;
    } catch (...) {
        res->outcome = OUT_OTHER;
    }
    verif_mem_hook = nullptr;
}

void Run(void* mp, const VState* in, const u16* words, int nwords, int cycles, VState* out, RunResult* res) {
    Machine* m = static_cast<Machine*>(mp);
    std::memset(res, 0, offsetof(RunResult, log));
    res->write_digest = 0;
    res->access_digest = 0;
    // every execution starts from a freshly constructed register file: a member the harness does not know about can then never
    // leak from one execution into the next (the interpreter object holds the 65536-entry decode table and is too expensive to
    // rebuild per execution; its private latches are reset explicitly below)
    m->regs = RegisterState{};
    LoadState(*in, m->regs);
    m->interpreter.idle = false;
    for (auto& p : m->interpreter.interrupt_pending)
        p = false;
    m->interpreter.vinterrupt_pending = false;
    // the vectored line's address/context latch is not part of the register file; a harness that wants a vectored
    // request (ipv=1) to have a defined target passes it in the trailing pad words: [0] = address low, [1] = 0x8000 |
    // context<<8 | address high.  Without the marker the latch is the reset one (address 0, no context switch).
    m->interpreter.vinterrupt_address = (in->pad1[1] & 0x8000) ? (in->pad1[0] | ((u32)(in->pad1[1] & 3) << 16)) : 0;
    m->interpreter.vinterrupt_context_switch = (in->pad1[1] & 0x8000) ? ((in->pad1[1] >> 8) & 1) : false;
    u32 base = in->pc & 0x3FFFF;
    std::vector<std::pair<u32, u16>> saved;
    for (int i = 0; i < nwords; ++i) {
        u32 wa = (base + i) & 0x3FFFF;
        saved.push_back({wa, m->Raw(wa)});
        m->SetRaw(wa, words[i]);
    }
    m->undo.clear();
    ExecGuarded(m, cycles, res);
    SaveState(m->regs, *out);
    for (size_t i = m->undo.size(); i-- > 0;)
        m->SetRaw(m->undo[i].first, m->undo[i].second);
    for (size_t i = saved.size(); i-- > 0;)
        m->SetRaw(saved[i].first, saved[i].second);
}

int RowCount() {
    return (int)RecTable().size();
}

template <typename F>
auto WithPseudo(int which, F f) {
    switch (which) {
    case 0: return f(st0{});
    case 1: return f(st1{});
    case 2: return f(st2{});
    case 3: return f(stt0{});
    case 4: return f(stt1{});
    case 5: return f(stt2{});
    case 6: return f(mod0{});
    case 7: return f(mod1{});
    case 8: return f(mod2{});
    case 9: return f(mod3{});
    case 10: return f(cfgi{});
    case 11: return f(cfgj{});
    case 12: return f(ar0{});
    case 13: return f(ar1{});
    case 14: return f(arp0{});
    case 15: return f(arp1{});
    case 16: return f(arp2{});
    case 17: return f(arp3{});
    default: return f(icr{});
    }
}
u16 PseudoGet(const VState* s, int which) {
    RegisterState r;
    LoadState(*s, r);
    return WithPseudo(which, [&](auto tag) { return r.Get<decltype(tag)>(); });
}
void PseudoSet(VState* s, int which, u16 value) {
    RegisterState r;
    LoadState(*s, r);
    WithPseudo(which, [&](auto tag) {
        r.Set<decltype(tag)>(value);
        return (u16)0;
    });
    SaveState(r, *s);
}
u16 PeekData(void* mp, u32 addr) {
    return static_cast<Machine*>(mp)->Raw(0x20000 + (addr & 0x1FFFF));
}
void PokeData(void* mp, u32 addr, u16 v) {
    static_cast<Machine*>(mp)->SetRaw(0x20000 + (addr & 0x1FFFF), v);
}
} // namespace

// ---- generator clause (implementation library only) ---------------------------------------------------
#ifdef VERIF_WITH_GENERATOR
struct VerifChoiceEngine {
    using result_type = unsigned long long;
    static constexpr result_type min() {
        return 0;
    }
    static constexpr result_type max() {
        return ~0ull;
    }
    explicit VerifChoiceEngine(unsigned) {}
    static thread_local unsigned long long default_answer;
    static thread_local int ndev;
    static thread_local const int32_t* dev_index;
    static thread_local const uint64_t* dev_value;
    static thread_local int draws;
    result_type operator()() {
        int i = draws++;
        for (int k = 0; k < ndev; ++k)
            if (dev_index[k] == i)
                return dev_value[k];
        // a rejected draw (Lemire) is asked again: never answer a constant 0
        return default_answer ? default_answer : 1;
    }
};
thread_local unsigned long long VerifChoiceEngine::default_answer = 1;
thread_local int VerifChoiceEngine::ndev = 0;
thread_local const int32_t* VerifChoiceEngine::dev_index = nullptr;
thread_local const uint64_t* VerifChoiceEngine::dev_value = nullptr;
thread_local int VerifChoiceEngine::draws = 0;

#define mt19937 conditional_t<true, ::VerifChoiceEngine, void>
#include "test_generator.cpp"
#undef mt19937

namespace {
thread_local GenResult* g_gen = nullptr;
void GenHook(u32 wa, bool is_write, u16) {
    GenResult* g = g_gen;
    if (wa >= 0x40000)
        throw (int)OUT_OOB;
    if (wa < 0x20000)
        return; // program fetch
    ++g->data_accesses;
    u32 d = wa - 0x20000;
    bool ok = (d >= TestSpaceX && d < (u32)TestSpaceX + TestSpaceSize) || (d >= TestSpaceY && d < (u32)TestSpaceY + TestSpaceSize);
    if (!ok && g->bad_accesses++ == 0) {
        g->first_bad_addr = d;
        g->first_bad_is_write = is_write;
    }
    if (is_write)
        g_m->undo.push_back({wa, g_m->Raw(wa)});
}

void GenRun(void* mp, u16 opcode, u64 default_answer, int ndev, const int32_t* dev_index, const u64* dev_value, GenResult* out) {
    using namespace Teakra::Test;
    Machine* m = static_cast<Machine*>(mp);
    std::memset(out, 0, sizeof(*out));
    static thread_local TestGenerator generator;
    auto decoded = Decode<TestGenerator>(opcode);
    Config config = decoded.call(generator, opcode, 0);
    out->enabled = config.enable;
    out->need_expansion = decoded.NeedExpansion();
    out->gen_expand_kind = config.expand == ExpandConfig::None ? 0 : config.expand == ExpandConfig::Any ? 1 : 2;
    if (!config.enable)
        return;
    VerifChoiceEngine::default_answer = default_answer;
    VerifChoiceEngine::ndev = ndev;
    VerifChoiceEngine::dev_index = dev_index;
    VerifChoiceEngine::dev_value = dev_value;
    VerifChoiceEngine::draws = 0;
    TestCase test_case{};
    test_case.before = config.GenerateRandomState();
    test_case.opcode = opcode;
    switch (config.expand) {
    case ExpandConfig::None: test_case.expand = 0; break;
    case ExpandConfig::Any: test_case.expand = Random::bit16(); break;
    case ExpandConfig::Memory: test_case.expand = TestSpaceX + (u16)Random::uniform(10, TestSpaceSize - 10); break;
    }
    out->draws = VerifChoiceEngine::draws;
    out->expand = test_case.expand;
    u64 h = 0xcbf29ce484222325ull;
    const u8* pb = reinterpret_cast<const u8*>(&test_case.before);
    for (size_t i = 0; i < sizeof(State); i += 2)
        h = (h ^ (pb[i] | (pb[i + 1] << 8))) * 0x100000001b3ull;
    out->state_digest = h ^ test_case.expand;
    // ---- load exactly as src/test_verifier/main.cpp does ----
    auto& regs = m->regs;
    auto& mi = m->memory_interface;
    regs.Reset();
    regs.a = test_case.before.a;
    regs.b = test_case.before.b;
    regs.p = test_case.before.p;
    regs.r = test_case.before.r;
    regs.x = test_case.before.x;
    regs.y = test_case.before.y;
    regs.stepi0 = test_case.before.stepi0;
    regs.stepj0 = test_case.before.stepj0;
    regs.mixp = test_case.before.mixp;
    regs.sv = test_case.before.sv;
    regs.repc = test_case.before.repc;
    regs.Lc() = test_case.before.lc;
    regs.Set<Teakra::cfgi>(test_case.before.cfgi);
    regs.Set<Teakra::cfgj>(test_case.before.cfgj);
    regs.Set<Teakra::stt0>(test_case.before.stt0);
    regs.Set<Teakra::stt1>(test_case.before.stt1);
    regs.Set<Teakra::stt2>(test_case.before.stt2);
    regs.Set<Teakra::mod0>(test_case.before.mod0);
    regs.Set<Teakra::mod1>(test_case.before.mod1);
    regs.Set<Teakra::mod2>(test_case.before.mod2);
    regs.Set<Teakra::ar0>(test_case.before.ar[0]);
    regs.Set<Teakra::ar1>(test_case.before.ar[1]);
    regs.Set<Teakra::arp0>(test_case.before.arp[0]);
    regs.Set<Teakra::arp1>(test_case.before.arp[1]);
    regs.Set<Teakra::arp2>(test_case.before.arp[2]);
    regs.Set<Teakra::arp3>(test_case.before.arp[3]);
    std::vector<std::pair<u32, u16>> saved;
    auto put = [&](u32 wa, u16 v) {
        saved.push_back({wa, m->Raw(wa)});
        m->SetRaw(wa, v);
    };
    for (u16 offset = 0; offset < TestSpaceSize; ++offset) {
        put(0x20000 + TestSpaceX + offset, test_case.before.test_space_x[offset]);
        put(0x20000 + TestSpaceY + offset, test_case.before.test_space_y[offset]);
    }
    put(0, test_case.opcode);
    put(1, test_case.expand);
    m->interpreter.idle = false;
    g_gen = out;
    g_m = m;
    m->undo.clear();
    Teakra::verif_mem_hook = &GenHook;
    try {
        m->interpreter.Run(1);
        out->outcome = OUT_OK;
    } catch (const Teakra::UnimplementedException&) {
        out->outcome = OUT_UNIMPLEMENTED;
    } catch (const Teakra::VerifAssertion& a) {
        out->outcome = OUT_ASSERT;
        std::strncpy(out->assert_expr, a.expression, sizeof(out->assert_expr) - 1);
    } catch (int code) {
        out->outcome = code;
    } catch (...) {
        out->outcome = OUT_OTHER;
    }
    Teakra::verif_mem_hook = nullptr;
    out->pc_after = regs.pc;
    for (size_t i = m->undo.size(); i-- > 0;)
        m->SetRaw(m->undo[i].first, m->undo[i].second);
    for (size_t i = saved.size(); i-- > 0;)
        m->SetRaw(saved[i].first, saved[i].second);
}
} // namespace
#endif

namespace {
template <class X>
constexpr auto HasDecoders(int) -> decltype((void)std::declval<X&>().decoders[0].GetName(), true) {
    return true;
}
template <class X>
constexpr bool HasDecoders(...) {
    return false;
}
template <class I, class F>
void DispatchEntry(I& interp, u16 opcode, F&& fill) {
    if constexpr (HasDecoders<I>(0))
        fill(interp.decoders[opcode]);
    else
        fill(Decode<I>(opcode));
}
void Dispatch(void* mp, u16 opcode, DispatchInfo* out) {
    auto* m = static_cast<Machine*>(mp);
    std::memset(out, 0, sizeof(*out));
    // the table the interpreter dispatches through; a tree that keeps no such table (e.g. decodes lazily) is asked through the decoder
    auto fill = [&](const auto& e) {
        std::strncpy(out->name, e.GetName(), sizeof(out->name) - 1);
        out->mask = e.mask, out->expected = e.expected;
        out->need_expansion = e.NeedExpansion();
        out->matches = e.Matches(opcode);
    };
    DispatchEntry(m->interpreter, opcode, fill);
}
} // namespace

extern "C" EXPORT const GlueApi* verif_glue_api() {
    static GlueApi api = {
        &AbiVersion, &Create, &FillMemory, &DefaultState, &Run, &DoDecode, &RowCount, &PseudoGet, &PseudoSet,
#ifdef VERIF_WITH_GENERATOR
        &GenRun,
#else
        nullptr,
#endif
        &PeekData, &PokeData, &Dispatch,
    };
    return &api;
}
