// C08 — calls/returns, push/pop round trips, interrupt entry/exit, context store/restore, bank exchanges:
// metamorphic identities checked on the real interpreter for every encoding pair x state alphabet.
#pragma once
#include "c03_alu.h"

namespace c08 {
using namespace isa;

struct Engine {
    Lib impl;
    std::vector<Field> fields;
    std::vector<std::pair<std::string, VState>> bases;
    std::vector<VState> states; // the state alphabet (already constrained to the property's preconditions)
    std::vector<std::string> state_names;
    Result& res;
    std::unordered_set<u64> digests;

    // level 0: replay (states supplied by the caller); 1: bases + every 1-field deviation of every base over the wide
    // domains; 2: additionally every 2-field deviation of base 0 over the boundary domains
    Engine(Result& r, int level) : res(r) {
        bool thorough = level >= 1;
        impl = LoadLib("libimpl.so");
        fields = AllFields();
        bases = BaseStates(impl, fields);
        impl.api->fill_memory(impl.m, 0);
        auto constrain = [](VState s) {
            s.sat = 1;            // saturation on read disabled (precondition of the statement)
            s.lp = 0, s.bcn = 0;  // no hardware loop active
            s.rep = 0;
            s.ie = 0;
            s.prpage = 0;
            s.ps[0] = s.ps[1] = 0; // products travel as their 32 stored bits
            s.pe[0] = (s.p[0] >> 31) & 1, s.pe[1] = (s.p[1] >> 31) & 1;
            s.sp = 0x0800;
            s.pc = 0x1000;
            return s;
        };
        for (size_t b = 0; b < bases.size(); ++b) {
            states.push_back(constrain(bases[b].second));
            state_names.push_back(bases[b].first);
        }
        for (size_t b = 0; b < (thorough ? bases.size() : 2); ++b)
            for (size_t fi = 0; fi < fields.size(); ++fi) {
                const Field& f = fields[fi];
                if (f.kind == K_PC || f.name == "sp")
                    continue;
                for (u64 v : Domain(f.kind, thorough)) {
                    VState s = bases[b == 1 ? 7 : b].second; // base 0 (reset+pointers) and the shadows-distinct base
                    if (thorough)
                        s = bases[b].second;
                    if (GetField(s, f) == v)
                        continue;
                    SetField(s, f, v);
                    states.push_back(constrain(s));
                    state_names.push_back(f.name + Fmt("=%llX", (unsigned long long)v));
                }
            }
        if (level >= 2) {
            std::vector<std::pair<size_t, u64>> dev;
            for (size_t fi = 0; fi < fields.size(); ++fi) {
                const Field& f = fields[fi];
                if (f.kind == K_PC || f.name == "sp")
                    continue;
                for (u64 v : Domain(f.kind, false))
                    if (GetField(bases[0].second, f) != v)
                        dev.push_back({fi, v});
            }
            for (size_t i = 0; i < dev.size(); ++i)
                for (size_t j = i + 1; j < dev.size(); ++j) {
                    if (dev[i].first == dev[j].first)
                        continue;
                    VState s = bases[0].second;
                    SetField(s, fields[dev[i].first], dev[i].second);
                    SetField(s, fields[dev[j].first], dev[j].second);
                    states.push_back(constrain(s));
                    state_names.push_back(fields[dev[i].first].name + Fmt("=%llX,", (unsigned long long)dev[i].second) +
                                          fields[dev[j].first].name + Fmt("=%llX", (unsigned long long)dev[j].second));
                }
        }
    }

    bool Exec(const VState& s, const std::vector<u16>& words, int cycles, VState& out, RunResult& rr) {
        impl.api->run(impl.m, &s, words.data(), (int)words.size(), cycles, &out, &rr);
        ++res.evaluations, ++res.transitions, ++res.traces_validated;
        return rr.outcome == OUT_OK;
    }
    // fields of `out` that differ from `in`, except those whose name starts with one of `allowed`
    std::string Frame(const VState& in, const VState& out, const std::vector<std::string>& allowed) {
        for (auto& f : fields) {
            if (GetField(in, f) == GetField(out, f))
                continue;
            bool ok = false;
            for (auto& a : allowed)
                if (f.name.compare(0, a.size(), a) == 0)
                    ok = true;
            if (!ok)
                return f.name;
        }
        return "";
    }
    void Report(const std::string& key, const std::string& what, const std::vector<u16>& words, int cycles, const VState& s, size_t si) {
        std::string w;
        for (u16 x : words)
            w += Fmt("%04X ", x);
        std::string rp = Fmt("c08 %d %zu ", cycles, words.size());
        for (u16 x : words)
            rp += Fmt("%u ", x);
        rp += SerState(s);
        res.AddViolation("c08:" + key, Fmt("program [%s] from state '%s': %s", w.c_str(), si < state_names.size() ? state_names[si].c_str() : "?", what.c_str()), rp + " | " + key);
    }

    // 16-bit view of a pushable register operand
    bool View16(const VState& s, Reg r, u16& v) {
        switch (r) {
        case R_a0: case R_a1: case R_b0: case R_b1: v = (u16)AccVal(s, AccIndex(r)); return true;
        case R_p: v = (u16)(s.p[0] >> 16); return true;
        case R_st0: v = impl.api->pseudo_get(&s, 0); return true;
        case R_st1: v = impl.api->pseudo_get(&s, 1); return true;
        case R_st2: v = impl.api->pseudo_get(&s, 2); return true;
        case R_stt0: v = impl.api->pseudo_get(&s, 3); return true;
        case R_stt1: v = impl.api->pseudo_get(&s, 4); return true;
        case R_stt2: v = impl.api->pseudo_get(&s, 5); return true;
        case R_mod0: v = impl.api->pseudo_get(&s, 6); return true;
        case R_mod1: v = impl.api->pseudo_get(&s, 7); return true;
        case R_mod2: v = impl.api->pseudo_get(&s, 8); return true;
        case R_mod3: v = impl.api->pseudo_get(&s, 9); return true;
        case R_ar0: v = impl.api->pseudo_get(&s, 12); return true;
        case R_ar1: v = impl.api->pseudo_get(&s, 13); return true;
        case R_arp0: case R_arp1: case R_arp2: case R_arp3: v = impl.api->pseudo_get(&s, 14 + (r - R_arp0)); return true;
        case R_pc: case R_undefined: return false;
        default: v = c03::ReadReg16(s, r); return true;
        }
    }

    // ---------------- (b) push X ; pop X ----------------
    struct Pair {
        std::string name;
        std::vector<u16> words;
        int cycles;
        Reg reg = R_undefined;   // 16-bit view to compare (R_undefined: whole-state comparison of `same`)
        std::vector<std::string> may_change; // frame exceptions
    };
    std::vector<Pair> BuildPairs() {
        std::vector<Pair> v;
        const std::vector<std::string> flags = {"fz", "fm", "fe", "fn", "flm", "pc"};
        auto with = [&](std::vector<std::string> extra) {
            auto f = flags;
            f.insert(f.end(), extra.begin(), extra.end());
            return f;
        };
        for (int i = 0; i < 32; ++i) {
            Reg r = kRegister[i];
            if (r == R_pc)
                continue;
            Pair p{Fmt("push %s ; pop %s", kRegNames[r], kRegNames[r]), {(u16)(0x5E40 | i), (u16)(0x5E60 | i)}, 2, r, {}};
            int ai = AccIndex(r);
            if (ai >= 0)
                p.may_change = with({ai < 2 ? Fmt("a[%d]", ai) : Fmt("b[%d]", ai - 2)});
            else if (r == R_p)
                p.may_change = with({"p[0]", "pe[0]"});
            else if (r == R_st0) // st0 shows a 4-bit view of a0's 8-bit extension and one limit bit for flm|fvl:
                p.may_change = with({"a[0]", "fvl"}); // writing the word back normalises what the view cannot hold
            else if (r == R_st1)
                p.may_change = with({"a[1]"});
            else
                p.may_change = with({});
            v.push_back(p);
        }
        for (int i = 0; i < 16; ++i) {
            Reg r = kArArpSttMod[i];
            if (r == R_undefined)
                continue;
            v.push_back({Fmt("push %s ; pop %s", kRegNames[r], kRegNames[r]), {(u16)(0xD3D0 | i), (u16)(0x80C7 | (i << 8))}, 2, r, with({})});
        }
        for (int i = 0; i < 4; ++i) { // accumulator extension
            Reg r = kAbe[i];
            int ai = AccIndex(r);
            v.push_back({Fmt("push %s ; pop %s", kRegNames[r], kRegNames[r]), {(u16)(0xD7C8 | (i << 1)), (u16)(0x47B4 | i)}, 2, R_undefined, with({})});
            // whole 40-bit accumulator through the dedicated pairs: push e ; pusha ; popa ; pop e
            u16 pusha = ai < 2 ? (u16)(0x4384 | (ai << 6)) : (u16)(0xD788 | ((ai - 2) << 1));
            v.push_back({Fmt("push %s ; pusha ; popa ; pop %s", kRegNames[r], kRegNames[r]), {(u16)(0xD7C8 | (i << 1)), pusha, (u16)(0x47B0 | i), (u16)(0x47B4 | i)}, 4, R_undefined, with({})});
        }
        for (int u = 0; u < 2; ++u)
            v.push_back({Fmt("push p%d ; pop p%d", u, u), {(u16)(0xD78C | (u << 1)), (u16)(0xD496 | u)}, 2, R_undefined, with({})});
        v.push_back({"push r6 ; pop r6", {0xD4D7, 0x0024}, 2, R_undefined, with({})});
        v.push_back({"push repc ; pop repc", {0xD7F8, 0xD7F0}, 2, R_undefined, with({})});
        v.push_back({"push x0 ; pop x0", {0xD4D4, 0xD494}, 2, R_undefined, with({})});
        v.push_back({"push x1 ; pop x1", {0xD4D5, 0xD495}, 2, R_undefined, with({})});
        v.push_back({"push y1 ; pop y1", {0xD4D6, 0x0004}, 2, R_undefined, with({})});
        v.push_back({"push prpage ; pop prpage", {0xD7FC, 0xD7F4}, 2, R_undefined, with({})});
        // context store/restore and bank exchanges (identities on the whole register file)
        v.push_back({"cntx s ; cntx r", {0xD380, 0xD390}, 2, R_undefined, {"pc", "sh_flags", "a1s", "b1s", "repcs"}});
        for (u16 f = 0; f < 64; ++f)
            v.push_back({Fmt("banke %02X ; banke %02X", f, f), {(u16)(0x4B80 | f), (u16)(0x4B80 | f)}, 2, R_undefined, {"pc"}});
        v.push_back({"bankr ; bankr", {0x8CDF, 0x8CDF}, 2, R_undefined, {"pc"}});
        for (u16 a = 0; a < 2; ++a)
            v.push_back({Fmt("bankr ar%u ; bankr ar%u", a, a), {(u16)(0x8CDC | a), (u16)(0x8CDC | a)}, 2, R_undefined, {"pc"}});
        for (u16 a = 0; a < 4; ++a)
            v.push_back({Fmt("bankr arp%u ; bankr arp%u", a, a), {(u16)(0x8CD8 | a), (u16)(0x8CD8 | a)}, 2, R_undefined, {"pc"}});
        for (u16 a = 0; a < 2; ++a)
            for (u16 b = 0; b < 4; ++b)
                v.push_back({Fmt("bankr ar%u,arp%u twice", a, b), {(u16)(0x8CD0 | (a << 2) | b), (u16)(0x8CD0 | (a << 2) | b)}, 2, R_undefined, {"pc"}});
        return v;
    }

    void CheckPair(const Pair& p, size_t si) {
        const VState& s = states[si];
        VState out;
        RunResult rr;
        if (!Exec(s, p.words, p.cycles, out, rr)) {
            if (rr.outcome == OUT_UNIMPLEMENTED)
                return;
            Report(Fmt("pair:%s:outcome=%s", p.name.c_str(), OutcomeName(rr.outcome)), std::string("execution ends with ") + OutcomeName(rr.outcome) + " " + rr.assert_expr, p.words, p.cycles, s, si);
            return;
        }
        digests.insert(Fnv(&out, sizeof(out), Fnv(p.name.data(), p.name.size())));
        if (out.sp != s.sp) {
            Report(Fmt("pair:%s:sp", p.name.c_str()), Fmt("stack pointer %04X, expected %04X", out.sp, s.sp), p.words, p.cycles, s, si);
            return;
        }
        if (out.pc != s.pc + p.words.size()) {
            Report(Fmt("pair:%s:pc", p.name.c_str()), Fmt("pc %05X, expected %05zX", out.pc, (size_t)(s.pc + p.words.size())), p.words, p.cycles, s, si);
            return;
        }
        if (p.reg != R_undefined) {
            u16 a, b;
            if (View16(s, p.reg, a) && View16(out, p.reg, b) && a != b) {
                Report(Fmt("pair:%s:value", p.name.c_str()), Fmt("%s reads %04X after the round trip, %04X before", kRegNames[p.reg], b, a), p.words, p.cycles, s, si);
                return;
            }
        }
        std::string d = Frame(s, out, p.may_change);
        if (!d.empty())
            Report(Fmt("pair:%s:frame:%s", p.name.c_str(), d.c_str()), Fmt("field %s changed across the round trip", d.c_str()), p.words, p.cycles, s, si);
        // cntx s ; cntx r: the one-way slots must hold the saved values
        if (p.name == "cntx s ; cntx r") {
            const u16 fl[10] = {s.flm, s.fvl, s.fe, s.fc0, s.fc1, s.fv, s.fn, s.fm, s.fz, s.fr};
            for (int i = 0; i < 10; ++i)
                if (out.sh_flags[i] != fl[i])
                    Report("pair:cntx:one-way-slot", Fmt("flag shadow %d holds %u, saved value was %u", i, out.sh_flags[i], fl[i]), p.words, p.cycles, s, si);
        }
    }

    // ---------------- (a) call ; ret ----------------
    void CheckCalls(size_t si) {
        VState s = states[si];
        for (u16 cpc = 0; cpc < 2; ++cpc)
            for (u16 sp : {(u16)0x0800, (u16)0x0001, (u16)0x6500}) {
                s.cpc = cpc, s.sp = sp;
                const u32 target = 0x1008;
                // call(addr, cond) for all 16 conditions ; ret always.   Program: [call][T][nop..] with T at 0x1008
                for (u16 cond = 0; cond < 16; ++cond) {
                    std::vector<u16> w(12, 0x0000);
                    w[0] = (u16)(0x41C0 | cond), w[1] = (u16)target;
                    w[8] = 0x4580; // ret always at target
                    bool taken = CondPass(cond, s);
                    VState out;
                    RunResult rr;
                    if (!Exec(s, w, taken ? 2 : 1, out, rr)) {
                        Report(Fmt("call:cond=%s:outcome", kCondNames[cond]), OutcomeName(rr.outcome), w, 2, s, si);
                        continue;
                    }
                    if (out.pc != s.pc + 2 || out.sp != s.sp)
                        Report(Fmt("call:cond=%s,cpc=%u:%s", kCondNames[cond], cpc, out.pc != s.pc + 2 ? "resume-address" : "sp"),
                               Fmt("call;ret resumes at %05X with sp=%04X, expected %05X / %04X", out.pc, out.sp, s.pc + 2, s.sp), w, 2, s, si);
                    else if (!Frame(s, out, {"pc"}).empty())
                        Report(Fmt("call:cond=%s:frame", kCondNames[cond]), "register " + Frame(s, out, {"pc"}) + " changed across call;ret", w, 2, s, si);
                }
                // callr +7 (rel) always ; ret
                {
                    std::vector<u16> w(12, 0x0000);
                    w[0] = (u16)(0x1000 | (7 << 4)); // callr +7 -> target = pc+1+7 = 0x1008
                    w[8] = 0x4580;
                    VState out;
                    RunResult rr;
                    if (Exec(s, w, 2, out, rr) && (out.pc != s.pc + 1 || out.sp != s.sp))
                        Report(Fmt("callr:cpc=%u", cpc), Fmt("callr;ret resumes at %05X sp=%04X", out.pc, out.sp), w, 2, s, si);
                }
                // calla a0l / calla a0 (target in the accumulator)
                for (int form = 0; form < 2; ++form) {
                    VState t = s;
                    t.a[0] = target;
                    std::vector<u16> w(12, 0x0000);
                    w[0] = form == 0 ? 0xD480 : 0xD381;
                    w[8] = 0x4580;
                    VState out;
                    RunResult rr;
                    if (Exec(t, w, 2, out, rr) && (out.pc != t.pc + 1 || out.sp != t.sp))
                        Report(Fmt("calla:form=%d,cpc=%u", form, cpc), Fmt("calla;ret resumes at %05X sp=%04X", out.pc, out.sp), w, 2, t, si);
                }
                // call ; rets k  (return and release k words)
                for (u16 k : {(u16)0, (u16)1, (u16)5, (u16)0xFF}) {
                    std::vector<u16> w(12, 0x0000);
                    w[0] = 0x41C0, w[1] = (u16)target, w[8] = (u16)(0x0900 | k);
                    VState out;
                    RunResult rr;
                    if (Exec(s, w, 2, out, rr) && (out.pc != s.pc + 2 || out.sp != (u16)(s.sp + k)))
                        Report(Fmt("rets:cpc=%u", cpc), Fmt("call;rets %u resumes at %05X sp=%04X (expected %05X / %04X)", k, out.pc, out.sp, s.pc + 2, (u16)(s.sp + k)), w, 2, s, si);
                }
                // call f ... ret versus the inlined body, for a body alphabet of one-word instructions
                for (u16 body : {(u16)0x67D0, (u16)0x77D0, (u16)0x67E0, (u16)0x6720, (u16)0x6790, (u16)0x6780, (u16)0x8CDF, (u16)0x4B85, (u16)0xD380, (u16)0xC7FF, (u16)0x0482, (u16)0x5DFF}) {
                    std::vector<u16> w(12, 0x0000), inl(2, 0x0000);
                    w[0] = 0x41C0, w[1] = (u16)target, w[8] = body, w[9] = 0x4580;
                    inl[0] = body;
                    VState a, b;
                    RunResult ra, rb;
                    if (!Exec(s, w, 3, a, ra) || !Exec(s, inl, 1, b, rb))
                        continue;
                    b.pc = a.pc; // the two programs sit at different addresses
                    std::string d = FirstDiff(fields, a, b);
                    if (a.pc != s.pc + 2)
                        d = "resume-address";
                    if (!d.empty())
                        Report(Fmt("call-vs-inline:body=%04X:%s", body, d.c_str()), Fmt("calling a one-instruction function differs from inlining it in %s", d.c_str()), w, 3, s, si);
                }
            }
    }

    // ---------------- (d) interrupt entry ; reti / retic ----------------
    void CheckInterrupts(size_t si) {
        for (int line = 0; line < 3; ++line)
            for (int ctx = 0; ctx < 2; ++ctx)
                for (u16 cpc = 0; cpc < 2; ++cpc) {
                    VState s = states[si];
                    s.cpc = cpc;
                    s.ie = 1;
                    for (int i = 0; i < 3; ++i)
                        s.im[i] = i == line, s.ip[i] = i == line, s.ic[i] = (i == line) && ctx;
                    s.imv = 0, s.ipv = 0;
                    u32 vec = 0x0006 + 8 * line;
                    s.pc = vec - 1; // the interrupted stream: a nop right before the vector, resuming at the vector address itself
                    // reference: the same nop without any interrupt
                    VState plain = s;
                    plain.ie = 0;
                    plain.ip[line] = 0;
                    std::vector<u16> w = {0x0000, (u16)(ctx ? 0x45D0 : 0x45C0)};
                    VState out, ref;
                    RunResult rr, rr2;
                    if (!Exec(s, w, 2, out, rr)) {
                        Report(Fmt("interrupt:line=%d,ctx=%d:outcome", line, ctx), OutcomeName(rr.outcome), w, 2, s, si);
                        continue;
                    }
                    Exec(plain, w, 1, ref, rr2);
                    digests.insert(Fnv(&out, sizeof(out), 77 + line));
                    std::string bad;
                    if (out.pc != vec)
                        bad = Fmt("resume address %05X, expected %05X", out.pc, vec);
                    else if (out.sp != s.sp)
                        bad = Fmt("sp %04X, expected %04X", out.sp, s.sp);
                    else if (out.ie != 1)
                        bad = "interrupts not re-enabled";
                    else if (out.ip[line] != 0)
                        bad = "request still pending";
                    else {
                        ref.ie = 1; // after reti the global enable is set
                        std::vector<std::string> allow = {"pc"};
                        if (ctx)
                            allow = {"pc", "sh_flags", "a1s", "b1s", "repcs"}; // one-way slots take the saved values
                        std::string d = Frame(ref, out, allow);
                        if (!d.empty())
                            bad = "register " + d + " differs from the uninterrupted run";
                    }
                    if (!bad.empty())
                        Report(Fmt("interrupt:line=%d,ctx=%d,cpc=%u", line, ctx, cpc), "interrupt entry followed by " + std::string(ctx ? "retic" : "reti") + ": " + bad, w, 2, s, si);
                }
        // a request that is pending when a single-instruction repeat starts: the repeated instruction belongs to the interrupted stream, so
        // the stream (rep #2 ; inc a0 three times) completes and the handler runs afterwards, once; everything as in the uninterrupted run
        for (int line = 0; line < 3; ++line)
            for (int ctx = 0; ctx < 2; ++ctx) {
                VState s = states[si];
                if (s.rep || s.lp)
                    continue;
                s.ie = 1;
                for (int i = 0; i < 3; ++i)
                    s.im[i] = i == line, s.ip[i] = i == line, s.ic[i] = (i == line) && ctx;
                s.imv = 0, s.ipv = 0;
                u32 vec = 0x0006 + 8 * line;
                s.pc = vec - 2;
                VState plain = s;
                plain.ie = 0;
                plain.ip[line] = 0;
                std::vector<u16> w = {0x0C02, 0x67D0, (u16)(ctx ? 0x45D0 : 0x45C0)};
                VState out, ref;
                RunResult rr, rr2;
                if (!Exec(s, w, 5, out, rr)) {
                    Report(Fmt("interrupt:pending-at-rep:line=%d,ctx=%d:outcome", line, ctx), OutcomeName(rr.outcome), w, 5, s, si);
                    continue;
                }
                if (!Exec(plain, w, 4, ref, rr2))
                    continue;
                digests.insert(Fnv(&out, sizeof(out), 177 + line));
                ref.ie = 1;
                std::vector<std::string> allow = {"pc"};
                if (ctx)
                    allow = {"pc", "sh_flags", "a1s", "b1s", "repcs"};
                std::string d = out.pc != vec ? std::string("pc") : out.sp != s.sp ? std::string("sp") : Frame(ref, out, allow);
                if (!d.empty())
                    Report(Fmt("interrupt:pending-at-rep:line=%d,ctx=%d", line, ctx),
                           "request pending while 'rep #2 ; inc a0' starts ; handler " + std::string(ctx ? "retic" : "reti") + ": register " + d + " differs from the uninterrupted run", w, 5, s, si);
            }
        // a context-switching interrupt whose handler changes every flag before it returns (modr sets R, two compares set the rest):
        // the interrupted stream gets its own flags back
        for (int line = 0; line < 3; ++line) {
            VState s = states[si];
            s.ie = 1;
            for (int i = 0; i < 3; ++i)
                s.im[i] = i == line, s.ip[i] = i == line, s.ic[i] = i == line;
            s.imv = 0, s.ipv = 0;
            s.m[0] = 0, s.br[0] = 0;
            u32 vec = 0x0006 + 8 * line;
            s.pc = vec - 1;
            VState plain = s;
            plain.ie = 0, plain.ip[line] = 0;
            std::vector<u16> w = {0x0000, 0x0080, 0xD483, 0x4D8C, 0x45D0}; // nop | modr [r0] ; cmp b0,b1 ; cmp a0,b0 ; retic
            VState out, ref;
            RunResult rr, rr2;
            if (!Exec(s, w, 5, out, rr))
                continue;
            Exec(plain, w, 1, ref, rr2);
            digests.insert(Fnv(&out, sizeof(out), 477 + line));
            ref.ie = 1;
            std::string d = Frame(ref, out, {"pc", "sh_flags", "a1s", "b1s", "repcs"});
            if (out.pc != vec || out.sp != s.sp || !d.empty())
                Report(Fmt("interrupt:handler-changes-flags:line=%d", line),
                       "interrupt entry with context store ; handler that changes the flags ; retic: " +
                           (out.pc != vec ? Fmt("resumes at %05X", out.pc) : out.sp != s.sp ? std::string("sp not restored") : "register " + d + " differs from the uninterrupted run"),
                       w, 5, s, si);
        }
        // a fixed line and the vectored line requested at the same boundary: the fixed handler runs and returns, then the vectored one
        // (its address/context latch travels in the pad words, see the glue); afterwards everything is as in the uninterrupted run
        for (int line = 0; line < 3; ++line)
            for (int ctx = 0; ctx < 4; ++ctx) {
                VState s = states[si];
                s.ie = 1;
                for (int i = 0; i < 3; ++i)
                    s.im[i] = i == line, s.ip[i] = i == line, s.ic[i] = (i == line) && (ctx & 1);
                s.imv = 1, s.ipv = 1, s.sw_imv = 1; // the vectored line is enabled in both banks
                u32 vec = 0x0006 + 8 * line;
                s.pc = vec - 1;
                s.pad1[0] = (u16)(vec + 1), s.pad1[1] = (u16)(0x8000 | ((ctx >> 1) << 8));
                VState plain = s;
                plain.ie = 0, plain.ip[line] = 0, plain.ipv = 0;
                std::vector<u16> w = {0x0000, (u16)((ctx & 1) ? 0x45D0 : 0x45C0), (u16)((ctx & 2) ? 0x45D0 : 0x45C0)};
                VState out, ref;
                RunResult rr, rr2;
                if (!Exec(s, w, 3, out, rr)) {
                    Report(Fmt("interrupt:two-requests:line=%d,ctx=%d:outcome", line, ctx), OutcomeName(rr.outcome), w, 3, s, si);
                    continue;
                }
                Exec(plain, w, 1, ref, rr2);
                digests.insert(Fnv(&out, sizeof(out), 177 + line));
                std::string bad;
                if (out.pc != vec)
                    bad = Fmt("resume address %05X, expected %05X", out.pc, vec);
                else if (out.sp != s.sp)
                    bad = Fmt("sp %04X, expected %04X", out.sp, s.sp);
                else if (out.ie != 1)
                    bad = "interrupts not re-enabled";
                else if (out.ip[line] != 0 || out.ipv != 0)
                    bad = "a request is still pending";
                else {
                    ref.ie = 1;
                    std::vector<std::string> allow = {"pc"};
                    if (ctx)
                        allow = {"pc", "sh_flags", "a1s", "b1s", "repcs"};
                    std::string d = Frame(ref, out, allow);
                    if (!d.empty())
                        bad = "register " + d + " differs from the uninterrupted run";
                }
                if (!bad.empty())
                    Report(Fmt("interrupt:two-requests:line=%d,ctx=%d", line, ctx),
                           "a fixed-line and a vectored request at the same boundary, handlers " + std::string((ctx & 1) ? "retic" : "reti") + " / " + ((ctx & 2) ? "retic" : "reti") + ": " + bad, w, 3, s, si);
            }
    }

    // conditional returns: ret / reti / retic with each of the 16 conditions, executed inside a handler just entered (so the flags of the
    // handler context decide): when the condition holds on the flags the instruction finds, it is the unconditional return; otherwise it
    // is a no-op.  The reference for "unconditional" is the same interpreter's always-form.
    void CheckConditionalReturns(size_t si) {
        for (int kind = 0; kind < 3; ++kind)      // 0 ret, 1 reti, 2 retic
            for (int ctx = 0; ctx < 2; ++ctx)     // entry with / without context store
                for (int cond = 1; cond < 16; ++cond) {
                    VState s = states[si];
                    s.ie = 1;
                    const int line = (cond + kind) % 3;
                    for (int i = 0; i < 3; ++i)
                        s.im[i] = i == line, s.ip[i] = i == line, s.ic[i] = (i == line) && ctx;
                    s.imv = 0, s.ipv = 0;
                    u32 vec = 0x0006 + 8 * line;
                    s.pc = vec - 1;
                    const u16 base_op = kind == 0 ? 0x4580 : kind == 1 ? 0x45C0 : 0x45D0;
                    std::vector<u16> wc = {0x0000, (u16)(base_op | cond), 0x0000}, wa = {0x0000, base_op, 0x0000};
                    VState o1, oc, oa;
                    RunResult r1, rc, ra;
                    if (!Exec(s, wc, 1, o1, r1) || !Exec(s, wc, 2, oc, rc) || !Exec(s, wa, 2, oa, ra))
                        continue;
                    digests.insert(Fnv(&oc, sizeof(oc), 277 + cond * 3 + kind));
                    bool pass = CondPass(cond, o1);
                    VState want = oa;
                    if (!pass) {
                        want = o1;
                        want.pc = o1.pc + 1;
                    }
                    std::string d = Frame(want, oc, {});
                    if (!d.empty()) {
                        static const char* kn[] = {"ret", "reti", "retic"};
                        Report(Fmt("conditional-return:%s:%s", kn[kind], pass ? "condition-true" : "condition-false"),
                               Fmt("%s %s in a handler entered %s context store, condition %s on the flags it finds: register %s differs from %s", kn[kind], kCondNames[cond],
                                   ctx ? "with" : "without", pass ? "true" : "false", d.c_str(), pass ? "the unconditional return" : "a no-op"),
                               wc, 2, s, si);
                    }
                }
    }
    // pop of a product register after something else multiplied in between: the whole 33-bit product (sign extension bit included) is
    // the saved one again.  Reference: the same program without the push/pop pair, then the product set back to its original value.
    void CheckClobberedProduct(size_t si) {
        for (int px = 0; px < 2; ++px)
            for (u32 pv : {0x80000000u, 0x7FFFFFFFu, 0xFFFF0000u, 0x00012345u}) {
                VState s = states[si];
                s.p[px] = pv, s.pe[px] = (u16)(pv >> 31);
                s.a[0] = 0x00007FFF0003ull; // squares of the two halves are positive: the clobber flips a negative product's extension bit
                std::vector<u16> w = {(u16)(0xD78C | (px << 1)), 0xD790, (u16)(0xD496 | px), 0x0000}; // push p ; sqr_sqr_add3 a0,a0 ; pop p
                std::vector<u16> wk = {0xD790, 0x0000};
                VState out, ref;
                RunResult rr, rk;
                if (!Exec(s, w, 3, out, rr) || !Exec(s, wk, 1, ref, rk))
                    continue;
                digests.insert(Fnv(&out, sizeof(out), 377 + px));
                ref.p[px] = s.p[px], ref.pe[px] = s.pe[px];
                std::string d = Frame(ref, out, {"pc"});
                if (!d.empty() || out.sp != s.sp)
                    Report(Fmt("pair:push-p%d;multiply;pop-p%d", px, px),
                           Fmt("push p%d ; sqr_sqr_add3 ; pop p%d with p%d=%X:%08X: %s", px, px, px, s.pe[px], s.p[px], d.empty() ? "sp not restored" : ("register " + d + " differs from the run without the push/pop pair").c_str()),
                           w, 3, s, si);
            }
    }
};

inline int RunReplay(const std::string& r, Result& res) {
    QuietStdout quiet;
    // "c08 <cycles> <n> w... <state> | key": re-run the program and print the final state summary; the verdict is
    // re-derived by running the corresponding sub-check family on that single state
    int cycles, n, used = 0;
    if (std::sscanf(r.c_str(), "c08 %d %d %n", &cycles, &n, &used) != 2)
        return 2;
    const char* p = r.c_str() + used;
    std::vector<u16> words;
    for (int i = 0; i < n; ++i) {
        unsigned w;
        int u2;
        if (std::sscanf(p, "%u %n", &w, &u2) != 1)
            return 2;
        words.push_back((u16)w);
        p += u2;
    }
    std::string rest(p);
    size_t bar = rest.find(" | ");
    if (bar == std::string::npos)
        return 2;
    VState st;
    if (!ParseState(rest.substr(0, bar), st))
        return 2;
    std::string key = rest.substr(bar + 3);
    Engine e(res, 0);
    e.states = {st};
    e.state_names = {"replayed"};
    if (key.rfind("pair:push-p", 0) == 0 && key.find(";multiply;") != std::string::npos) {
        e.CheckClobberedProduct(0);
    } else if (key.rfind("pair:", 0) == 0) {
        for (auto& pr : e.BuildPairs())
            if (pr.words == words)
                e.CheckPair(pr, 0);
    } else if (key.rfind("interrupt", 0) == 0) {
        e.CheckInterrupts(0);
    } else if (key.rfind("conditional-return", 0) == 0) {
        e.CheckConditionalReturns(0);

    } else {
        e.CheckCalls(0);
    }
    std::vector<Violation> keep;
    for (auto& v : res.violations)
        if (v.key == "c08:" + key)
            keep.push_back(v);
    for (auto& v : keep)
        quiet.Say(Fmt("  %s\n    %s\n", v.key.c_str(), v.text.c_str()));
    return keep.empty() ? 0 : 1;
}

inline void Run(const Args& args, Result& res) {
    res.property = "C08";
    int th = args.thorough() ? 2 : 1;
    size_t nstates = 0, npairs = 0;
    {
        Result tmp;
        Engine probe(tmp, th);
        nstates = probe.states.size();
        npairs = probe.BuildPairs().size();
    }
    RunPool(args.jobs,
            [&](int idx, int cnt, WorkerBlock& blk, Result& local) {
                QuietStdout quiet;
                Engine e(local, th);
                auto pairs = e.BuildPairs();
                for (size_t si = idx; si < e.states.size(); si += cnt) {
                    for (auto& p : pairs)
                        e.CheckPair(p, si);
                    e.CheckCalls(si);
                    e.CheckInterrupts(si);
                    e.CheckConditionalReturns(si);
                    e.CheckClobberedProduct(si);
                    ++local.states;
                }
                blk.evaluations = local.evaluations;
                blk.transitions = local.transitions;
                blk.traces = local.traces_validated;
                blk.states = local.states;
                blk.distinct = e.digests.size();
            },
            res);
    res.rule = Fmt("for every state of the alphabet (%zu states: 8 bases + every 1-field deviation of every base%s, constrained to the statement's preconditions "
                   "sat=1, no loop active, product shift 0) and every program pair (%zu round-trip programs: push/pop of all 31 Register operands, "
                   "12 status/config words, 4 accumulator extensions, 4 whole-accumulator composites, p0/p1, r6, repc, x0, x1, y1, prpage; "
                   "cntx s;cntx r; banke f;banke f for all 64 flag sets; every bankr form twice) the real interpreter runs the program and the "
                   "round-trip identity is checked (sp, pc, 16-bit view of the operand, every other field unchanged); call forms x 16 conditions x "
                   "2 word orders x 3 stack positions with ret/rets, call-vs-inline for 12 bodies; ret/reti/retic x 15 conditions inside a just-entered handler "
                   "(equal to the unconditional form when the condition holds on the handler's flags, a no-op otherwise); push p ; multiply ; pop p; interrupt entry on each line followed by "
                   "reti/retic compared with the uninterrupted run",
                   nstates, th == 2 ? " + every 2-field deviation of the reset base over the boundary domains" : "", npairs);
    res.bound = Fmt("%zu states x (%zu round-trip pairs + 6x(16+1+2+4+12) call programs + 12 interrupt programs)", nstates, npairs);
    res.assumptions = {"a 33rd product bit that differs from bit 31, or a non-zero product shift, cannot survive two 16-bit words (stated precondition)",
                       "popping into an accumulator part legitimately rewrites the rest of that accumulator and the z/m/e/n/lm flags",
                       "the vectored interrupt line is exercised by C07 (its latch is not part of the register file)"};
    res.AddSample("push sp ; pop sp from sp=0800: sp must read 0800 again");
    res.AddSample("int1 pending, ic1=1: nop ; [entry: context store] ; retic -> every visible register and two-way bank as in the uninterrupted run");
}
} // namespace c08
