// C20 — the 19 status/config words as bit-field views of one register state: all 65536 values of every
// word from a state alphabet, against a hand-written layout table (spec), plus alias pairs and the
// instruction paths (mov #imm / push / pop).
#pragma once
#include "c03_alu.h"
#include "c10_addr.h"

namespace c20 {
using namespace isa;

enum Cls { RW, RO, W1C_LP, BCN_RO, OR2, SX4 };
struct Slot {
    int lo, width;
    Cls cls;
    size_t off; // offset of the backing u16 field in VState (for SX4: accumulator index in `aux`)
    int aux;
};
struct Word {
    const char* name;
    int which; // glue index
    std::vector<Slot> slots;
};
#define OFF(f) offsetof(VState, f)
#define OFFA(f, i) (offsetof(VState, f) + (i) * sizeof(u16))

inline std::vector<Word> Words() {
    std::vector<Word> w;
    // TeakLite-compatible words
    w.push_back({"st0", 0, {{0, 1, RW, OFF(sat), 0}, {1, 1, RW, OFF(ie), 0}, {2, 1, RW, OFFA(im, 0), 0}, {3, 1, RW, OFFA(im, 1), 0}, {4, 1, RW, OFF(fr), 0},
                             {5, 1, OR2, OFF(flm), 0}, {6, 1, RW, OFF(fe), 0}, {7, 1, RW, OFF(fc0), 0}, {8, 1, RW, OFF(fv), 0}, {9, 1, RW, OFF(fn), 0},
                             {10, 1, RW, OFF(fm), 0}, {11, 1, RW, OFF(fz), 0}, {12, 4, SX4, 0, 0}}});
    w.push_back({"st1", 1, {{0, 8, RW, OFF(page), 0}, {10, 2, RW, OFFA(ps, 0), 0}, {12, 4, SX4, 0, 1}}});
    w.push_back({"st2", 2, {{0, 1, RW, OFFA(m, 0), 0}, {1, 1, RW, OFFA(m, 1), 0}, {2, 1, RW, OFFA(m, 2), 0}, {3, 1, RW, OFFA(m, 3), 0}, {4, 1, RW, OFFA(m, 4), 0},
                             {5, 1, RW, OFFA(m, 5), 0}, {6, 1, RW, OFFA(im, 2), 0}, {7, 1, RW, OFF(s), 0}, {8, 1, RW, OFFA(ou, 0), 0}, {9, 1, RW, OFFA(ou, 1), 0},
                             {10, 1, RO, OFFA(iu, 0), 0}, {11, 1, RO, OFFA(iu, 1), 0}, {13, 1, RO, OFFA(ip, 2), 0}, {14, 1, RO, OFFA(ip, 0), 0}, {15, 1, RO, OFFA(ip, 1), 0}}});
    // Teak-native words
    w.push_back({"stt0", 3, {{0, 1, RW, OFF(flm), 0}, {1, 1, RW, OFF(fvl), 0}, {2, 1, RW, OFF(fe), 0}, {3, 1, RW, OFF(fc0), 0}, {4, 1, RW, OFF(fv), 0}, {5, 1, RW, OFF(fn), 0},
                              {6, 1, RW, OFF(fm), 0}, {7, 1, RW, OFF(fz), 0}, {11, 1, RW, OFF(fc1), 0}}});
    w.push_back({"stt1", 4, {{4, 1, RW, OFF(fr), 0}, {10, 1, RO, OFFA(iu, 0), 0}, {11, 1, RO, OFFA(iu, 1), 0}, {14, 1, RW, OFFA(pe, 0), 0}, {15, 1, RW, OFFA(pe, 1), 0}}});
    w.push_back({"stt2", 5, {{0, 1, RO, OFFA(ip, 0), 0}, {1, 1, RO, OFFA(ip, 1), 0}, {2, 1, RO, OFFA(ip, 2), 0}, {3, 1, RO, OFF(ipv), 0}, {6, 2, RW, OFF(pcmhi), 0},
                              {12, 3, BCN_RO, OFF(bcn), 0}, {15, 1, W1C_LP, OFF(lp), 0}}});
    w.push_back({"mod0", 6, {{0, 1, RW, OFF(sat), 0}, {1, 1, RW, OFF(sata), 0}, {2, 3, RO, OFF(mod0_unk_const), 0}, {5, 2, RW, OFF(hwm), 0}, {7, 1, RW, OFF(s), 0},
                              {8, 1, RW, OFFA(ou, 0), 0}, {9, 1, RW, OFFA(ou, 1), 0}, {10, 2, RW, OFFA(ps, 0), 0}, {13, 2, RW, OFFA(ps, 1), 0}}});
    w.push_back({"mod1", 7, {{0, 8, RW, OFF(page), 0}, {12, 1, RW, OFF(stp16), 0}, {13, 1, RW, OFF(cmd), 0}, {14, 1, RW, OFF(epi), 0}, {15, 1, RW, OFF(epj), 0}}});
    {
        Word m2{"mod2", 8, {}};
        for (int i = 0; i < 8; ++i)
            m2.slots.push_back({i, 1, RW, OFFA(m, i), 0});
        for (int i = 0; i < 8; ++i)
            m2.slots.push_back({8 + i, 1, RW, OFFA(br, i), 0});
        w.push_back(m2);
    }
    w.push_back({"mod3", 9, {{0, 1, RW, OFF(nimc), 0}, {1, 1, RW, OFFA(ic, 0), 0}, {2, 1, RW, OFFA(ic, 1), 0}, {3, 1, RW, OFFA(ic, 2), 0}, {4, 1, RW, OFFA(ou, 2), 0},
                              {5, 1, RW, OFFA(ou, 3), 0}, {6, 1, RW, OFFA(ou, 4), 0}, {7, 1, RW, OFF(ie), 0}, {8, 1, RW, OFFA(im, 0), 0}, {9, 1, RW, OFFA(im, 1), 0},
                              {10, 1, RW, OFFA(im, 2), 0}, {11, 1, RW, OFF(imv), 0}, {13, 1, RW, OFF(ccnta), 0}, {14, 1, RW, OFF(cpc), 0}, {15, 1, RW, OFF(crep), 0}}});
    w.push_back({"cfgi", 10, {{0, 7, RW, OFF(stepi), 0}, {7, 9, RW, OFF(modi), 0}}});
    w.push_back({"cfgj", 11, {{0, 7, RW, OFF(stepj), 0}, {7, 9, RW, OFF(modj), 0}}});
    for (int k = 0; k < 2; ++k)
        w.push_back({k ? "ar1" : "ar0", 12 + k, {{0, 3, RW, OFFA(arstep, 2 * k + 1), 0}, {3, 2, RW, OFFA(aroffset, 2 * k + 1), 0}, {5, 3, RW, OFFA(arstep, 2 * k), 0},
                                                  {8, 2, RW, OFFA(aroffset, 2 * k), 0}, {10, 3, RW, OFFA(arrn, 2 * k + 1), 0}, {13, 3, RW, OFFA(arrn, 2 * k), 0}}});
    static const char* arpn[] = {"arp0", "arp1", "arp2", "arp3"};
    for (int k = 0; k < 4; ++k)
        w.push_back({arpn[k], 14 + k, {{0, 3, RW, OFFA(arpstepi, k), 0}, {3, 2, RW, OFFA(arpoffseti, k), 0}, {5, 3, RW, OFFA(arpstepj, k), 0}, {8, 2, RW, OFFA(arpoffsetj, k), 0},
                                        {10, 2, RW, OFFA(arprni, k), 0}, {13, 2, RW, OFFA(arprnj, k), 0}}});
    w.push_back({"icr", 18, {{0, 1, RW, OFF(nimc), 0}, {1, 1, RW, OFFA(ic, 0), 0}, {2, 1, RW, OFFA(ic, 1), 0}, {3, 1, RW, OFFA(ic, 2), 0}, {4, 1, W1C_LP, OFF(lp), 0},
                              {5, 3, BCN_RO, OFF(bcn), 0}}});
    return w;
}

inline u16& F16(VState& s, size_t off) {
    return *reinterpret_cast<u16*>(reinterpret_cast<u8*>(&s) + off);
}
inline u16 F16c(const VState& s, size_t off) {
    return *reinterpret_cast<const u16*>(reinterpret_cast<const u8*>(&s) + off);
}

// the specification: read and write of a word
inline u16 ModelGet(const VState& s, const Word& w) {
    u16 v = 0;
    for (auto& sl : w.slots) {
        u16 f;
        switch (sl.cls) {
        case OR2: f = (s.flm | s.fvl) & 1; break;
        case SX4: f = (u16)((s.a[sl.aux] >> 32) & 0xF); break;
        default: f = F16c(s, sl.off) & (u16)((1u << sl.width) - 1); break;
        }
        v |= (u16)(f << sl.lo);
    }
    return v;
}
inline void ModelSet(VState& s, const Word& w, u16 v) {
    for (auto& sl : w.slots) {
        u16 f = (u16)((v >> sl.lo) & ((1u << sl.width) - 1));
        switch (sl.cls) {
        case RW: F16(s, sl.off) = f; break;
        case RO: case BCN_RO: break;
        case W1C_LP:
            if (f)
                s.lp = 0, s.bcn = 0;
            break;
        case OR2: s.flm = s.fvl = f; break;
        case SX4: {
            u64 ext = (f & 8) ? (0xFFFFFFF0ull | f) : f; // 4 -> 32-bit sign extension, placed above bit 32
            s.a[sl.aux] = (s.a[sl.aux] & 0xFFFFFFFFull) | (ext << 32);
            break;
        }
        }
    }
}

struct Engine {
    Lib impl;
    std::vector<Field> fields;
    std::vector<Word> words;
    std::vector<std::pair<std::string, VState>> bases;
    Result& res;
    DigestSet digests;
    explicit Engine(Result& r) : res(r) {
        impl = LoadLib("libimpl.so");
        fields = AllFields();
        words = Words();
        bases = BaseStates(impl, fields);
        impl.api->fill_memory(impl.m, 0);
    }
    void Fail(const std::string& key, const std::string& text, const std::string& replay) {
        res.AddViolation("c20:" + key, text, replay);
    }
    // Set<W>(v) on state s through the real register.h, compared with the specification
    void SetCase(const Word& w, const VState& s, u16 v, const std::string& sname) {
        VState got = s, want = s;
        impl.api->pseudo_set(&got, w.which, v);
        ModelSet(want, w, v);
        ++res.evaluations, ++res.transitions, ++res.traces_validated;
        std::string rp = Fmt("c20 set %d %u %s", w.which, v, SerState(s).c_str());
        std::string d = FirstDiff(fields, got, want);
        if (!d.empty()) {
            u64 a = 0, b = 0;
            for (auto& f : fields)
                if (f.name == d)
                    a = GetField(got, f), b = GetField(want, f);
            Fail(Fmt("set:%s:%s", w.name, d.c_str()), Fmt("writing %04X to %s from state '%s': field %s becomes %llX, layout says %llX", v, w.name, sname.c_str(), d.c_str(),
                                                         (unsigned long long)a, (unsigned long long)b), rp);
            return;
        }
        u16 rb = impl.api->pseudo_get(&got, w.which), wb = ModelGet(want, w);
        if (rb != wb) {
            Fail(Fmt("readback:%s", w.name), Fmt("writing %04X to %s from state '%s' reads back %04X, layout says %04X", v, w.name, sname.c_str(), rb, wb), rp);
            return;
        }
        // every other word read in the reached state agrees with the layout (aliases read the same fields)
        for (auto& o : words) {
            u16 a = impl.api->pseudo_get(&got, o.which), b = ModelGet(got, o);
            if (a != b) {
                Fail(Fmt("alias:%s-after-%s", o.name, w.name), Fmt("after writing %04X to %s, %s reads %04X but the shared fields say %04X", v, w.name, o.name, a, b), rp);
                return;
            }
        }
        // the TeakLite limit flag is the OR of the two Teak limit flags
        u16 st0v = impl.api->pseudo_get(&got, 0), stt0v = impl.api->pseudo_get(&got, 3);
        if (((st0v >> 5) & 1) != (((stt0v >> 0) | (stt0v >> 1)) & 1))
            Fail("alias:limit-flag-or", Fmt("after writing %04X to %s: st0.L=%u but stt0.LM|VL=%u", v, w.name, (st0v >> 5) & 1, ((stt0v >> 0) | (stt0v >> 1)) & 1), rp);
        digests.insert(Fnv(&got, sizeof(got), w.which));
    }
    // instruction paths: mov ##imm16, W ; push W ; pop W
    bool InstrEnc(const Word& w, u16& mov_imm, u16& push, u16& pop) {
        static const int reg_idx[] = {8, 9, 10}; // st0 st1 st2 in the Register operand
        if (w.which <= 2) {
            mov_imm = (u16)(0x5E00 | reg_idx[w.which]), push = (u16)(0x5E40 | reg_idx[w.which]), pop = (u16)(0x5E60 | reg_idx[w.which]);
            return true;
        }
        if (w.which == 10 || w.which == 11) {
            int r = w.which == 10 ? 14 : 15;
            mov_imm = (u16)(0x5E00 | r), push = (u16)(0x5E40 | r), pop = (u16)(0x5E60 | r);
            return true;
        }
        // ArArpSttMod operand: ar0 ar1 arp0-3 - - stt0 stt1 stt2 - mod0 mod1 mod2 mod3
        int idx;
        switch (w.which) {
        case 3: idx = 8; break;
        case 4: idx = 9; break;
        case 5: idx = 10; break;
        case 6: idx = 12; break;
        case 7: idx = 13; break;
        case 8: idx = 14; break;
        case 9: idx = 15; break;
        case 12: idx = 0; break;
        case 13: idx = 1; break;
        case 14: case 15: case 16: case 17: idx = 2 + (w.which - 14); break;
        default: return false;
        }
        mov_imm = idx < 8 ? (u16)(0x0008 | idx) : (u16)(0x0030 | (idx - 8)); // mov ##imm16, ar/arp (0x0008+k) | stt/mod (0x0030+k)
        push = (u16)(0xD3D0 | idx), pop = (u16)(0x80C7 | (idx << 8));
        return true;
    }
    void InstrCase(const Word& w, const VState& s0, u16 v, const std::string& sname) {
        u16 mi, pu, po;
        if (!InstrEnc(w, mi, pu, po))
            return;
        VState s = s0;
        s.sp = 0x0800, s.pc = 0x1000, s.lp = 0, s.bcn = 0, s.rep = 0, s.ie = 0, s.prpage = 0, s.sat = 1;
        s.ip[0] = s.ip[1] = s.ip[2] = s.ipv = 0; // no request pending: a word that sets ie must not be followed by an interrupt entry here
        std::string rp = Fmt("c20 ins %d %u %s", w.which, v, SerState(s).c_str());
        // mov ##imm16, W
        {
            u16 words[2] = {mi, v};
            VState out, want = s;
            RunResult rr;
            impl.api->run(impl.m, &s, words, 2, 1, &out, &rr);
            ++res.evaluations, ++res.transitions, ++res.traces_validated;
            ModelSet(want, w, v);
            want.pc = s.pc + 2;
            if (rr.outcome == OUT_OK) {
                // writing ie through a word takes effect on the stream: no interrupt can be pending here (ip = 0 required)
                std::string d = FirstDiff(fields, out, want);
                if (!d.empty())
                    Fail(Fmt("mov-imm:%s:%s", w.name, d.c_str()), Fmt("mov #%04X,%s (opcode %04X) from '%s': field %s differs from the layout", v, w.name, mi, sname.c_str(), d.c_str()), rp);
            } else if (rr.outcome != OUT_UNIMPLEMENTED) {
                Fail(Fmt("mov-imm:%s:outcome", w.name), Fmt("mov #%04X,%s ends with %s", v, w.name, OutcomeName(rr.outcome)), rp);
            }
        }
        // push W: the stored word is the word's value
        {
            VState t = s;
            ModelSet(t, w, v);
            u16 words[2] = {pu, 0};
            VState out;
            RunResult rr;
            impl.api->run(impl.m, &t, words, 2, 1, &out, &rr);
            ++res.evaluations, ++res.transitions, ++res.traces_validated;
            if (rr.outcome == OUT_OK) {
                u16 stored = 0;
                bool found = false;
                for (int i = 0; i < rr.n_logged; ++i)
                    if (rr.log[i].is_write && rr.log[i].addr == 0x20000u + (u16)(t.sp - 1))
                        stored = rr.log[i].value, found = true;
                u16 wantv = ModelGet(t, w);
                if (!found || stored != wantv)
                    Fail(Fmt("push:%s", w.name), Fmt("push %s (opcode %04X) stored %04X, the word reads %04X by its layout", w.name, pu, stored, wantv), rp);
            }
        }
        // pop W: the popped word is written through the layout
        {
            impl.api->poke_data(impl.m, 0x0800, v);
            u16 words[2] = {po, 0};
            VState out, want = s;
            RunResult rr;
            impl.api->run(impl.m, &s, words, 2, 1, &out, &rr);
            ++res.evaluations, ++res.transitions, ++res.traces_validated;
            ModelSet(want, w, v);
            want.pc = s.pc + 1, want.sp = (u16)(s.sp + 1);
            if (rr.outcome == OUT_OK) {
                std::string d = FirstDiff(fields, out, want);
                if (!d.empty())
                    Fail(Fmt("pop:%s:%s", w.name, d.c_str()), Fmt("pop %s (opcode %04X) of %04X from '%s': field %s differs from the layout", w.name, po, v, sname.c_str(), d.c_str()), rp);
            }
        }
    }
    // set / rst / chng ##imm16, W for the stt/mod words: the word is read, combined with the immediate, the M and Z flags follow the 16-bit
    // result, and the result is written back through the layout - also when it equals what was read (a write-1-to-clear bit still clears,
    // flag bits inside the word take the written value)
    void AlbCase(const Word& w, const VState& s0, u16 imm, const std::string& sname) {
        if (w.which < 3 || w.which > 9)
            return;
        const int idx = w.which <= 5 ? w.which - 3 : w.which - 6 + 4;
        VState s = s0;
        s.sp = 0x0800, s.pc = 0x1000, s.rep = 0, s.ie = 0, s.prpage = 0, s.sat = 1;
        s.ip[0] = s.ip[1] = s.ip[2] = s.ipv = 0;
        static const u16 base_op[3] = {0x43C8, 0x4388, 0x0038};
        static const char* opn[3] = {"set", "rst", "chng"};
        for (int op = 0; op < 3; ++op) {
            u16 words[2] = {(u16)(base_op[op] | idx), imm};
            VState out, want = s;
            RunResult rr;
            impl.api->run(impl.m, &s, words, 2, 1, &out, &rr);
            ++res.evaluations, ++res.transitions, ++res.traces_validated;
            if (rr.outcome != OUT_OK)
                continue;
            u16 bv = ModelGet(s, w);
            u16 result = op == 0 ? (u16)(imm | bv) : op == 1 ? (u16)(~imm & bv) : (u16)(imm ^ bv);
            want.fm = result >> 15, want.fz = result == 0;
            ModelSet(want, w, result);
            want.pc = s.pc + 2;
            std::string d = FirstDiff(fields, out, want);
            if (!d.empty())
                Fail(Fmt("alb:%s:%s:%s", opn[op], w.name, result == bv ? "value-unchanged" : "value-changed"),
                     Fmt("%s ##%04X,%s (opcode %04X) from '%s' with the word reading %04X: field %s differs from writing %04X through the layout", opn[op], imm, w.name, words[0], sname.c_str(),
                         bv, d.c_str(), result),
                     Fmt("c20 alb %d %u %s", w.which, imm, SerState(s).c_str()));
        }
    }
    // the dedicated load instructions (load stepi/stepj/modi/modj/page/ps/ps01/movpd with every immediate): afterwards every word still
    // reads what its layout says for the fields the register file holds - a field never holds more bits than its word shows
    void LoadInstructions(const VState& s0) {
        struct L {
            const char* name;
            u16 base;
            int bits, shift;
        };
        static const L loads[] = {{"load stepi", 0xDB80, 7, 0}, {"load stepj", 0xDF80, 7, 0}, {"load modi", 0x0200, 9, 0}, {"load modj", 0x0A00, 9, 0}, {"load page", 0x0400, 8, 0},
                                  {"load ps", 0x4D80, 2, 0},    {"load ps01", 0x0010, 4, 0},  {"load movpd", 0xD7D8, 2, 1}};
        for (auto& l : loads)
            for (u32 v = 0; v < (1u << l.bits); ++v) {
                VState s = s0;
                s.sp = 0x0800, s.pc = 0x1000, s.lp = 0, s.bcn = 0, s.rep = 0, s.ie = 0, s.prpage = 0;
                u16 words[2] = {(u16)(l.base | (v << l.shift)), 0};
                VState out;
                RunResult rr;
                impl.api->run(impl.m, &s, words, 2, 1, &out, &rr);
                ++res.evaluations, ++res.transitions, ++res.traces_validated;
                if (rr.outcome != OUT_OK)
                    continue;
                for (auto& w : this->words) {
                    u16 got = impl.api->pseudo_get(&out, w.which), want = ModelGet(out, w);
                    if (got != want) {
                        Fail(Fmt("load-instruction:%s:%s", l.name, w.name),
                             Fmt("after %s #%X (opcode %04X) the word %s reads %04X, its layout applied to the register fields gives %04X (a field holds bits its word does not show)", l.name, v,
                                 words[0], w.name, got, want),
                             Fmt("c20 lod %u %s", words[0], SerState(s).c_str()));
                        break;
                    }
                }
                digests.insert(Mix(words[0]) ^ 0x10AD);
            }
    }
    // icr has its own instructions: mov #imm5,icr (read-modify-write of bits 0..4) ; mov r0,icr ; mov icr,Ab
    void IcrCase(const VState& s0, int depth, u16 v, const std::string& sname) {
        const Word& w = words.back(); // icr
        VState s = s0;
        s.sp = 0x0800, s.pc = 0x1000, s.rep = 0, s.ie = 0, s.prpage = 0, s.sat = 1, s.sata = 1;
        s.ip[0] = s.ip[1] = s.ip[2] = s.ipv = 0;
        s.lp = depth > 0, s.bcn = (u16)depth;
        for (int i = 0; i < 4; ++i)
            s.bk[i] = {(u32)(0x3000 + 0x100 * i), (u32)(0x3080 + 0x100 * i), (u16)(5 + i), 0};
        std::string rp = Fmt("c20 icr %d %u %s", depth, v, SerState(s0).c_str());
        auto run1 = [&](u16 op, const VState& st, VState& out) {
            u16 words2[2] = {op, 0};
            RunResult rr;
            impl.api->run(impl.m, &st, words2, 2, 1, &out, &rr);
            ++res.evaluations, ++res.transitions, ++res.traces_validated;
            return rr.outcome == OUT_OK;
        };
        {
            u16 imm = v & 0x1F;
            VState out, want = s;
            if (run1((u16)(0x4F80 | imm), s, out)) {
                ModelSet(want, w, (u16)((ModelGet(s, w) & ~0x1F) | imm));
                want.pc = s.pc + 1;
                std::string d = FirstDiff(fields, out, want);
                if (!d.empty())
                    Fail(Fmt("mov-imm5:icr:%s", d.c_str()), Fmt("mov #%02X,icr at loop depth %d from '%s': field %s differs from the layout (bits 0..4 written, lp bit is write-1-to-clear)", imm, depth, sname.c_str(), d.c_str()), rp);
            }
        }
        {
            VState t = s, out;
            t.r[0] = v;
            VState want = t;
            if (run1((u16)(0x4FC0 | 0), t, out)) {
                ModelSet(want, w, v);
                want.pc = t.pc + 1;
                std::string d = FirstDiff(fields, out, want);
                if (!d.empty())
                    Fail(Fmt("mov-reg:icr:%s", d.c_str()), Fmt("mov r0(%04X),icr at loop depth %d from '%s': field %s differs from the layout", v, depth, sname.c_str(), d.c_str()), rp);
            }
        }
        {
            VState t = s, out;
            ModelSet(t, w, v);
            if (run1((u16)(0xD492 | (2 << 5)), t, out)) { // mov icr,a0
                u16 got = (u16)out.a[0], wantv = ModelGet(t, w);
                if (got != wantv)
                    Fail("mov-from:icr", Fmt("mov icr,a0 at loop depth %d delivers %04X, the word reads %04X by its layout", depth, got, wantv), rp);
            }
        }
    }

    // (5) what the ar/arp words MEAN to the interpreter: for every opcode whose form names an ar- or arp-selected register, the ar/arp
    // words are written (as words, through Set) with every offset code in the selected slot and decoy values in the other slots; the
    // data addresses the instruction then touches on each side must be the selected register's value or that value displaced by the
    // offset the word holds in the selected slot (0: none, 1: +1, 2/3: -1) - never by the other side's or another slot's offset
    static u16 Off(u16 p, int code) {
        return code == 0 ? p : code == 1 ? (u16)(p + 1) : (u16)(p - 1);
    }
    u64 offset_accesses = 0;
    void OffsetMeaning(u16 op, const DecodeInfo& d) {
        auto T = [&](int i) { return i < d.nargs ? std::string(d.arg_types[i]) : std::string(); };
        int arp_rn = -1, arp_si = -1, arp_sj = -1, ar_rn = -1, ar_s = -1;
        for (int i = 0; i < d.nargs; ++i) {
            std::string t = T(i), t1 = T(i + 1), t2 = T(i + 2);
            if ((t == "ArpRn1" || t == "ArpRn2") && t1.compare(0, 7, "ArpStep") == 0 && t2.compare(0, 7, "ArpStep") == 0 && arp_rn < 0)
                arp_rn = d.args[i], arp_si = d.args[i + 1], arp_sj = d.args[i + 2];
            if ((t == "ArRn1" || t == "ArRn2") && (t1 == "ArStep1" || t1 == "ArStep2" || t1 == "ArStep1Alt") && ar_rn < 0)
                ar_rn = d.args[i], ar_s = t1 == "ArStep1Alt" ? d.args[i + 1] + 2 : d.args[i + 1];
        }
        if (arp_rn < 0 && ar_rn < 0)
            return;
        for (int a = 0; a < 4; ++a)
            for (int b = 0; b < 4; ++b) {
                if (arp_rn < 0 && b != 0)
                    continue;
                VState s = bases[0].second;
                s.pc = 0x1000, s.sp = 0x0800;
                for (int k = 0; k < 8; ++k)
                    s.r[k] = (u16)((k < 4 ? 0x6420 : 0xCC20) + 16 * (k & 3)), s.m[k] = 0, s.br[k] = 0;
                // the words are composed from the layout table and written through the real Set
                u16 arw[2], arpw[4];
                int ar_unit = -1, ui = -1, uj = -1;
                for (int k = 0; k < 2; ++k) {
                    // ar_k: [2:0] step(2k+1) [4:3] offset(2k+1) [7:5] step(2k) [9:8] offset(2k) [12:10] rn(2k+1) [15:13] rn(2k)
                    int o0 = (ar_rn >= 0 && ar_s == 2 * k) ? a : (a + 1 + k) & 3, o1 = (ar_rn >= 0 && ar_s == 2 * k + 1) ? a : (a + 2 + k) & 3;
                    int rn0 = (2 * k) * 2 % 8, rn1 = ((2 * k + 1) * 2 + 1) % 8; // slots 0..3 -> r0, r3, r4, r7
                    arw[k] = (u16)((o1 << 3) | (o0 << 8) | (rn1 << 10) | (rn0 << 13));
                    if (ar_rn == 2 * k)
                        ar_unit = rn0;
                    if (ar_rn == 2 * k + 1)
                        ar_unit = rn1;
                }
                for (int k = 0; k < 4; ++k) {
                    // arp_k: [2:0] stepi [4:3] offseti [7:5] stepj [9:8] offsetj [11:10] rni [14:13] rnj
                    int oi = (k == arp_si) ? a : (a + 1 + k) & 3, oj = (k == arp_sj) ? b : (b + 2 + k) & 3;
                    int rni = (k + 1) & 3, rnj = (k + 2) & 3;
                    arpw[k] = (u16)((oi << 3) | (oj << 8) | (rni << 10) | (rnj << 13));
                    if (k == arp_rn)
                        ui = rni, uj = 4 + rnj;
                }
                for (int k = 0; k < 2; ++k)
                    impl.api->pseudo_set(&s, 12 + k, arw[k]);
                for (int k = 0; k < 4; ++k)
                    impl.api->pseudo_set(&s, 14 + k, arpw[k]);
                u16 w[2] = {op, 0x0010};
                VState out;
                RunResult rr;
                impl.api->run(impl.m, &s, w, 2, 1, &out, &rr);
                ++res.evaluations, ++res.transitions, ++res.traces_validated;
                if (rr.outcome != OUT_OK)
                    continue;
                for (int i = 0; i < rr.n_logged; ++i) {
                    if (rr.log[i].addr < 0x20000)
                        continue;
                    u16 ad = (u16)(rr.log[i].addr - 0x20000);
                    // which register's neighbourhood is it in?
                    for (int k = 0; k < 8; ++k) {
                        u16 p = s.r[k];
                        if ((u16)(ad - p + 2) > 4)
                            continue;
                        ++offset_accesses;
                        int want = -1;
                        if (arp_rn >= 0 && k == ui)
                            want = a;
                        else if (arp_rn >= 0 && k == uj)
                            want = b;
                        else if (ar_rn >= 0 && k == ar_unit)
                            want = a;
                        else
                            continue; // a register the form names directly (Rn operand): not this layer's business
                        if (ad != p && ad != Off(p, want)) {
                            Fail(Fmt("meaning:offset:%s:%s", d.name, k == uj && arp_rn >= 0 ? "j-side" : arp_rn >= 0 ? "i-side" : "ar"),
                                 Fmt("opcode %04X (%s) with ar0/1=%04X,%04X arp0..3=%04X,%04X,%04X,%04X: the selected register r%d=%04X has offset code %d in its slot of the "
                                     "word, but the instruction touches %04X (expected %04X or %04X)", op, d.name, arw[0], arw[1], arpw[0], arpw[1], arpw[2], arpw[3], k, p, want, ad,
                                     p, Off(p, want)),
                                 Fmt("c20 off %u %d %d", op, a, b));
                            return;
                        }
                        digests.insert(Mix(op * 16 + a * 4 + b) ^ ad);
                    }
                }
            }
    }

    // (6) the step codes of the ar/arp words mean to the interpreter what the annotated disassembler calls them: an instruction that steps
    // a register through an ar/arp step slot holding code k (0 none, 1 +1, 2 -1, 3 +s, 4 +2, 5 -2) leaves the register where the directly
    // spelled instruction (modr rN with that step) leaves it - linear and modulo addressing, both compatibility modes
    void StepMeaning(u16 op, const DecodeInfo& d) {
        bool has = false;
        for (int i = 0; i < d.nargs; ++i) {
            std::string t = d.arg_types[i];
            has |= t == "ArRn1" || t == "ArRn2" || t == "ArpRn1" || t == "ArpRn2";
        }
        if (!has)
            return;
        for (int cmd = 0; cmd < 2; ++cmd)
            for (int cfg = 0; cfg < 9; ++cfg)
                for (int k = 0; k < 6; ++k) {
                    VState s = bases[0].second;
                    s.pc = 0x1000, s.sp = 0x0800, s.cmd = (u16)cmd, s.stp16 = 0;
                    const u16 mod = cfg == 0 ? 0 : cfg <= 4 ? 5 : 0x1F;
                    const int pos = cfg == 0 ? 0 : (cfg - 1) & 3;
                    s.modi = s.modj = mod, s.stepi = 3, s.stepj = 0x7D;
                    for (int r = 0; r < 8; ++r) {
                        u16 b = (u16)((r < 4 ? 0x6400 : 0xCC00) + 0x40 * (r & 3));
                        s.r[r] = (u16)(b + (pos == 0 ? 0 : pos == 1 ? 1 : pos == 2 ? mod : mod - 1));
                        s.m[r] = cfg != 0, s.br[r] = 0;
                    }
                    for (int i = 0; i < 4; ++i)
                        s.arstep[i] = s.arpstepi[i] = s.arpstepj[i] = (u16)k, s.aroffset[i] = s.arpoffseti[i] = s.arpoffsetj[i] = 0;
                    const u16 rn[4] = {0, 5, 2, 7};
                    for (int i = 0; i < 4; ++i)
                        s.arrn[i] = rn[i], s.arprni[i] = (u16)i, s.arprnj[i] = (u16)((i + 1) & 3);
                    // through the words, as a program would configure them
                    for (int w = 12; w < 18; ++w) {
                        u16 cur = impl.api->pseudo_get(&s, w);
                        impl.api->pseudo_set(&s, w, cur);
                    }
                    std::vector<c10::Engine::Use> uses;
                    if (!c10::Engine::UsesOf(d, s, uses))
                        return;
                    if (uses.size() == 2 && uses[0].unit == uses[1].unit)
                        return;
                    u16 w2[2] = {op, 0x0010};
                    VState out;
                    RunResult rr;
                    impl.api->run(impl.m, &s, w2, 2, 1, &out, &rr);
                    ++res.evaluations, ++res.transitions, ++res.traces_validated;
                    if (rr.outcome != OUT_OK)
                        continue;
                    for (auto& u : uses) {
                        if (u.code != k)
                            continue; // a form that does not take this unit's step from the slot
                        u16 direct = k < 4 ? (u16)((u.dmod ? 0x00A0 : 0x0080) | u.unit | (k << 3)) : k == 4 ? (u16)((u.dmod ? 0x4998 : 0x4990) | u.unit) : (u16)((u.dmod ? 0x5DA8 : 0x5DA0) | u.unit);
                        u16 w3[2] = {direct, 0};
                        VState od;
                        RunResult rd;
                        impl.api->run(impl.m, &s, w3, 2, 1, &od, &rd);
                        ++res.evaluations, ++res.transitions, ++res.traces_validated;
                        if (rd.outcome != OUT_OK)
                            continue;
                        digests.insert(Mix(op * 64 + k * 8 + u.unit) ^ od.r[u.unit]);
                        if (od.r[u.unit] != out.r[u.unit]) {
                            static const char* sn[] = {"no step", "+1", "-1", "+s", "+2", "-2"};
                            Fail(Fmt("meaning:step:%s:code%d:%s", d.name, k, mod ? "modulo" : "linear"),
                                 Fmt("opcode %04X (%s), step code %d ('%s') in the ar/arp word, cmd=%d mod=%03X r%d=%04X%s: the instruction leaves r%d=%04X, the directly spelled "
                                     "modr r%d %s (opcode %04X) leaves %04X", op, d.name, k, sn[k], cmd, mod, u.unit, s.r[u.unit], u.dmod ? " (modulo disabled by the form)" : "", u.unit,
                                     out.r[u.unit], u.unit, sn[k], direct, od.r[u.unit]),
                                 Fmt("c20 stp %u", op));
                            return;
                        }
                    }
                }
    }
};

inline int RunReplay(const std::string& r, Result& res) {
    QuietStdout quiet;
    int which, n = 0;
    unsigned v;
    char kind[8];
    {
        unsigned op;
        int a, b;
        if (r.rfind("c20 alb ", 0) == 0) {
            int which, used = 0;
            unsigned imm;
            if (std::sscanf(r.c_str(), "c20 alb %d %u %n", &which, &imm, &used) != 2)
                return 2;
            VState st;
            if (!ParseState(r.substr(used), st))
                return 2;
            Engine e(res);
            for (auto& w : e.words)
                if (w.which == which)
                    e.AlbCase(w, st, (u16)imm, "replayed");
            for (auto& x : res.violations)
                quiet.Say(Fmt("  %s\n    %s\n", x.key.c_str(), x.text.c_str()));
            return res.violations.empty() ? 0 : 1;
        }
        if (r.rfind("c20 lod ", 0) == 0) {
            unsigned opc;
            int used = 0;
            if (std::sscanf(r.c_str(), "c20 lod %u %n", &opc, &used) != 1)
                return 2;
            VState st;
            if (!ParseState(r.substr(used), st))
                return 2;
            Engine e(res);
            e.LoadInstructions(st);
            std::vector<Violation> keep;
            for (auto& x : res.violations)
                if (x.replay.rfind(Fmt("c20 lod %u ", opc), 0) == 0)
                    keep.push_back(x);
            for (auto& x : keep)
                quiet.Say(Fmt("  %s\n    %s\n", x.key.c_str(), x.text.c_str()));
            return keep.empty() ? 0 : 1;
        }
        if (std::sscanf(r.c_str(), "c20 stp %u", &op) == 1) {
            Engine e(res);
            DecodeInfo d;
            e.impl.api->decode((u16)op, &d);
            e.StepMeaning((u16)op, d);
            for (auto& x : res.violations)
                quiet.Say(Fmt("  %s\n    %s\n", x.key.c_str(), x.text.c_str()));
            return res.violations.empty() ? 0 : 1;
        }
        if (std::sscanf(r.c_str(), "c20 off %u %d %d", &op, &a, &b) == 3) {
            Engine e(res);
            DecodeInfo d;
            e.impl.api->decode((u16)op, &d);
            e.OffsetMeaning((u16)op, d);
            for (auto& x : res.violations)
                quiet.Say(Fmt("  %s\n    %s\n", x.key.c_str(), x.text.c_str()));
            return res.violations.empty() ? 0 : 1;
        }
    }
    if (std::sscanf(r.c_str(), "c20 %7s %d %u %n", kind, &which, &v, &n) != 3)
        return 2;
    VState s;
    if (!ParseState(r.substr(n), s))
        return 2;
    Engine e(res);
    for (auto& w : e.words)
        if (w.which == which) {
            if (!std::strcmp(kind, "set"))
                e.SetCase(w, s, (u16)v, "replayed");
            else if (!std::strcmp(kind, "ins"))
                e.InstrCase(w, s, (u16)v, "replayed");
        }
    if (!std::strcmp(kind, "icr"))
        e.IcrCase(s, which, (u16)v, "replayed");
    for (auto& x : res.violations)
        quiet.Say(Fmt("  %s\n    %s\n", x.key.c_str(), x.text.c_str()));
    return res.violations.empty() ? 0 : 1;
}

inline void Run(const Args& args, Result& res) {
    res.property = "C20";
    bool th = args.thorough();
    RunPool(args.jobs,
            [&](int idx, int cnt, WorkerBlock& blk, Result& local) {
                QuietStdout quiet;
                Engine e(local);
                // state alphabet: bases + every 1-field deviation (of all fields: the frame condition must hold from any state)
                std::vector<std::pair<std::string, VState>> states(e.bases.begin(), e.bases.end());
                for (size_t fi = 0; fi < e.fields.size(); ++fi) {
                    const Field& f = e.fields[fi];
                    for (u64 v : Domain(f.kind, th)) {
                        VState s = e.bases[fi % 2 ? 0 : 7].second;
                        if (GetField(s, f) == v)
                            continue;
                        SetField(s, f, v);
                        states.push_back({f.name + Fmt("=%llX", (unsigned long long)v), s});
                    }
                }
                // a loop-active state for the write-1-to-clear loop flag
                {
                    VState s = e.bases[4].second;
                    states.push_back({"in-bkrep-depth2", s});
                }
                long job = 0;
                for (auto& w : e.words) {
                    // (1) all 65536 values on the 8 base states + loop state
                    for (size_t si = 0; si < 8 + 1; ++si) {
                        const auto& st = si < 8 ? states[si] : states.back();
                        if ((job++ % cnt) != idx)
                            continue;
                        for (u32 v = 0; v < 0x10000; ++v)
                            e.SetCase(w, st.second, (u16)v, st.first);
                    }
                    // (2) a value alphabet on every state of the alphabet
                    if ((job++ % cnt) == idx)
                        for (auto& st : states)
                            for (u16 v : {(u16)0x0000, (u16)0xFFFF, (u16)0x5555, (u16)0xAAAA, (u16)0x8001, (u16)0x7FFE, (u16)0x00FF, (u16)0xFF00})
                                e.SetCase(w, st.second, v, st.first);
                    // (3) depth-2: W then an aliased word W2 over 256 x 256 values
                    for (auto& w2 : e.words) {
                        if (&w2 == &w)
                            continue;
                        bool shares = false;
                        for (auto& a : w.slots)
                            for (auto& b : w2.slots)
                                if ((a.cls == SX4 && b.cls == SX4 && a.aux == b.aux) || (a.cls != SX4 && b.cls != SX4 && a.off == b.off) ||
                                    (a.cls == OR2 && (b.off == OFF(flm) || b.off == OFF(fvl))) || (b.cls == OR2 && (a.off == OFF(flm) || a.off == OFF(fvl))))
                                    shares = true;
                        if (!shares || (job++ % cnt) != idx)
                            continue;
                        for (u32 i = 0; i < 256; ++i)
                            for (u32 j = 0; j < 256; ++j) {
                                u16 v1 = (u16)(i * 0x0101 ^ (i << 3)), v2 = (u16)(j * 0x0101 ^ (j << 5) ^ 0x8000);
                                VState s = e.bases[0].second;
                                ModelSet(s, w, v1);
                                VState viaimpl = e.bases[0].second;
                                e.impl.api->pseudo_set(&viaimpl, w.which, v1);
                                if (std::memcmp(&s, &viaimpl, sizeof(s)) != 0)
                                    continue; // already reported by (1)
                                e.SetCase(w2, s, v2, Fmt("%s=%04X", w.name, v1));
                            }
                    }
                    // (4) instruction paths
                    if ((job++ % cnt) == idx)
                        for (size_t si = 0; si < 8; ++si)
                            for (u32 k = 0; k < 64; ++k) {
                                u16 v = (u16)(Mix(k * 977 + w.which) | (k & 1 ? 0x8000 : 0));
                                if (k < 4)
                                    v = k == 0 ? 0 : k == 1 ? 0xFFFF : k == 2 ? 0x5555 : 0xAAAA;
                                e.InstrCase(w, states[si].second, v, states[si].first);
                                e.AlbCase(w, states[si].second, v, states[si].first);
                                if (k < 8) { // immediates that leave the word as it is: 0 / all ones / the word's own value
                                    u16 own = ModelGet(states[si].second, w);
                                    e.AlbCase(w, states[si].second, k & 1 ? own : (u16)~own, states[si].first);
                                }
                            }
                }
                if ((job++ % cnt) == idx)
                    for (size_t si = 0; si < 8; ++si)
                        e.LoadInstructions(states[si].second);
                if ((job++ % cnt) == idx)
                    for (size_t si = 0; si < 8; ++si)
                        for (int depth : {0, 1, 2, 4})
                            for (u32 v = 0; v < 256; ++v)
                                e.IcrCase(states[si].second, depth, (u16)(v | ((v * 0x0301) & 0xFF00)), states[si].first);
                // (5) the interpreter's reading of the offset fields, every opcode
                for (u32 op = idx; op < 0x10000; op += cnt) {
                    DecodeInfo d;
                    e.impl.api->decode((u16)op, &d);
                    if (d.rows_matching == 1) {
                        e.OffsetMeaning((u16)op, d);
                        e.StepMeaning((u16)op, d);
                    }
                }
                blk.counters[3] = e.offset_accesses;
                blk.evaluations = local.evaluations;
                blk.transitions = local.transitions;
                blk.traces = local.traces_validated;
                blk.states = local.evaluations;
                blk.distinct = e.digests.size();
            },
            res);
    res.rule = "for each of the 19 words: all 65536 values are written (register.h's Set, through the glue) from 9 states, and 8 values from every "
               "state of the alphabet (bases + every 1-field deviation); the resulting register file must equal the layout table's effect (RW bits "
               "written, RO bits kept, lp write-1-to-clear, st0.L sets both limit flags, 4-bit accumulator extension sign-extended) on every field, "
               "every word then reads what the layout says (aliases), st0.L = stt0.LM|VL; depth-2 writes of every pair of words that share a field "
               "over 256x256 values; mov ##imm/push/pop instruction paths for 64 values x 8 states; icr's own instructions (mov #imm5 for all 32 "
               "immediates, mov r0,icr, mov icr,a0) at loop depths 0,1,2,4; set/rst/chng ##imm on the stt/mod words (also with immediates that leave the word unchanged); "
               "the dedicated load instructions with every immediate (all words still read their layout); for every opcode whose form selects a register through ar/arp: all 4 (x4) offset "
               "codes written into the selected slot of the words with decoys elsewhere - the addresses the instruction touches next to the selected "
               "register are that register's value or its value displaced by exactly that slot's offset (the interpreter's reading of the word); and with step code k in the slots the "
               "register ends where the directly spelled modr rN <step k> leaves it (codes 0..5, linear and modulo, both modes)";
    res.bound = "19 words x 65536 values x 9 states; full state alphabet x 8 values; aliased pairs x 65536 value pairs";
    res.assumptions = {"the layout table in engines/isa/c20_words.h is transcribed from the TeakLite/Teak register layouts (and matches the flag legends of test_verifier)",
                       "agreement of the annotated disassembler with the ar/arp layout is checked by the text engine (C05/C02); the generator's reading by C01 clause 2"};
    res.AddSample("Set st0 = 0x0020 from flm=0,fvl=0 -> flm=1,fvl=1; stt0 then reads bits 0 and 1 set");
    res.AddSample("Set stt2 = 0x8000 while in a block repeat -> lp=0, bcn=0; icr bit 4 then reads 0");
}
} // namespace c20
