// C09 — hardware loops: every generated loop program is run on the real interpreter and compared with
// its unrolled straight-line equivalent (same interpreter, no loop hardware involved).
#pragma once
#include "c03_alu.h"

namespace c09 {
using namespace isa;

struct Engine {
    Lib impl;
    std::vector<Field> fields;
    std::vector<VState> bases;
    Result& res;
    std::unordered_set<u64> digests;

    explicit Engine(Result& r) : res(r) {
        impl = LoadLib("libimpl.so");
        fields = AllFields();
        impl.api->fill_memory(impl.m, 0);
        VState d;
        impl.api->default_state(&d);
        d.pc = 0x1000;
        d.sp = 0x0800;
        d.r[0] = 0x6410, d.r[1] = 0x6480, d.r[2] = 0x6500, d.r[3] = 0x6540, d.r[4] = 0xCC10, d.r[5] = 0xCC80, d.r[6] = 3, d.r[7] = 0xCD00;
        d.a[0] = 5, d.a[1] = 0x100;
        bases.push_back(d);
        VState s = d; // saturating, flags set, different accumulators
        s.sata = 0, s.a[0] = 0x7FFFFFF0, s.a[1] = Sx40(0xFF80000010ull), s.fc0 = 1, s.fz = 1;
        bases.push_back(s);
        VState t = d; // Teak-mode stepping with a modulo on the write pointer
        t.cmd = 0, t.m[1] = 1, t.modi = 7, t.stepi = 2;
        bases.push_back(t);
        VState u = d; // the same program in another 64K page (loop addresses carry page bits)
        u.pc = 0x21000;
        bases.push_back(u);
    }

    struct Out {
        VState s;
        RunResult r;
    };
    bool Exec(const VState& s, const std::vector<u16>& words, int cycles, Out& o) {
        impl.api->run(impl.m, &s, words.data(), (int)words.size(), cycles, &o.s, &o.r);
        ++res.evaluations, ++res.transitions, ++res.traces_validated;
        return o.r.outcome == OUT_OK;
    }
    static bool LoopControl(const std::string& n) {
        return n == "pc" || n == "repc" || n == "rep" || n == "lp" || n == "bcn" || n.compare(0, 3, "bk[") == 0;
    }
    std::string DiffNonLoop(const VState& a, const VState& b) {
        for (auto& f : fields)
            if (!LoopControl(f.name) && GetField(a, f) != GetField(b, f))
                return f.name;
        return "";
    }
    static std::string Words(const std::vector<u16>& w) {
        std::string s;
        for (size_t i = 0; i < w.size() && i < 24; ++i)
            s += Fmt("%04X ", w[i]);
        return s + (w.size() > 24 ? "..." : "");
    }
    void Report(const std::string& key, const std::string& text, const std::vector<u16>& loop, int lc, const std::vector<u16>& flat, int fc, int base) {
        std::string rp = Fmt("c09 %d %d %zu", base, lc, loop.size());
        for (u16 w : loop)
            rp += Fmt(" %u", w);
        rp += Fmt(" | %d %zu", fc, flat.size() > 4096 ? (size_t)0 : flat.size());
        if (flat.size() <= 4096)
            for (u16 w : flat)
                rp += Fmt(" %u", w);
        rp += " | state " + SerState(bases[base]); // the start state (a base, possibly with the count register prepared)
        res.AddViolation("c09:" + key, text + Fmt(" | loop program [%s] (%d cycles) vs unrolled [%s] (%d cycles), base state %d", Words(loop).c_str(), lc, Words(flat).c_str(), fc, base), rp);
    }

    // compare a loop program with its unrolled form.  `exit_clean`: the loop state must be clear afterwards
    void Compare(const std::string& cls, const std::vector<u16>& loop, int loop_cycles, const std::vector<u16>& flat, int flat_cycles, int base, bool expect_clear = true) {
        const VState& s = bases[base];
        Out a, b;
        bool oka = Exec(s, loop, loop_cycles, a), okb = Exec(s, flat, flat_cycles, b);
        if (!okb)
            return; // the straight-line program itself is outside the modelled space
        digests.insert(Fnv(&a.s, sizeof(VState), a.r.write_digest));
        if (!oka) {
            Report(cls + ":outcome=" + OutcomeName(a.r.outcome), std::string("loop program ends with ") + OutcomeName(a.r.outcome) + " " + a.r.assert_expr, loop, loop_cycles, flat, flat_cycles, base);
            return;
        }
        std::string d = DiffNonLoop(a.s, b.s);
        if (!d.empty()) {
            u64 va = 0, vb = 0;
            for (auto& f : fields)
                if (f.name == d)
                    va = GetField(a.s, f), vb = GetField(b.s, f);
            Report(cls + ":" + d, Fmt("%s = %llX after the loop, %llX after the unrolled code", d.c_str(), (unsigned long long)va, (unsigned long long)vb), loop, loop_cycles, flat, flat_cycles, base);
            return;
        }
        if (a.r.write_digest != b.r.write_digest) {
            Report(cls + ":memory", "data memory written by the loop differs from the unrolled code", loop, loop_cycles, flat, flat_cycles, base);
            return;
        }
        if (expect_clear && (a.s.rep || a.s.lp || a.s.bcn)) {
            Report(cls + ":loop-state-not-cleared", Fmt("after the loop rep=%u lp=%u bcn=%u", a.s.rep, a.s.lp, a.s.bcn), loop, loop_cycles, flat, flat_cycles, base);
            return;
        }
        if (a.s.pc != s.pc + loop.size() - 1 && expect_clear)
            Report(cls + ":exit-pc", Fmt("pc=%05X after the loop, expected %05zX", a.s.pc, (size_t)(s.pc + loop.size() - 1)), loop, loop_cycles, flat, flat_cycles, base);
    }

    // ---------------- bodies ----------------
    static const std::vector<u16>& Bodies() {
        // inc a0 | inc a1 | shl a0 | add #1,a0 | add [r0]+,a0 | mov a0l,[r1]+ | modr [r5]+ | add #0xFF,a1 | neg a0 | banke cfgi,r1 | not a0 | mov r2,[r3]+
        // | mov #0x0E,icr (a write of the word that also shows the in-loop bit, with that bit clear: the loop goes on)
        static const std::vector<u16> b = {0x67D0, 0x77D0, 0x6720, 0xC601, 0x8688, 0x1B49, 0x008D, 0xC7FF, 0x6790, 0x4B85, 0x6780, 0x184B, 0x4F8E};
        return b;
    }

    static bool CountRegister(Reg r) {
        switch (r) {
        case R_r0: case R_r1: case R_r2: case R_r3: case R_r4: case R_r5: case R_r7: case R_y0: case R_sv: case R_ext0: case R_ext1: case R_ext2: case R_ext3:
        case R_a0l: case R_a1l: case R_b0l: case R_b1l: case R_a0h: case R_a1h: case R_b0h: case R_b1h: case R_cfgi: case R_cfgj:
            return true;
        default:
            return false;
        }
    }
    // ---------------- (A) single-instruction repeat ----------------
    void RepChecks(int base, bool thorough) {
        std::vector<u32> counts = {0, 1, 2, 3, 4, 5, 6, 7, 8, 255};
        for (u16 body : Bodies())
            for (u32 n : counts) {
                std::vector<u16> loop = {(u16)(0x0C00 | n), body, 0x0000};
                std::vector<u16> flat(n + 1, body);
                flat.push_back(0x0000);
                Compare(Fmt("rep-imm:body=%04X", body), loop, 1 + (int)n + 1, flat, (int)n + 1, base);
            }
        // count from a register (incl. 256 and 65535) and from r6
        std::vector<u32> rc = {0, 1, 3, 256};
        if (thorough)
            rc.push_back(65535);
        for (u16 body : {(u16)0x67D0, (u16)0x1B49, (u16)0x6720})
            for (u32 n : rc) {
                for (int form = 0; form < 2; ++form) {
                    VState s = bases[base];
                    std::vector<u16> loop = {(u16)(form == 0 ? 0x0D03 : 0x0002), body, 0x0000}; // rep r3 / rep r6
                    if (form == 0)
                        s.r[3] = (u16)n;
                    else
                        s.r[6] = (u16)n;
                    std::vector<u16> flat(n + 1, body);
                    flat.push_back(0x0000);
                    // run with the adjusted register in both programs
                    VState keep = bases[base];
                    bases[base] = s;
                    Compare(Fmt("rep-%s:body=%04X", form ? "r6" : "reg", body), loop, 1 + (int)n + 1, flat, (int)n + 1, base);
                    bases[base] = keep;
                }
            }
        // every Register operand as the count source, accumulators outside the 32-bit range
        for (int ri = 0; ri < 32; ++ri) {
            if (!CountRegister(kRegister[ri]))
                continue;
            for (u32 n : {0u, 1u, 3u}) {
                VState s = bases[base];
                s.a[0] = Sx40(0x1200000000ull), s.a[1] = Sx40(0x8000000000ull), s.b[0] = Sx40(0x7F00000000ull), s.b[1] = Sx40(0xFE00000000ull);
                c03::WriteReg16(s, kRegister[ri], (u16)n);
                u16 body = (kRegister[ri] == R_a0l || kRegister[ri] == R_a0h) ? 0x77D0 : 0x67D0;
                std::vector<u16> loop = {(u16)(0x0D00 | ri), body, 0x0000};
                std::vector<u16> flat(n + 1, body);
                flat.push_back(0x0000);
                VState keep = bases[base];
                bases[base] = s;
                Compare(Fmt("rep-reg:%s", kRegNames[kRegister[ri]]), loop, 1 + (int)n + 1, flat, (int)n + 1, base);
                bases[base] = keep;
            }
        }
        // an interrupt request pending when the repeat starts: the N+1 executions belong together (no entry between rep and the repeated
        // instruction or between two executions), the handler (a bare reti at the vector) runs once afterwards and the registers are those
        // of the unrolled code
        if (bases[base].pc < 0x10000)
            for (int line = 0; line < 3; ++line)
                for (u32 n : {1u, 3u}) {
                    VState s = bases[base];
                    u32 vec = 0x0006 + 8 * line;
                    s.pc = vec - 2;
                    s.ie = 1;
                    for (int i = 0; i < 3; ++i)
                        s.im[i] = i == line, s.ip[i] = i == line, s.ic[i] = 0;
                    s.imv = 0, s.ipv = 0;
                    std::vector<u16> loop = {(u16)(0x0C00 | n), 0x67D0, 0x45C0};
                    std::vector<u16> flat(n + 1, 0x67D0);
                    flat.push_back(0x0000);
                    VState f = s;
                    f.ip[line] = 0;
                    Out a, b;
                    if (!Exec(s, loop, 1 + (int)n + 1 + 1, a)) {
                        Report(Fmt("rep-irq:line=%d:outcome=%s", line, OutcomeName(a.r.outcome)), std::string("rep with a pending request ends with ") + OutcomeName(a.r.outcome) + " " + a.r.assert_expr, loop, (int)n + 3, loop, 0, base);
                        continue;
                    }
                    if (!Exec(f, flat, (int)n + 1, b))
                        continue;
                    std::string d = DiffNonLoop(a.s, b.s);
                    if (d.empty() && (a.s.rep || a.s.repc))
                        d = "rep/repc";
                    if (d.empty() && a.s.pc != vec)
                        d = "pc";
                    if (!d.empty())
                        Report(Fmt("rep-irq:line=%d:%s", line, d.c_str()), Fmt("rep #%u ; inc a0 with a request pending on int%d (handler: reti): %s differs from the unrolled code", n, line, d.c_str()), loop, (int)n + 3, loop, 0, base);
                }
        // the counter the program can see: mov repc,[arrn1+ars0] stores repc at [r4]+ on every execution
        for (u32 n : {0u, 1u, 2u, 5u, 8u}) {
            std::vector<u16> loop = {(u16)(0x0C00 | n), 0xD7D2, 0x0000};
            Out o;
            VState s = bases[base];
            s.arrn[1] = 4, s.arstep[0] = 1, s.m[4] = 0, s.br[4] = 0; // arrn1 -> r4, step +1
            if (!Exec(s, loop, (int)n + 2, o))
                continue;
            // each execution counts down once until the counter is exhausted: N-1, N-2, ..., 0, 0
            std::vector<u16> seen;
            for (int i = 0; i < o.r.n_logged; ++i)
                if (o.r.log[i].is_write && o.r.log[i].addr >= 0x20000)
                    seen.push_back(o.r.log[i].value);
            bool ok = seen.size() == n + 1;
            for (size_t i = 0; ok && i < seen.size(); ++i) {
                u16 want = (u16)(i < n ? n - 1 - i : 0);
                if (seen[i] != want)
                    ok = false;
            }
            for (size_t i = 1; ok && i < seen.size(); ++i)
                if (!(seen[i] == seen[i - 1] - 1 || (seen[i] == 0 && seen[i - 1] == 0)))
                    ok = false;
            if (!ok || o.s.rep || o.s.repc != 0) {
                std::string sv;
                for (u16 v : seen)
                    sv += Fmt("%u ", v);
                Report("rep:visible-counter", Fmt("rep %u: the repeated instruction observed repc = [%s], rep=%u repc=%u afterwards", n, sv.c_str(), o.s.rep, o.s.repc), loop, (int)n + 2, loop, 0, base);
            }
        }
    }

    // ---------------- (B,C) block repeats ----------------
    struct Node { // a block: count, instructions before the nested block, nested block (optional), instructions after
        int count;
        std::vector<u16> pre;
        std::vector<Node> inner; // 0 or 1 nested block
        std::vector<u16> post;   // at least one word if inner is non-empty (each level ends at its own address)
        bool by_register = false;
        int reg_index = 3; // Register operand index of the count register (3 = r3)
    };
    // instruction lengths of the body words we use
    static int Len(u16 op) {
        return (op == 0x86C0 || op == 0x5E03) ? 2 : 1; // add ##imm16,a0 ; mov ##imm16,r3
    }
    static void EmitSeq(const std::vector<u16>& seq, std::vector<u16>& out, int& cycles) {
        for (size_t i = 0; i < seq.size(); ++i) {
            out.push_back(seq[i]);
            if (Len(seq[i]) == 2) {
                out.push_back(seq[++i]);
            }
            ++cycles;
        }
    }
    // emit the loop form at absolute address `base_pc + out.size()`
    static void EmitLoop(const Node& n, u32 base_pc, std::vector<u16>& out, long& cycles) {
        size_t at = out.size();
        out.push_back(n.by_register ? (u16)(0x5D00 | n.reg_index) : (u16)(0x5C00 | n.count)); // bkrep reg / bkrep #count
        out.push_back(0); // end address, patched below
        ++cycles;
        long body_cycles = 0;
        int c = 0;
        EmitSeq(n.pre, out, c);
        body_cycles += c;
        for (auto& in : n.inner)
            EmitLoop(in, base_pc, out, body_cycles);
        c = 0;
        EmitSeq(n.post, out, c);
        body_cycles += c;
        u32 end = base_pc + (u32)out.size() - 1; // address of the last word of the block
        out[at + 1] = (u16)end;
        if (n.by_register)
            out[at] = (u16)(0x5D00 | n.reg_index | (((end >> 16) & 3) << 5));
        // the nested loops' own cycle counts were accumulated once; the whole body runs count+1 times
        cycles += body_cycles * (n.count + 1);
    }
    static void EmitFlat(const Node& n, std::vector<u16>& out, long& cycles) {
        for (int k = 0; k <= n.count; ++k) {
            int c = 0;
            EmitSeq(n.pre, out, c);
            cycles += c;
            for (auto& in : n.inner)
                EmitFlat(in, out, cycles);
            c = 0;
            EmitSeq(n.post, out, c);
            cycles += c;
        }
    }
    static long LoopCycles(const Node& n) { // cycles of the loop form: one for bkrep + (count+1) x body
        long body = 0;
        int c = 0;
        std::vector<u16> tmp;
        EmitSeq(n.pre, tmp, c);
        body += c;
        for (auto& in : n.inner)
            body += LoopCycles(in);
        c = 0;
        EmitSeq(n.post, tmp, c);
        body += c;
        return 1 + body * (n.count + 1);
    }
    void RunNode(const std::string& cls, const Node& n, int base) {
        std::vector<u16> loop, flat;
        long dummy = 0, fc = 0;
        EmitLoop(n, bases[base].pc, loop, dummy);
        loop.push_back(0x0000);
        EmitFlat(n, flat, fc);
        flat.push_back(0x0000);
        VState keep = bases[base];
        if (n.by_register) {
            // accumulators outside the 32-bit range: a count taken from an accumulator half is the raw half, never a saturated value
            bases[base].a[0] = Sx40(0x1200000000ull), bases[base].a[1] = Sx40(0x8000000000ull);
            bases[base].b[0] = Sx40(0x7F00000000ull), bases[base].b[1] = Sx40(0xFE00000000ull);
            c03::WriteReg16(bases[base], kRegister[n.reg_index], (u16)n.count);
        }
        Compare(cls, loop, (int)LoopCycles(n), flat, (int)fc, base);
        bases[base] = keep;
    }
    void BlockChecks(int base, bool thorough) {
        const auto& B = Bodies();
        // single level: blocks of 1, 2 and 3 instructions, and a two-word last instruction
        for (int count : {0, 1, 2, 3})
            for (size_t i = 0; i < B.size(); ++i) {
                RunNode(Fmt("bkrep:1-instr:body=%04X", B[i]), Node{count, {}, {}, {B[i]}}, base);
                for (size_t j = 0; j < B.size(); ++j) {
                    if (!thorough && (i + j) % 3 != 0)
                        continue;
                    RunNode("bkrep:2-instr", Node{count, {B[i]}, {}, {B[j]}}, base);
                    RunNode("bkrep:two-word-last", Node{count, {B[i], B[j]}, {}, {0x86C0, 0x0123}}, base);
                    for (size_t k = 0; k < B.size(); k += thorough ? 1 : 5)
                        RunNode("bkrep:3-instr", Node{count, {B[i], B[j]}, {}, {B[k]}}, base);
                }
            }
        // a block repeat abandoned by writing 1 to the LP bit (icr / stt2), followed by an ordinary block repeat: the second one runs
        // count+1 times and the in-loop state is clear afterwards
        for (int how = 0; how < 2; ++how)
            for (int c2 : {0, 1, 2}) {
                u32 P = bases[base].pc;
                std::vector<u16> abort_ins = how == 0 ? std::vector<u16>{0x4F90} : std::vector<u16>{0x0032, 0x8000}; // mov #0x10,icr / mov ##0x8000,stt2
                std::vector<u16> loop, flat;
                loop.push_back(0x5C03), loop.push_back(0);
                loop.push_back(0x67D0);
                for (u16 w : abort_ins)
                    loop.push_back(w);
                loop.push_back(0x67D0);
                loop[1] = (u16)(P + loop.size() - 1);
                loop.push_back(0x0000);
                size_t at = loop.size();
                loop.push_back((u16)(0x5C00 | c2)), loop.push_back(0);
                loop.push_back(0x77D0), loop.push_back(0xC601);
                loop[at + 1] = (u16)(P + loop.size() - 1);
                loop.push_back(0x0000);
                flat.push_back(0x67D0);
                for (u16 w : abort_ins)
                    flat.push_back(w);
                flat.push_back(0x67D0), flat.push_back(0x0000);
                for (int k = 0; k <= c2; ++k)
                    flat.push_back(0x77D0), flat.push_back(0xC601);
                flat.push_back(0x0000);
                Compare(Fmt("bkrep:abandoned-by-%s-then-bkrep", how ? "stt2" : "icr"), loop, 1 + 3 + 1 + 1 + 2 * (c2 + 1), flat, 3 + 1 + 2 * (c2 + 1), base);
            }
        // count from a register, incl. 255
        for (int count : {0, 1, 255}) {
            Node n{count, {0x67D0}, {}, {0x1B49}};
            n.by_register = true;
            RunNode("bkrep:register-count", n, base);
        }
        // ... from every Register operand, accumulators outside the 32-bit range
        for (int ri = 0; ri < 32; ++ri)
            if (CountRegister(kRegister[ri]) && kRegister[ri] != R_r1)
                for (int count : {0, 2}) {
                    bool a0 = kRegister[ri] == R_a0l || kRegister[ri] == R_a0h;
                    Node n{count, {(u16)(a0 ? 0x77D0 : 0x67D0)}, {}, {(u16)(a0 ? 0xC7FF : 0xC601)}};
                    n.by_register = true, n.reg_index = ri;
                    RunNode(Fmt("bkrep:count-from-%s", kRegNames[kRegister[ri]]), n, base);
                }
        // nesting depth 2..4, every count vector in {0,1,2}^depth, order-sensitive instructions at every level
        for (int depth = 2; depth <= 4; ++depth) {
            int combos = 1;
            for (int i = 0; i < depth; ++i)
                combos *= 3;
            for (int cv = 0; cv < combos; ++cv) {
                std::vector<int> counts;
                int x = cv;
                for (int i = 0; i < depth; ++i) {
                    counts.push_back(x % 3);
                    x /= 3;
                }
                // innermost first
                Node cur{counts[depth - 1], {}, {}, {(u16)(0xC600 | (2 * depth - 1))}};
                for (int lvl = depth - 2; lvl >= 0; --lvl) {
                    Node outer{counts[lvl], {(u16)(0xC600 | (2 * lvl + 1))}, {cur}, {0x6720}}; // add #(2l+1),a0 ; [inner] ; shl a0
                    cur = outer;
                }
                RunNode(Fmt("bkrep:nest-depth%d", depth), cur, base);
                // variant without a leading instruction at the outer levels
                Node cur2{counts[depth - 1], {0x1B49}, {}, {0x67D0}};
                for (int lvl = depth - 2; lvl >= 0; --lvl) {
                    Node outer{counts[lvl], {}, {cur2}, {(u16)(0xC700 | (lvl + 1))}};
                    cur2 = outer;
                }
                RunNode(Fmt("bkrep:nest-depth%d-b", depth), cur2, base);
            }
        }
        // the counter the program can see: mov lc,[r2]+ inside the block observes N, N-1, ..., 0
        for (u32 n : {0u, 1u, 2u, 3u, 7u}) {
            std::vector<u16> loop = {(u16)(0x5C00 | n), (u16)(bases[base].pc + 3), 0x1BCA, 0x67D0, 0x0000}; // the reader is not the block's last instruction
            Out o;
            if (!Exec(bases[base], loop, 1 + 2 * ((int)n + 1), o))
                continue;
            std::vector<u16> seen;
            for (int i = 0; i < o.r.n_logged; ++i)
                if (o.r.log[i].is_write && o.r.log[i].addr >= 0x20000)
                    seen.push_back(o.r.log[i].value);
            bool ok = seen.size() == n + 1;
            for (size_t i = 0; ok && i < seen.size(); ++i)
                if (seen[i] != (u16)(n - i))
                    ok = false;
            if (!ok || o.s.lp || o.s.bcn) {
                std::string sv;
                for (u16 v : seen)
                    sv += Fmt("%u ", v);
                Report("bkrep:visible-counter", Fmt("bkrep %u: the block observed lc = [%s], lp=%u bcn=%u afterwards", n, sv.c_str(), o.s.lp, o.s.bcn), loop, 1 + 2 * ((int)n + 1), loop, 0, base);
            }
        }
        // a single-instruction repeat inside a block, in the middle and as the block's last instruction
        for (int c : {0, 1, 2})
            for (u32 n : {0u, 1u, 3u})
                for (u16 body : {(u16)0x67D0, (u16)0x1B49, (u16)0x6720})
                    for (int at_end = 0; at_end < 2; ++at_end) {
                        std::vector<u16> blk = {0x77D0, (u16)(0x0C00 | n), body};
                        if (!at_end)
                            blk.push_back(0xC701);
                        std::vector<u16> loop = {(u16)(0x5C00 | c), (u16)(bases[base].pc + 1 + blk.size())};
                        loop.insert(loop.end(), blk.begin(), blk.end());
                        loop.push_back(0x0000);
                        std::vector<u16> flat;
                        for (int it = 0; it <= c; ++it) {
                            flat.push_back(0x77D0);
                            for (u32 k = 0; k <= n; ++k)
                                flat.push_back(body);
                            if (!at_end)
                                flat.push_back(0xC701);
                        }
                        int flat_cycles = (int)flat.size();
                        flat.push_back(0x0000);
                        int per_iter = 1 + 1 + (int)n + 1 + (at_end ? 0 : 1);
                        Compare(at_end ? "bkrep:rep-as-last-instruction" : "bkrep:rep-inside", loop, 1 + (c + 1) * per_iter, flat, flat_cycles, base);
                    }
        // break: pops the frame, the rest of the block runs once and falls through
        for (u32 n : {0u, 1u, 3u}) {
            std::vector<u16> loop = {(u16)(0x5C00 | n), (u16)(bases[base].pc + 4), 0x67D0, 0xD3C0, 0x77D0, 0x0000};
            std::vector<u16> flat = {0x67D0, 0x0000, 0x77D0, 0x0000};
            Compare("bkrep:break", loop, 4, flat, 3, base);
        }
    }

    // ---------------- (D) store ; restore of a loop frame ----------------
    void FrameChecks(int base) {
        for (int depth = 0; depth <= 4; ++depth)
            for (int via = 0; via < 6; ++via) {
                VState s = bases[base];
                s.lp = depth > 0, s.bcn = (u16)depth;
                for (int i = 0; i < 4; ++i)
                    s.bk[i] = {(u32)(0x02000 + 0x111 * i + (i == 1 ? 0x10000 : 0)), (u32)(0x02800 + 0x123 * i + (i == 2 ? 0x20000 : 0)), (u16)(0x10 + i), 0};
                // the frame that travels through memory: both ends in page 0 / a block that straddles a 64K page / pages 2 and 3
                const int pages = via / 2;
                if (pages == 1)
                    s.bk[0].end += 0x10000;
                if (pages == 2)
                    s.bk[0].start += 0x20000, s.bk[0].end += 0x30000;
                s.arrn[0] = 2; // arrn0 -> r2
                s.m[2] = s.br[2] = 0;
                s.r[2] = 0x6520;
                std::vector<u16> w = via % 2 == 0 ? std::vector<u16>{0x9468, 0x5F48, 0x0000} : std::vector<u16>{0xDADC, 0xDA9C, 0x0000};
                Out o;
                if (!Exec(s, w, 2, o)) {
                    if (o.r.outcome == OUT_ASSERT && depth == 4)
                        continue; // restoring into a full stack asserts deliberately; depth 4 store;restore never overflows, see below
                    Report(Fmt("frame:depth%d:outcome", depth), std::string("store;restore ends with ") + OutcomeName(o.r.outcome) + " " + o.r.assert_expr, w, 2, w, 0, base);
                    continue;
                }
                digests.insert(Fnv(&o.s, sizeof(VState), 991 + depth));
                std::string bad;
                if (o.s.lp != s.lp || o.s.bcn != s.bcn)
                    bad = Fmt("lp/bcn = %u/%u, expected %u/%u", o.s.lp, o.s.bcn, s.lp, s.bcn);
                for (int i = 0; i < std::max(depth, 1) && bad.empty(); ++i)
                    if (o.s.bk[i].start != s.bk[i].start || o.s.bk[i].end != s.bk[i].end || o.s.bk[i].lc != s.bk[i].lc)
                        bad = Fmt("frame %d = {%05X,%05X,%u}, expected {%05X,%05X,%u}", i, o.s.bk[i].start, o.s.bk[i].end, o.s.bk[i].lc, s.bk[i].start, s.bk[i].end, s.bk[i].lc);
                if (bad.empty() && (via % 2 == 0 ? o.s.sp != s.sp : o.s.r[2] != s.r[2]))
                    bad = "pointer register not restored";
                if (bad.empty()) {
                    // the four memory words: lc, start low, end low, flags (valid bit, start/end high bits)
                    std::vector<u16> written;
                    for (int i = 0; i < o.r.n_logged; ++i)
                        if (o.r.log[i].is_write && o.r.log[i].addr >= 0x20000)
                            written.push_back(o.r.log[i].value);
                    std::vector<u16> want = {s.bk[0].lc, (u16)s.bk[0].start, (u16)s.bk[0].end,
                                             (u16)((s.lp << 15) | (s.bk[0].start >> 16) | ((s.bk[0].end >> 16) << 8))};
                    if (written != want)
                        bad = "the stored frame words differ from the frame";
                }
                if (!bad.empty())
                    Report(Fmt("frame:depth%d:%s:pages%d", depth, via % 2 ? "arrn" : "sp", pages), "bkrepsto ; bkreprst does not round-trip: " + bad, w, 2, w, 0, base);
                // the pair used as prologue / epilogue: the loop counter is overwritten between the store and the restore (what a subroutine's
                // own loop does); the restore brings the saved frame back, also when it was saved outside any loop
                if (depth <= 1) {
                    std::vector<u16> w2 = {w[0], 0x5E1E, 0xBEEF, w[1], 0x0000};
                    Out o2;
                    if (!Exec(s, w2, 3, o2)) {
                        Report(Fmt("frame-clobber:depth%d:outcome", depth), std::string("store;mov ##imm,lc;restore ends with ") + OutcomeName(o2.r.outcome) + " " + o2.r.assert_expr, w2, 3, w2, 0, base);
                        continue;
                    }
                    std::string bad2;
                    if (o2.s.lp != s.lp || o2.s.bcn != s.bcn)
                        bad2 = Fmt("lp/bcn = %u/%u, expected %u/%u", o2.s.lp, o2.s.bcn, s.lp, s.bcn);
                    else if (o2.s.bk[0].start != s.bk[0].start || o2.s.bk[0].end != s.bk[0].end || o2.s.bk[0].lc != s.bk[0].lc)
                        bad2 = Fmt("frame 0 = {%05X,%05X,%04X}, expected {%05X,%05X,%04X}", o2.s.bk[0].start, o2.s.bk[0].end, o2.s.bk[0].lc, s.bk[0].start, s.bk[0].end, s.bk[0].lc);
                    else if (via % 2 == 0 ? o2.s.sp != s.sp : o2.s.r[2] != s.r[2])
                        bad2 = "pointer register not restored";
                    if (!bad2.empty())
                        Report(Fmt("frame-clobber:depth%d:%s:pages%d", depth, via % 2 ? "arrn" : "sp", pages), "bkrepsto ; mov ##0xBEEF,lc ; bkreprst does not bring the saved frame back: " + bad2, w2, 3, w2, 0, base);
                }
            }
    }
};

inline int RunReplay(const std::string& r, Result& res) {
    QuietStdout quiet;
    int base, lc, fc;
    size_t nl, nf;
    int used = 0;
    if (std::sscanf(r.c_str(), "c09 %d %d %zu%n", &base, &lc, &nl, &used) != 3)
        return 2;
    const char* p = r.c_str() + used;
    std::vector<u16> loop, flat;
    for (size_t i = 0; i < nl; ++i) {
        unsigned w;
        int u;
        if (std::sscanf(p, " %u%n", &w, &u) != 1)
            return 2;
        loop.push_back((u16)w);
        p += u;
    }
    if (std::sscanf(p, " | %d %zu%n", &fc, &nf, &used) != 2)
        return 2;
    p += used;
    for (size_t i = 0; i < nf; ++i) {
        unsigned w;
        int u;
        if (std::sscanf(p, " %u%n", &w, &u) != 1)
            return 2;
        flat.push_back((u16)w);
        p += u;
    }
    Engine e(res);
    if (base < 0 || base >= (int)e.bases.size())
        return 2;
    size_t sp = r.find(" | state ");
    if (sp != std::string::npos) {
        VState st;
        if (!ParseState(r.substr(sp + 9), st))
            return 2;
        if (!(fc == 0 || nf == 0))
            e.bases[base] = st;
    }
    if (fc == 0 || nf == 0) {
        // counter / frame / register-count checks: re-run the whole family for that base
        e.RepChecks(base, false);
        e.BlockChecks(base, false);
        e.FrameChecks(base);
        std::vector<Violation> keep;
        for (auto& v : res.violations)
            if (v.replay == r)
                keep.push_back(v);
        res.violations = keep;
    } else {
        e.Compare("replay", loop, lc, flat, fc, base);
    }
    for (auto& v : res.violations)
        quiet.Say(Fmt("  %s\n    %s\n", v.key.c_str(), v.text.c_str()));
    return res.violations.empty() ? 0 : 1;
}

inline void Run(const Args& args, Result& res) {
    res.property = "C09";
    bool th = args.thorough();
    RunPool(4,
            [&](int idx, int, WorkerBlock& blk, Result& local) {
                QuietStdout quiet;
                Engine e(local);
                e.RepChecks(idx, true);
                e.BlockChecks(idx, true);
                e.FrameChecks(idx);
                blk.evaluations = local.evaluations;
                blk.transitions = local.transitions;
                blk.traces = local.traces_validated;
                blk.states = local.evaluations / 2;
                blk.distinct = e.digests.size();
            },
            res);
    res.rule = "every loop program of the generated family is executed on the real interpreter and compared with its unrolled straight-line "
               "form executed on the same interpreter from the same state (4 base states incl. one in program page 2): rep with counts 0..8,255 (immediate), 0,1,3,256"
               "(,65535) (register, r6) x 13 one-word bodies, the count taken from every Register operand (accumulator halves of accumulators outside "
               "the 32-bit range included); bkrep with blocks of 1-3 instructions (+ a two-word last instruction) x counts 0..3, "
               "register count 255; nesting depth 2-4 with every count vector in {0,1,2}^depth and order-sensitive bodies; break; the "
               "program-visible counters (mov repc / mov lc inside the loop); bkrepsto;bkreprst at depth 0-4 through [sp] and [arrn]. "
               "All register-file fields except the loop-control registers and the multiset of data-memory writes must be equal; loop state "
               "must be clear on exit";
    res.bound = "full body product for 2- and 3-instruction blocks; rep counts up to 65535";
    (void)th;
    res.assumptions = {"every nesting level ends at its own address (two levels sharing one last instruction retire one level per fetch on this machine; toolchains pad it; left to C01)",
                       "rep: the repeated instruction observes repc after the decrement (N-1,...,0,0); bkrep: an instruction that is not the last of the block observes lc = N,...,0 (the end-of-block test runs when the last instruction is fetched)"};
    res.AddSample("rep #3 ; add [r0]+,a0   vs   4 x add [r0]+,a0");
    res.AddSample("bkrep #2 { add #1,a0 ; bkrep #1 { add #3,a0 } ; shl a0 }  vs  its 3 x (1 + 2 + 1) instruction unrolling");
}
} // namespace c09
