// Shared pieces of the instruction-level engine: glue library loading, the VState field table,
// the bounded state alphabet (bases + deviations), outcome comparison.
#pragma once
#include <dlfcn.h>
#include <cstddef>
#include "../common/verif.h"
#include "isa_abi.h"

namespace isa {
using namespace verif;

struct Lib {
    void* handle = nullptr;
    const GlueApi* api = nullptr;
    void* m = nullptr; // one machine per process (workers fork after loading)
};

inline std::string ExeDir() {
    char buf[4096];
    ssize_t n = readlink("/proc/self/exe", buf, sizeof(buf) - 1);
    buf[n > 0 ? n : 0] = 0;
    std::string s(buf);
    return s.substr(0, s.rfind('/'));
}
inline Lib LoadLib(const std::string& name) {
    Lib l;
    std::string path = ExeDir() + "/" + name;
    l.handle = dlopen(path.c_str(), RTLD_NOW | RTLD_LOCAL);
    if (!l.handle) {
        std::fprintf(stderr, "cannot load %s: %s\n", path.c_str(), dlerror());
        std::exit(2);
    }
    auto fn = reinterpret_cast<const GlueApi* (*)()>(dlsym(l.handle, "verif_glue_api"));
    if (!fn) {
        std::fprintf(stderr, "no verif_glue_api in %s\n", path.c_str());
        std::exit(2);
    }
    l.api = fn();
    l.m = l.api->create();
    return l;
}

// ---- field table over VState -----------------------------------------------------------------------
enum Kind { K_BIT, K_2BIT, K_3BIT, K_STEP7, K_MOD9, K_PAGE8, K_REG16, K_ADDR16, K_ACC40, K_P32, K_PC, K_FIXED, K_LC16 };
struct Field {
    std::string name;
    size_t off;
    int size; // bytes
    Kind kind;
    bool shadow; // hidden shadow slot
};
inline u64 GetField(const VState& s, const Field& f) {
    const u8* p = reinterpret_cast<const u8*>(&s) + f.off;
    if (f.size == 2) {
        u16 v;
        std::memcpy(&v, p, 2);
        return v;
    }
    if (f.size == 4) {
        u32 v;
        std::memcpy(&v, p, 4);
        return v;
    }
    u64 v;
    std::memcpy(&v, p, 8);
    return v;
}
inline void SetField(VState& s, const Field& f, u64 v) {
    u8* p = reinterpret_cast<u8*>(&s) + f.off;
    if (f.size == 2) {
        u16 x = (u16)v;
        std::memcpy(p, &x, 2);
    } else if (f.size == 4) {
        u32 x = (u32)v;
        std::memcpy(p, &x, 4);
    } else {
        std::memcpy(p, &v, 8);
    }
}

#define F1(member, kind) fields.push_back({#member, offsetof(VState, member), (int)sizeof(VState::member), kind, false})
#define FA(member, n, kind)                                                                                                     \
    for (int i = 0; i < n; ++i)                                                                                                 \
    fields.push_back({Fmt(#member "[%d]", i), offsetof(VState, member) + i * sizeof(VState::member[0]), (int)sizeof(VState::member[0]), kind, false})
#define FS(member, n, kind)                                                                                                     \
    for (int i = 0; i < n; ++i)                                                                                                 \
    fields.push_back({Fmt(#member "[%d]", i), offsetof(VState, member) + i * sizeof(VState::member[0]), (int)sizeof(VState::member[0]), kind, true})
#define FS1(member, kind) fields.push_back({#member, offsetof(VState, member), (int)sizeof(VState::member), kind, true})

inline std::vector<Field> AllFields() {
    std::vector<Field> fields;
    F1(pc, K_PC);
    F1(prpage, K_FIXED);
    F1(cpc, K_BIT);
    F1(repc, K_REG16);
    F1(repcs, K_REG16);
    F1(rep, K_FIXED);
    F1(crep, K_BIT);
    F1(bcn, K_FIXED);
    F1(lp, K_FIXED);
    for (int i = 0; i < 4; ++i) {
        fields.push_back({Fmt("bk[%d].start", i), offsetof(VState, bk) + i * sizeof(VState::bk[0]) + 0, 4, K_FIXED, false});
        fields.push_back({Fmt("bk[%d].end", i), offsetof(VState, bk) + i * sizeof(VState::bk[0]) + 4, 4, K_FIXED, false});
        fields.push_back({Fmt("bk[%d].lc", i), offsetof(VState, bk) + i * sizeof(VState::bk[0]) + 8, 2, K_LC16, false});
    }
    FA(a, 2, K_ACC40);
    FA(b, 2, K_ACC40);
    F1(a1s, K_ACC40);
    F1(b1s, K_ACC40);
    F1(ccnta, K_BIT);
    F1(sat, K_BIT);
    F1(sata, K_BIT);
    F1(s, K_BIT);
    F1(sv, K_REG16);
    F1(fz, K_BIT); F1(fm, K_BIT); F1(fn, K_BIT); F1(fv, K_BIT); F1(fe, K_BIT); F1(fc0, K_BIT); F1(fc1, K_BIT); F1(flm, K_BIT); F1(fvl, K_BIT); F1(fr, K_BIT);
    F1(vtr0, K_REG16);
    F1(vtr1, K_REG16);
    FA(x, 2, K_REG16);
    FA(y, 2, K_REG16);
    F1(hwm, K_2BIT);
    FA(p, 2, K_P32);
    FA(pe, 2, K_BIT);
    FA(ps, 2, K_2BIT);
    F1(p0h_cbs, K_REG16);
    FA(r, 8, K_ADDR16);
    F1(mixp, K_REG16);
    F1(sp, K_ADDR16);
    F1(page, K_PAGE8);
    F1(pcmhi, K_2BIT);
    F1(r0b, K_REG16); F1(r1b, K_REG16); F1(r4b, K_REG16); F1(r7b, K_REG16);
    F1(stepi, K_STEP7); F1(stepj, K_STEP7); F1(modi, K_MOD9); F1(modj, K_MOD9); F1(stepi0, K_REG16); F1(stepj0, K_REG16);
    F1(stepib, K_STEP7); F1(stepjb, K_STEP7); F1(modib, K_MOD9); F1(modjb, K_MOD9); F1(stepi0b, K_REG16); F1(stepj0b, K_REG16);
    FA(m, 8, K_BIT);
    FA(br, 8, K_BIT);
    F1(stp16, K_BIT); F1(cmd, K_BIT); F1(epi, K_BIT); F1(epj, K_BIT);
    FA(arstep, 4, K_3BIT); FA(arpstepi, 4, K_3BIT); FA(arpstepj, 4, K_3BIT);
    FA(aroffset, 4, K_2BIT); FA(arpoffseti, 4, K_2BIT); FA(arpoffsetj, 4, K_2BIT);
    FA(arrn, 4, K_3BIT); FA(arprni, 4, K_2BIT); FA(arprnj, 4, K_2BIT);
    FA(ip, 3, K_BIT);
    F1(ipv, K_BIT);
    FA(im, 3, K_BIT);
    F1(imv, K_BIT);
    FA(ic, 3, K_BIT);
    F1(nimc, K_BIT); F1(ie, K_BIT);
    FA(ou, 5, K_BIT);
    FA(iu, 2, K_BIT);
    FA(ext, 4, K_REG16);
    F1(mod0_unk_const, K_FIXED);
    FS(sh_flags, 10, K_BIT);
    FS1(sw_pcmhi, K_2BIT); FS1(sw_sat, K_BIT); FS1(sw_sata, K_BIT); FS1(sw_hwm, K_2BIT); FS1(sw_s, K_BIT);
    FS(sw_ps, 2, K_2BIT);
    FS1(sw_page, K_PAGE8); FS1(sw_stp16, K_BIT); FS1(sw_cmd, K_BIT);
    FS(sw_m, 8, K_BIT); FS(sw_br, 8, K_BIT); FS(sw_im, 3, K_BIT);
    FS1(sw_imv, K_BIT); FS1(sw_epi, K_BIT); FS1(sw_epj, K_BIT);
    FS(sw_arrn, 4, K_3BIT); FS(sw_arstep, 4, K_3BIT); FS(sw_aroffset, 4, K_2BIT);
    FS(sw_arprni, 4, K_2BIT); FS(sw_arprnj, 4, K_2BIT); FS(sw_arpstepi, 4, K_3BIT); FS(sw_arpstepj, 4, K_3BIT);
    FS(sw_arpoffseti, 4, K_2BIT); FS(sw_arpoffsetj, 4, K_2BIT);
    return fields;
}

inline u64 Sx40(u64 v) {
    v &= 0xFFFFFFFFFFull;
    if (v >> 39)
        v |= 0xFFFFFF0000000000ull;
    return v;
}

// value domain of a field kind; `wide` adds more boundary values (thorough tier)
inline std::vector<u64> Domain(Kind k, bool wide) {
    switch (k) {
    case K_BIT: return {0, 1};
    case K_2BIT: return {0, 1, 2, 3};
    case K_3BIT: return {0, 1, 2, 3, 4, 5, 6, 7};
    case K_STEP7: return wide ? std::vector<u64>{0, 1, 2, 3, 7, 8, 0x3F, 0x40, 0x7F} : std::vector<u64>{0, 1, 2, 0x40, 0x7F};
    case K_MOD9: return wide ? std::vector<u64>{0, 1, 2, 3, 7, 8, 0x3F, 0x40, 0x7F, 0xFF, 0x100, 0x1FF} : std::vector<u64>{0, 1, 7, 8, 0x100, 0x1FF};
    case K_PAGE8: return {0x00, 0x01, 0x64, 0xCC, 0xFF};
    case K_REG16: return wide ? std::vector<u64>{0, 1, 0x7FFF, 0x8000, 0xFFFF, 0x00FF, 0xFF00, 0x5555, 0x0028, 0xFFD8} : std::vector<u64>{0, 1, 0x7FFF, 0x8000, 0xFFFF};
    case K_LC16: return {0, 1, 2, 0xFFFF};
    case K_ADDR16: return wide ? std::vector<u64>{0, 1, 0x7FFF, 0x8000 + 0x1000, 0xFFFF, 0x6410, 0xCC10, 0x65FF, 0x0800}
                                : std::vector<u64>{0, 1, 0xFFFF, 0x6410, 0xCC10};
    case K_ACC40: {
        std::vector<u64> v = {0, 1, Sx40(0xFFFFFFFFFF), 0x7FFF, 0x8000, 0xFFFF, 0x10000, 0x7FFFFFFF, 0x80000000ull, Sx40(0xFF80000000ull), Sx40(0xFF7FFFFFFFull),
                              0x100000000ull, 0x7FFFFFFFFFull, Sx40(0x8000000000ull)};
        if (wide) {
            v.push_back(0x5555555555ull);
            v.push_back(Sx40(0xAAAAAAAAAAull));
            v.push_back(0x3FFFFFFF);
            v.push_back(0x40000000);
            v.push_back(Sx40(0xFFC0000000ull));
        }
        return v;
    }
    case K_P32: return wide ? std::vector<u64>{0, 1, 0x7FFFFFFF, 0x80000000u, 0xFFFFFFFFu, 0x00010000, 0x55555555, 0xAAAAAAAAu, 0x40000000}
                            : std::vector<u64>{0, 1, 0x7FFFFFFF, 0x80000000u, 0xFFFFFFFFu};
    case K_PC: return {0x0000, 0x1000, 0x1FFFE, 0x3FFF0};
    default: return {};
    }
}

// ---- base states ---------------------------------------------------------------------------------------
inline std::vector<std::pair<std::string, VState>> BaseStates(const Lib& lib, const std::vector<Field>& fields) {
    std::vector<std::pair<std::string, VState>> out;
    VState d;
    lib.api->default_state(&d);
    d.pc = 0x1000;
    d.sp = 0x0800;
    d.r[0] = 0x6410, d.r[1] = 0x6420, d.r[2] = 0x6430, d.r[3] = 0x6440, d.r[4] = 0xCC10, d.r[5] = 0xCC20, d.r[6] = 0xCC30, d.r[7] = 0xCC40;
    d.page = 0x64;
    out.push_back({"reset+pointers", d});
    {
        VState s = d; // all ones within hardware widths
        for (auto& f : fields) {
            auto dom = Domain(f.kind, false);
            if (dom.empty() || f.kind == K_PC || f.kind == K_ADDR16 || f.kind == K_PAGE8)
                continue;
            u64 mx = 0;
            for (u64 v : dom)
                if (f.kind == K_ACC40 ? (v == 0x7FFFFFFFFFull) : v > mx)
                    mx = v;
            SetField(s, f, f.kind == K_ACC40 ? Sx40(0xFFFFFFFFFFull) : mx);
        }
        out.push_back({"all-ones", s});
    }
    {
        VState s = d; // negative accumulators, saturation on
        s.a[0] = Sx40(0xFF80001234ull), s.a[1] = Sx40(0x8012345678ull), s.b[0] = Sx40(0xFFFFFF8000ull), s.b[1] = 0x7FFFFFFFFFull;
        s.sat = 0, s.sata = 0;
        s.x[0] = 0x8000, s.y[0] = 0xFFFF, s.x[1] = 0x7FFF, s.y[1] = 0x8001;
        s.p[0] = 0x80000000u, s.pe[0] = 1, s.p[1] = 0x7FFFFFFF;
        s.sv = 0xFFF0;
        out.push_back({"negative-acc,saturating", s});
    }
    {
        VState s = d; // modulo + bit reverse on
        for (int i = 0; i < 8; ++i)
            s.m[i] = (i % 2) == 0, s.br[i] = (i % 3) == 0;
        s.modi = 0x007, s.modj = 0x1FF, s.stepi = 0x7F, s.stepj = 0x02, s.stepi0 = 0x0100, s.stepj0 = 0xFFFE;
        s.cmd = 0;
        s.stp16 = 1;
        out.push_back({"modulo+bitreverse", s});
    }
    {
        VState s = d; // in block repeat, depth 2, this instruction is the last of the inner block
        s.lp = 1, s.bcn = 2;
        s.bk[0] = {0x0F00, 0x1200, 3, 0};
        s.bk[1] = {0x0FF0, 0x1000, 1, 0};
        out.push_back({"in-bkrep-depth2", s});
    }
    {
        VState s = d;
        s.rep = 1, s.repc = 2;
        out.push_back({"in-rep", s});
    }
    {
        VState s = d;
        s.ie = 1, s.im[0] = 1, s.im[2] = 1, s.imv = 1, s.ip[0] = 1, s.ip[2] = 1, s.ic[0] = 1;
        out.push_back({"interrupt-pending+enabled", s});
    }
    {
        VState s = d; // shadow banks filled with distinct values
        for (auto& f : fields)
            if (f.shadow) {
                auto dom = Domain(f.kind, false);
                if (!dom.empty())
                    SetField(s, f, dom[(f.off / 2) % dom.size()]);
            }
        s.a1s = 0x12345678, s.b1s = Sx40(0xFF87654321ull), s.repcs = 0x0033;
        s.r0b = 0x1110, s.r1b = 0x2220, s.r4b = 0x3330, s.r7b = 0x4440, s.stepib = 3, s.stepjb = 5, s.modib = 0x11, s.modjb = 0x22, s.stepi0b = 0x1234, s.stepj0b = 0x4321;
        s.ccnta = 0, s.crep = 0;
        out.push_back({"shadows-distinct", s});
    }
    return out;
}

inline const char* OutcomeName(int o) {
    static const char* n[] = {"ok", "unimplemented", "assert", "oob", "exception"};
    return o >= 0 && o < 5 ? n[o] : "?";
}

// name of the first VState field that differs
inline std::string FirstDiff(const std::vector<Field>& fields, const VState& a, const VState& b) {
    for (auto& f : fields)
        if (GetField(a, f) != GetField(b, f))
            return f.name;
    return std::memcmp(&a, &b, sizeof(VState)) ? "(padding)" : "";
}

inline std::string StateStr(const std::vector<Field>& fields, const VState& base, const VState& s) {
    std::string o;
    for (auto& f : fields)
        if (GetField(base, f) != GetField(s, f))
            o += Fmt("%s=%llX ", f.name.c_str(), (unsigned long long)GetField(s, f));
    return o.empty() ? "(base)" : o;
}
// full serialisation for replays
inline std::string SerState(const VState& s) {
    const u16* w = reinterpret_cast<const u16*>(&s);
    std::string o;
    for (size_t i = 0; i < sizeof(VState) / 2; ++i)
        o += Fmt("%x.", w[i]);
    return o;
}
inline bool ParseState(const std::string& str, VState& s) {
    u16* w = reinterpret_cast<u16*>(&s);
    const char* p = str.c_str();
    for (size_t i = 0; i < sizeof(VState) / 2; ++i) {
        char* e;
        w[i] = (u16)std::strtoul(p, &e, 16);
        if (*e != '.')
            return false;
        p = e + 1;
    }
    return true;
}

inline const std::vector<u16>& SecondWords(bool two_word, bool full) {
    static const std::vector<u16> one = {0x0000, 0xFFFF};
    static const std::vector<u16> few = {0x0000, 0xFFFF, 0x6420};
    static const std::vector<u16> all = {0x0000, 0xFFFF, 0x8000, 0x7FFF, 0x0001, 0x00FF, 0xFF00, 0x5555, 0xAAAA, 0x6420, 0xCC20, 0x1002};
    return two_word ? (full ? all : few) : one;
}
} // namespace isa
