// ISA encoding knowledge used by the independent oracles (C03 C04 C08 C09 C10 C20): operand field value ->
// register / operation names, transcribed from the Teak instruction-set description.  It is deliberately
// NOT taken from the repository's operand.h at build time, so a changed mapping there is detected.
#pragma once
#include "isa_common.h"

namespace isa {

enum Reg : int {
    R_a0, R_a0l, R_a0h, R_a0e, R_a1, R_a1l, R_a1h, R_a1e, R_b0, R_b0l, R_b0h, R_b0e, R_b1, R_b1l, R_b1h, R_b1e,
    R_r0, R_r1, R_r2, R_r3, R_r4, R_r5, R_r6, R_r7, R_y0, R_p, R_pc, R_sp, R_sv, R_lc, R_ar0, R_ar1, R_arp0, R_arp1, R_arp2, R_arp3,
    R_ext0, R_ext1, R_ext2, R_ext3, R_stt0, R_stt1, R_stt2, R_st0, R_st1, R_st2, R_cfgi, R_cfgj, R_mod0, R_mod1, R_mod2, R_mod3, R_undefined
};
static const char* kRegNames[] = {"a0", "a0l", "a0h", "a0e", "a1", "a1l", "a1h", "a1e", "b0", "b0l", "b0h", "b0e", "b1", "b1l", "b1h", "b1e",
                                  "r0", "r1", "r2", "r3", "r4", "r5", "r6", "r7", "y0", "p", "pc", "sp", "sv", "lc", "ar0", "ar1", "arp0", "arp1", "arp2", "arp3",
                                  "ext0", "ext1", "ext2", "ext3", "stt0", "stt1", "stt2", "st0", "st1", "st2", "cfgi", "cfgj", "mod0", "mod1", "mod2", "mod3", "undefined"};

// 5-bit "Register" operand
static const Reg kRegister[32] = {R_r0, R_r1, R_r2, R_r3, R_r4, R_r5, R_r7, R_y0, R_st0, R_st1, R_st2, R_p, R_pc, R_sp, R_cfgi, R_cfgj,
                                  R_b0h, R_b1h, R_b0l, R_b1l, R_ext0, R_ext1, R_ext2, R_ext3, R_a0, R_a1, R_a0l, R_a1l, R_a0h, R_a1h, R_lc, R_sv};
static const Reg kAx[2] = {R_a0, R_a1};
static const Reg kAxl[2] = {R_a0l, R_a1l};
static const Reg kAxh[2] = {R_a0h, R_a1h};
static const Reg kBx[2] = {R_b0, R_b1};
static const Reg kBxl[2] = {R_b0l, R_b1l};
static const Reg kBxh[2] = {R_b0h, R_b1h};
static const Reg kAb[4] = {R_b0, R_b1, R_a0, R_a1};
static const Reg kAbl[4] = {R_b0l, R_b1l, R_a0l, R_a1l};
static const Reg kAbh[4] = {R_b0h, R_b1h, R_a0h, R_a1h};
static const Reg kAbe[4] = {R_b0e, R_b1e, R_a0e, R_a1e};
static const Reg kAblh[8] = {R_b0l, R_b0h, R_b1l, R_b1h, R_a0l, R_a0h, R_a1l, R_a1h};
static const Reg kArArpSttMod[16] = {R_ar0, R_ar1, R_arp0, R_arp1, R_arp2, R_arp3, R_undefined, R_undefined,
                                     R_stt0, R_stt1, R_stt2, R_undefined, R_mod0, R_mod1, R_mod2, R_mod3};

enum AlmOpK { ALM_OR, ALM_AND, ALM_XOR, ALM_ADD, ALM_TST0, ALM_TST1, ALM_CMP, ALM_SUB, ALM_MSU, ALM_ADDH, ALM_ADDL, ALM_SUBH, ALM_SUBL, ALM_SQR, ALM_SQRA, ALM_CMPU, ALM_RESERVED };
static const char* kAlmNames[] = {"or", "and", "xor", "add", "tst0", "tst1", "cmp", "sub", "msu", "addh", "addl", "subh", "subl", "sqr", "sqra", "cmpu", "reserved"};
static const AlmOpK kAlu[8] = {ALM_OR, ALM_AND, ALM_XOR, ALM_ADD, ALM_RESERVED, ALM_RESERVED, ALM_CMP, ALM_SUB};

enum ModaK { MODA_SHR, MODA_SHR4, MODA_SHL, MODA_SHL4, MODA_ROR, MODA_ROL, MODA_CLR, MODA_RESERVED, MODA_NOT, MODA_NEG, MODA_RND, MODA_PACR, MODA_CLRR, MODA_INC, MODA_DEC, MODA_COPY };
static const char* kModaNames[] = {"shr", "shr4", "shl", "shl4", "ror", "rol", "clr", "reserved", "not", "neg", "rnd", "pacr", "clrr", "inc", "dec", "copy"};
static const ModaK kModa3[8] = {MODA_SHR, MODA_SHR4, MODA_SHL, MODA_SHL4, MODA_ROR, MODA_ROL, MODA_CLR, MODA_CLRR};

enum MulK { MUL_MPY, MUL_MPYSU, MUL_MAC, MUL_MACUS, MUL_MAA, MUL_MACUU, MUL_MACSU, MUL_MAASU };
static const MulK kMul2[4] = {MUL_MPY, MUL_MAC, MUL_MAA, MUL_MACSU};

// condition codes (4-bit Cond operand)
inline bool CondPass(int cond, const VState& s) {
    switch (cond) {
    case 0: return true;
    case 1: return s.fz == 1;
    case 2: return s.fz == 0;
    case 3: return s.fz == 0 && s.fm == 0;
    case 4: return s.fm == 0;
    case 5: return s.fm == 1;
    case 6: return s.fm == 1 || s.fz == 1;
    case 7: return s.fn == 0;
    case 8: return s.fc0 == 1;
    case 9: return s.fv == 1;
    case 10: return s.fe == 1;
    case 11: return s.flm == 1 || s.fvl == 1;
    case 12: return s.fr == 0;
    case 13: return s.iu[0] == 0;
    case 14: return s.iu[0] == 1;
    default: return s.iu[1] == 1;
    }
}
static const char* kCondNames[] = {"always", "eq", "neq", "gt", "ge", "lt", "le", "nn", "c", "v", "e", "l", "nr", "niu0", "iu0", "iu1"};

// accumulator index 0..3 = a0 a1 b0 b1
inline int AccIndex(Reg r) {
    if (r >= R_a0 && r <= R_a0e) return 0;
    if (r >= R_a1 && r <= R_a1e) return 1;
    if (r >= R_b0 && r <= R_b0e) return 2;
    if (r >= R_b1 && r <= R_b1e) return 3;
    return -1;
}
inline u64& AccRef(VState& s, int idx) {
    return idx < 2 ? s.a[idx] : s.b[idx - 2];
}
inline u64 AccVal(const VState& s, int idx) {
    return idx < 2 ? s.a[idx] : s.b[idx - 2];
}
inline long long S40(u64 v) { // signed value of a 40-bit accumulator image
    return (long long)Sx40(v);
}

// helper: does arg i of the decode have the given operand type?  (type names are demangled and truncated
// to 23 characters; alias templates such as Alm/Alu/Moda4/Moda3/Cond are told apart by prefix + width)
inline bool ArgIs(const DecodeInfo& d, int i, const char* type) {
    if (i >= d.nargs)
        return false;
    const char* t = d.arg_types[i];
    if (!std::strcmp(type, "Alm"))
        return !std::strncmp(t, "EnumOperand<AlmOp", 17) && d.arg_bits[i] == 4;
    if (!std::strcmp(type, "Alu"))
        return !std::strncmp(t, "EnumOperand<AlmOp", 17) && d.arg_bits[i] == 3;
    if (!std::strcmp(type, "Moda4"))
        return !std::strncmp(t, "EnumOperand<ModaOp", 18) && d.arg_bits[i] == 4;
    if (!std::strcmp(type, "Moda3"))
        return !std::strncmp(t, "EnumOperand<ModaOp", 18) && d.arg_bits[i] == 3;
    if (!std::strcmp(type, "Mul3"))
        return !std::strncmp(t, "EnumOperand<MulOp", 17) && d.arg_bits[i] == 3;
    if (!std::strcmp(type, "Mul2"))
        return !std::strncmp(t, "EnumOperand<MulOp", 17) && d.arg_bits[i] == 2;
    if (!std::strcmp(type, "StepZIDS"))
        return !std::strncmp(t, "EnumOperand<StepValue", 21);
    if (!std::strcmp(type, "Cond"))
        return !std::strncmp(t, "EnumAllOperand<CondVal", 22);
    if (!std::strcmp(type, "Alb"))
        return !std::strncmp(t, "EnumAllOperand<AlbOp", 20);
    if (!std::strcmp(type, "SwapType"))
        return !std::strncmp(t, "EnumAllOperand<SwapTyp", 22);
    return std::strcmp(t, type) == 0;
}
// signature check: ArgsAre(d, {"Alm","MemImm8","Ax"})
inline bool ArgsAre(const DecodeInfo& d, std::initializer_list<const char*> types) {
    if ((int)types.size() != d.nargs)
        return false;
    int i = 0;
    for (const char* t : types)
        if (!ArgIs(d, i++, t))
            return false;
    return true;
}
inline std::string ArgSig(const DecodeInfo& d) {
    std::string s;
    for (int i = 0; i < d.nargs; ++i)
        s += std::string(i ? "," : "") + d.arg_types[i];
    return s;
}
} // namespace isa
