// C03 — accumulator add/sub/compare/logic/inc/dec/neg/rnd/copy: every encoding of these families x boundary
// alphabets, checked against exact integer arithmetic (independent oracle, no reference library involved).
#pragma once
#include "isa_spec.h"

namespace c03 {
using namespace isa;

enum SrcKind { S_NONE, S_MEM, S_REG16, S_ACC, S_PROD, S_IMM16, S_CONST };
enum Ext { X_SIGNED, X_UNSIGNED, X_HIGH, X_FULL };
enum OpK { O_ADD, O_SUB, O_CMP, O_OR, O_AND, O_XOR, O_INC, O_DEC, O_NEG, O_RND, O_COPY, O_CLR, O_CLRR, O_NOT, O_MOVR };
static const char* kOpNames[] = {"add", "sub", "cmp", "or", "and", "xor", "inc", "dec", "neg", "rnd", "copy", "clr", "clrr", "not", "movr"};

struct Plan {
    bool valid = false;
    OpK op;
    Ext ext = X_FULL;
    int dst = 0;  // accumulator index written (or compared)
    int acc_in = 0; // accumulator whose value is the left operand (usually == dst)
    SrcKind src = S_NONE;
    u32 mem_addr = 0; // for S_MEM
    Reg reg = R_undefined; // for S_REG16
    int src_acc = 0;       // for S_ACC (second source for or_)
    int src_acc2 = -1;     // for three-operand or: second source accumulator
    int prod = 0;          // for S_PROD
    long long konst = 0;   // for S_CONST
    int cond = 0;          // condition code, 0 = always
    std::string form;
    std::function<void(VState&)> setup; // registers that make the operand address come out at mem_addr
};

inline Ext ExtOf(AlmOpK op) {
    switch (op) {
    case ALM_ADD: case ALM_SUB: case ALM_CMP: return X_SIGNED;
    case ALM_ADDH: case ALM_SUBH: return X_HIGH;
    default: return X_UNSIGNED; // addl subl cmpu or and xor
    }
}
inline bool AlmToOp(AlmOpK a, OpK& o) {
    switch (a) {
    case ALM_OR: o = O_OR; return true;
    case ALM_AND: o = O_AND; return true;
    case ALM_XOR: o = O_XOR; return true;
    case ALM_ADD: case ALM_ADDH: case ALM_ADDL: o = O_ADD; return true;
    case ALM_SUB: case ALM_SUBH: case ALM_SUBL: o = O_SUB; return true;
    case ALM_CMP: case ALM_CMPU: o = O_CMP; return true;
    default: return false;
    }
}

// Build the plan of one opcode from its decode; invalid = not a C03 family member (or carved out)
inline Plan MakePlan(u16 opcode, const DecodeInfo& d) {
    Plan p;
    std::string n = d.name;
    const u32 kAddr = 0x6480;
    auto alm_common = [&](AlmOpK a, int ax) {
        OpK o;
        if (!AlmToOp(a, o))
            return false;
        p.op = o;
        p.ext = ExtOf(a);
        p.dst = p.acc_in = ax; // Ax: 0 = a0, 1 = a1
        p.form = std::string(kAlmNames[a]);
        return true;
    };
    if (n == "alm" && ArgsAre(d, {"Alm", "MemImm8", "Ax"})) {
        if (!alm_common((AlmOpK)d.args[0], d.args[2]))
            return p;
        p.src = S_MEM;
        p.mem_addr = 0x6400 + d.args[1];
        p.setup = [](VState& s) { s.page = 0x64; };
        p.form += " [page:imm8]";
        p.valid = true;
    } else if (n == "alm" && ArgsAre(d, {"Alm", "Rn", "StepZIDS", "Ax"})) {
        if (!alm_common((AlmOpK)d.args[0], d.args[3]))
            return p;
        int rn = d.args[1];
        p.src = S_MEM;
        p.mem_addr = kAddr;
        p.setup = [rn](VState& s) {
            s.r[rn] = 0x6480;
            s.m[rn] = 0, s.br[rn] = 0;
            s.epi = s.epj = 0;
        };
        p.form += " [Rn]";
        p.valid = true;
    } else if (n == "alm" && ArgsAre(d, {"Alm", "Register", "Ax"})) {
        AlmOpK a = (AlmOpK)d.args[0];
        if (!alm_common(a, d.args[2]))
            return p;
        Reg r = kRegister[d.args[1]];
        if (r == R_p) {
            if (!(a == ALM_OR || a == ALM_AND || a == ALM_XOR || a == ALM_ADD || a == ALM_CMP || a == ALM_SUB))
                return p; // documented as unimplemented for the other operations
            p.src = S_PROD, p.prod = 0, p.ext = X_FULL;
        } else if (r == R_a0 || r == R_a1) {
            if (!(a == ALM_OR || a == ALM_AND || a == ALM_XOR || a == ALM_ADD || a == ALM_CMP || a == ALM_SUB))
                return p;
            p.src = S_ACC, p.src_acc = AccIndex(r), p.ext = X_FULL;
        } else if (r == R_pc || r == R_st0 || r == R_st1 || r == R_st2) {
            return p; // pc aborts deliberately; status words are composite views (C20/C01)
        } else {
            p.src = S_REG16, p.reg = r;
        }
        p.form += std::string(" ") + kRegNames[r];
        p.valid = true;
    } else if (n == "alm_r6" && ArgsAre(d, {"Alm", "Ax"})) {
        if (!alm_common((AlmOpK)d.args[0], d.args[1]))
            return p;
        p.src = S_REG16, p.reg = R_r6;
        p.form += " r6";
        p.valid = true;
    } else if (n == "alu" && d.nargs == 3 && ArgIs(d, 0, "Alu") && ArgIs(d, 2, "Ax")) {
        AlmOpK a = kAlu[d.args[0]];
        if (!alm_common(a, d.args[2]))
            return p;
        if (ArgIs(d, 1, "MemImm16")) {
            p.src = S_MEM, p.mem_addr = kAddr; // second word = address
            p.form += " [imm16]";
        } else if (ArgIs(d, 1, "MemR7Imm16")) {
            p.src = S_MEM, p.mem_addr = kAddr;
            p.setup = [](VState& s) { s.r[7] = 0x6400; }; // second word = 0x0080
            p.form += " [r7+imm16]";
        } else if (ArgIs(d, 1, "Imm16")) {
            p.src = S_IMM16;
            p.form += " imm16";
        } else if (ArgIs(d, 1, "Imm8")) {
            if (a == ALM_AND)
                return p; // documented hardware quirk (bits 8..15 kept): carved out, covered by C01
            p.src = S_CONST, p.konst = d.args[1];
            p.form += " imm8";
        } else if (ArgIs(d, 1, "MemR7Imm7s")) {
            int imm = d.args[1];
            int simm = (imm & 0x40) ? imm - 0x80 : imm;
            p.src = S_MEM, p.mem_addr = kAddr;
            p.setup = [simm](VState& s) { s.r[7] = (u16)(0x6480 - simm); };
            p.form += " [r7+imm7s]";
        } else {
            return p;
        }
        p.valid = true;
    } else if ((n == "add" || n == "sub") && d.nargs == 2) {
        p.op = n == "add" ? O_ADD : O_SUB;
        p.ext = X_FULL;
        if (ArgsAre(d, {"Ab", "Bx"})) {
            p.src = S_ACC, p.src_acc = AccIndex(kAb[d.args[0]]), p.dst = p.acc_in = AccIndex(kBx[d.args[1]]);
        } else if (ArgsAre(d, {"Bx", "Ax"})) {
            p.src = S_ACC, p.src_acc = AccIndex(kBx[d.args[0]]), p.dst = p.acc_in = AccIndex(kAx[d.args[1]]);
        } else if (ArgsAre(d, {"Px", "Bx"})) {
            p.src = S_PROD, p.prod = d.args[0], p.dst = p.acc_in = AccIndex(kBx[d.args[1]]);
        } else {
            return p;
        }
        p.form = n + " (" + ArgSig(d) + ")";
        p.valid = true;
    } else if ((n == "add_p1" || n == "sub_p1") && ArgsAre(d, {"Ax"})) {
        p.op = n == "add_p1" ? O_ADD : O_SUB;
        p.src = S_PROD, p.prod = 1, p.dst = p.acc_in = d.args[0];
        p.form = n;
        p.valid = true;
    } else if (n == "cmp" && d.nargs == 2) {
        p.op = O_CMP;
        if (ArgsAre(d, {"Ax", "Bx"}))
            p.src = S_ACC, p.src_acc = AccIndex(kAx[d.args[0]]), p.dst = p.acc_in = AccIndex(kBx[d.args[1]]);
        else if (ArgsAre(d, {"Bx", "Ax"}))
            p.src = S_ACC, p.src_acc = AccIndex(kBx[d.args[0]]), p.dst = p.acc_in = AccIndex(kAx[d.args[1]]);
        else
            return p;
        p.form = "cmp (" + ArgSig(d) + ")";
        p.valid = true;
    } else if (n == "cmp_b0_b1") {
        p.op = O_CMP, p.src = S_ACC, p.src_acc = 2, p.dst = p.acc_in = 3, p.form = n, p.valid = true;
    } else if (n == "cmp_b1_b0") {
        p.op = O_CMP, p.src = S_ACC, p.src_acc = 3, p.dst = p.acc_in = 2, p.form = n, p.valid = true;
    } else if (n == "cmp_p1_to" && ArgsAre(d, {"Ax"})) {
        p.op = O_CMP, p.src = S_PROD, p.prod = 1, p.dst = p.acc_in = d.args[0], p.form = n, p.valid = true;
    } else if (n == "or_" && d.nargs == 3) {
        p.op = O_OR;
        if (ArgsAre(d, {"Ab", "Ax", "Ax"}))
            p.src_acc = AccIndex(kAb[d.args[0]]), p.acc_in = AccIndex(kAx[d.args[1]]), p.dst = AccIndex(kAx[d.args[2]]);
        else if (ArgsAre(d, {"Ax", "Bx", "Ax"}))
            p.src_acc = AccIndex(kAx[d.args[0]]), p.acc_in = AccIndex(kBx[d.args[1]]), p.dst = AccIndex(kAx[d.args[2]]);
        else if (ArgsAre(d, {"Bx", "Bx", "Ax"}))
            p.src_acc = AccIndex(kBx[d.args[0]]), p.acc_in = AccIndex(kBx[d.args[1]]), p.dst = AccIndex(kAx[d.args[2]]);
        else
            return p;
        p.src = S_ACC;
        p.form = "or (" + ArgSig(d) + ")";
        p.valid = true;
    } else if ((n == "moda4" && ArgsAre(d, {"Moda4", "Ax", "Cond"})) || (n == "moda3" && ArgsAre(d, {"Moda3", "Bx", "Cond"}))) {
        ModaK mk = n == "moda4" ? (ModaK)d.args[0] : kModa3[d.args[0]];
        p.dst = p.acc_in = n == "moda4" ? d.args[1] : 2 + d.args[1];
        p.cond = d.args[2];
        switch (mk) {
        case MODA_INC: p.op = O_INC; break;
        case MODA_DEC: p.op = O_DEC; break;
        case MODA_NEG: p.op = O_NEG; break;
        case MODA_RND: p.op = O_RND; break;
        case MODA_CLR: p.op = O_CLR; break;
        case MODA_CLRR: p.op = O_CLRR; break;
        case MODA_NOT: p.op = O_NOT; break;
        case MODA_COPY:
            p.op = O_COPY;
            p.src = S_ACC, p.src_acc = p.dst == 0 ? 1 : 0;
            break;
        default: return p; // shifts/rotates/pacr belong to C04
        }
        p.form = std::string(kModaNames[mk]) + (n == "moda4" ? " Ax" : " Bx");
        p.valid = true;
    } else if (n == "movr" && ArgsAre(d, {"Bx", "Ax"})) {
        p.op = O_MOVR, p.src = S_ACC, p.src_acc = AccIndex(kBx[d.args[0]]), p.dst = d.args[1], p.acc_in = p.src_acc;
        p.form = "movr Bx,Ax";
        p.valid = true;
    } else if (n == "movr" && ArgsAre(d, {"Register", "Ax"})) {
        Reg r = kRegister[d.args[0]];
        if (r == R_a0 || r == R_a1) {
            p.op = O_MOVR, p.src = S_ACC, p.src_acc = AccIndex(r), p.dst = d.args[1], p.acc_in = p.src_acc;
            p.form = std::string("movr ") + kRegNames[r] + ",Ax";
            p.valid = true;
        }
        // the 16-bit register forms are a documented hardware quirk (carry from bit 16, V cleared): C01 only
    }
    return p;
}

struct FlagsOut {
    int fz, fm, fe, fn, fc0, fv, fvl, flm;
};

// exact arithmetic on 40-bit two's complement values held as sign-extended long long
struct Oracle {
    static long long Wrap40(__int128 t) {
        unsigned long long u = (unsigned long long)(t & (((__int128)1 << 40) - 1));
        return (long long)Sx40(u);
    }
    // returns false if the statement does not define the case
    static void Eval(const Plan& p, long long A, long long B, const VState& before, u64& acc_out, bool& acc_written, FlagsOut& f) {
        f = {before.fz, before.fm, before.fe, before.fn, before.fc0, before.fv, before.fvl, before.flm};
        acc_written = false;
        acc_out = 0;
        auto zmen = [&](long long r) {
            f.fz = r == 0;
            f.fm = r < 0;
            f.fe = r != (long long)(int)r; // does not fit 32 bits
            int b31 = (r >> 31) & 1, b30 = (r >> 30) & 1;
            f.fn = f.fz || (!f.fe && b31 != b30);
        };
        auto store_sat = [&](long long r) {
            if (before.sata == 0 && r != (long long)(int)r) {
                r = r < 0 ? -0x80000000ll : 0x7FFFFFFFll;
                f.flm = 1;
            }
            acc_out = (u64)r;
            acc_written = true;
        };
        auto addsub = [&](long long a, long long b, bool sub) {
            __int128 t = sub ? (__int128)a - b : (__int128)a + b;
            long long r = Wrap40(t);
            unsigned long long ua = (unsigned long long)a & 0xFFFFFFFFFFull, ub = (unsigned long long)b & 0xFFFFFFFFFFull;
            f.fc0 = sub ? (ua < ub) : (((ua + ub) >> 40) & 1);
            f.fv = t != (__int128)r;
            if (f.fv)
                f.fvl = 1;
            return r;
        };
        switch (p.op) {
        case O_ADD: { long long r = addsub(A, B, false); zmen(r); store_sat(r); break; }
        case O_SUB: { long long r = addsub(A, B, true); zmen(r); store_sat(r); break; }
        case O_CMP: { long long r = addsub(A, B, true); zmen(r); break; }
        case O_INC: { long long r = addsub(A, 1, false); zmen(r); store_sat(r); break; }
        case O_DEC: { long long r = addsub(A, 1, true); zmen(r); store_sat(r); break; }
        case O_NEG: { long long r = addsub(0, A, true); zmen(r); store_sat(r); break; }
        case O_RND: { long long r = addsub(A, 0x8000, false); zmen(r); store_sat(r); break; }
        case O_MOVR: { long long r = addsub(A, 0x8000, false); zmen(r); store_sat(r); break; }
        case O_COPY: { zmen(B); store_sat(B); break; }
        case O_CLR: { zmen(0); store_sat(0); break; }
        case O_CLRR: { zmen(0x8000); store_sat(0x8000); break; }
        case O_OR: case O_AND: case O_XOR: {
            long long r = p.op == O_OR ? (A | B) : p.op == O_AND ? (A & B) : (A ^ B);
            r = Wrap40(r);
            zmen(r);
            acc_out = (u64)r; // bitwise results are stored unsaturated (see DESIGN, reading of the statement)
            acc_written = true;
            break;
        }
        case O_NOT: {
            long long r = Wrap40(~A);
            zmen(r);
            acc_out = (u64)r;
            acc_written = true;
            break;
        }
        }
    }
};

inline std::vector<u64> A40(bool full) {
    std::set<u64> s;
    for (int k = 0; k < 40; ++k) {
        if (!full && !(k <= 2 || (k >= 14 && k <= 17) || (k >= 29 && k <= 33) || k >= 38))
            continue;
        u64 p = 1ull << k;
        s.insert(Sx40(p)), s.insert(Sx40(p - 1)), s.insert(Sx40(~p + 1)), s.insert(Sx40(~p));
    }
    s.insert(0), s.insert(Sx40(0x5555555555ull)), s.insert(Sx40(0xAAAAAAAAAAull)), s.insert(0x12345678), s.insert(Sx40(0xFF87654321ull));
    return std::vector<u64>(s.begin(), s.end());
}
inline std::vector<u16> O16(bool full) {
    if (!full)
        return {0x0000, 0x0001, 0x7FFF, 0x8000, 0xFFFF, 0x00FF, 0xFF00, 0x5555, 0x8001, 0xFFFE, 0x4000, 0x1234};
    return {0x0000, 0x0001, 0x0002, 0x007F, 0x0080, 0x00FF, 0x0100, 0x7FFF, 0x8000, 0x8001, 0xFFFE, 0xFFFF,
            0x5555, 0xAAAA, 0xFF00, 0x4000, 0xC000, 0x3FFF, 0xBFFF, 0x0010, 0xFFF0, 0x1234, 0xEDCB, 0x7FFE};
}

// read a 16-bit register operand the way the instruction set names it
inline u16 ReadReg16(const VState& s, Reg r) {
    switch (r) {
    case R_r0: case R_r1: case R_r2: case R_r3: case R_r4: case R_r5: case R_r6: case R_r7: return s.r[r - R_r0];
    case R_y0: return s.y[0];
    case R_sp: return s.sp;
    case R_sv: return s.sv;
    case R_lc: return s.lp ? s.bk[s.bcn - 1].lc : s.bk[0].lc;
    case R_ext0: case R_ext1: case R_ext2: case R_ext3: return s.ext[r - R_ext0];
    case R_cfgi: return (u16)((s.stepi & 0x7F) | (s.modi << 7));
    case R_cfgj: return (u16)((s.stepj & 0x7F) | (s.modj << 7));
    case R_a0l: case R_a1l: case R_b0l: case R_b1l: return (u16)AccVal(s, AccIndex(r));
    case R_a0h: case R_a1h: case R_b0h: case R_b1h: return (u16)(AccVal(s, AccIndex(r)) >> 16);
    default: return 0;
    }
}
inline void WriteReg16(VState& s, Reg r, u16 v) {
    switch (r) {
    case R_r0: case R_r1: case R_r2: case R_r3: case R_r4: case R_r5: case R_r6: case R_r7: s.r[r - R_r0] = v; break;
    case R_y0: s.y[0] = v; break;
    case R_sp: s.sp = v; break;
    case R_sv: s.sv = v; break;
    case R_lc: s.bk[0].lc = v; break;
    case R_ext0: case R_ext1: case R_ext2: case R_ext3: s.ext[r - R_ext0] = v; break;
    case R_cfgi: s.stepi = v & 0x7F, s.modi = v >> 7; break;
    case R_cfgj: s.stepj = v & 0x7F, s.modj = v >> 7; break;
    case R_a0l: case R_a1l: case R_b0l: case R_b1l: {
        u64& a = AccRef(s, AccIndex(r));
        a = (a & ~0xFFFFull) | v;
        break;
    }
    case R_a0h: case R_a1h: case R_b0h: case R_b1h: {
        u64& a = AccRef(s, AccIndex(r));
        a = (a & ~0xFFFF0000ull) | ((u64)v << 16);
        break;
    }
    default: break;
    }
}

struct Engine {
    Lib impl;
    std::vector<Field> fields;
    VState base;
    Result& res;
    DigestSet digests;
    explicit Engine(Result& r) : res(r) {
        impl = LoadLib("libimpl.so");
        fields = AllFields();
        impl.api->default_state(&base);
        base.pc = 0x1000;
        base.sp = 0x0800;
        impl.api->fill_memory(impl.m, 0);
    }

    // flag pre-states: 0 = all clear, 1 = all set, 2 = z e c v set / m n vl lm clear (an overflow whose latch software has cleared),
    // 3 = the complement of 2
    static void SetFlagsPre(VState& s, int code) {
        const bool a = code == 1 || code == 2, b = code == 1 || code == 3;
        s.fz = s.fe = s.fc0 = s.fv = s.fr = (u16)a;
        s.fm = s.fn = s.fvl = s.flm = s.fc1 = (u16)b;
    }
    // one concrete case
    void Case(u16 opcode, const DecodeInfo& d, const Plan& p, u64 A, u64 Bacc, u16 B16, int sata, int flags_pre) {
        VState s = base;
        s.sata = (u16)sata;
        SetFlagsPre(s, flags_pre);
        if (p.setup)
            p.setup(s);
        AccRef(s, p.acc_in) = A;
        u16 exp = 0;
        switch (p.src) {
        case S_MEM:
            impl.api->poke_data(impl.m, p.mem_addr, B16);
            exp = ArgIs(d, 1, "MemImm16") ? (u16)p.mem_addr : 0x0080;
            break;
        case S_REG16: WriteReg16(s, p.reg, B16); break;
        case S_ACC: AccRef(s, p.src_acc) = Bacc; break;
        case S_PROD:
            s.p[p.prod] = (u32)Bacc;
            s.pe[p.prod] = (Bacc >> 32) & 1;
            s.ps[p.prod] = 0;
            break;
        case S_IMM16: exp = B16; break;
        default: break;
        }
        if (p.src_acc2 >= 0)
            AccRef(s, p.src_acc2) = Bacc;
        // effective operand values as the instruction set names them, read back from the prepared state
        long long Aeff = S40(AccVal(s, p.acc_in));
        long long Beff = 0;
        u16 raw16 = 0;
        switch (p.src) {
        case S_MEM: raw16 = B16; break;
        case S_REG16: raw16 = ReadReg16(s, p.reg); break;
        case S_IMM16: raw16 = B16; break;
        case S_CONST: raw16 = (u16)p.konst; break;
        case S_ACC: Beff = S40(AccVal(s, p.src_acc)); break;
        case S_PROD: Beff = (long long)(((s.pe[p.prod] & 1) ? 0xFFFFFFFF00000000ull : 0ull) | s.p[p.prod]); break;
        default: break;
        }
        if (p.src == S_MEM || p.src == S_REG16 || p.src == S_IMM16 || p.src == S_CONST) {
            switch (p.ext) {
            case X_SIGNED: Beff = (short)raw16; break;
            case X_UNSIGNED: Beff = raw16; break;
            case X_HIGH: Beff = (long long)(int)((u32)raw16 << 16); break;
            default: Beff = raw16; break;
            }
        }
        bool pass = CondPass(p.cond, s);
        u64 want_acc = 0;
        bool written = false;
        FlagsOut f{s.fz, s.fm, s.fe, s.fn, s.fc0, s.fv, s.fvl, s.flm};
        if (pass)
            Oracle::Eval(p, Aeff, Beff, s, want_acc, written, f);
        u16 words[2] = {opcode, exp};
        VState out;
        RunResult rr;
        impl.api->run(impl.m, &s, words, 2, 1, &out, &rr);
        ++res.evaluations;
        ++res.transitions;
        ++res.traces_validated;
        std::string bad;
        if (rr.outcome != OUT_OK) {
            bad = std::string("outcome=") + OutcomeName(rr.outcome);
        } else {
            for (int i = 0; i < 4 && bad.empty(); ++i) {
                u64 w = (written && i == p.dst) ? want_acc : AccVal(s, i);
                if (AccVal(out, i) != w)
                    bad = i == p.dst ? "result" : Fmt("other-accumulator-%d", i);
            }
            if (bad.empty()) {
                const int got[8] = {out.fz, out.fm, out.fe, out.fn, out.fc0, out.fv, out.fvl, out.flm};
                const int want[8] = {f.fz, f.fm, f.fe, f.fn, f.fc0, f.fv, f.fvl, f.flm};
                static const char* nm[8] = {"zero", "minus", "extension", "normalized", "carry", "overflow", "latched-overflow", "limit"};
                for (int i = 0; i < 8; ++i)
                    if (got[i] != want[i]) {
                        bad = std::string("flag-") + nm[i];
                        break;
                    }
            }
        }
        if (written || pass)
            digests.insert(Fnv(&out.a, sizeof(out.a) + sizeof(out.b), Mix(opcode)) ^ (out.fz | out.fm << 1 | out.fe << 2 | out.fn << 3 | out.fc0 << 4 | out.fv << 5 | out.flm << 6));
        if (!bad.empty()) {
            res.AddViolation(Fmt("c03:%s:%s:%s", d.name, p.form.c_str(), bad.c_str()),
                             Fmt("opcode %04X %04X (%s; %s): left operand %010llX, right operand %010llX (raw %04X), sata=%d, flags before=%d, cond=%s: "
                                 "implementation acc=%010llX z%d m%d e%d n%d c%d v%d vl%d lm%d; exact arithmetic acc=%010llX z%d m%d e%d n%d c%d v%d vl%d lm%d",
                                 opcode, exp, d.name, p.form.c_str(), (unsigned long long)(Aeff & 0xFFFFFFFFFFull), (unsigned long long)(Beff & 0xFFFFFFFFFFull),
                                 raw16, sata, flags_pre, kCondNames[p.cond], (unsigned long long)(AccVal(out, p.dst) & 0xFFFFFFFFFFull), out.fz, out.fm,
                                 out.fe, out.fn, out.fc0, out.fv, out.fvl, out.flm,
                                 (unsigned long long)((written ? want_acc : AccVal(s, p.dst)) & 0xFFFFFFFFFFull), f.fz, f.fm, f.fe, f.fn, f.fc0, f.fv, f.fvl, f.flm),
                             Fmt("c03 %u %llu %llu %u %d %d", opcode, (unsigned long long)A, (unsigned long long)Bacc, B16, sata, flags_pre));
        }
    }

    // movr with a 16-bit source (register, memory word): the exact sum operand + 0x8000 is at most 0x17FFF, it cannot overflow 40 bits:
    // V is 0 afterwards whatever it was before, the latched overflow keeps its value (the value and carry of these forms are a documented
    // hardware quirk and are compared by C01 only)
    void Movr16Case(u16 opcode, const DecodeInfo& d, u16 B16, int sata, int fl) {
        std::string n = d.name;
        VState s = base;
        s.sata = (u16)sata;
        SetFlagsPre(s, fl);
        std::string form;
        if (n == "movr" && ArgsAre(d, {"Register", "Ax"})) {
            Reg r = kRegister[d.args[0]];
            if (r == R_a0 || r == R_a1 || r == R_p || r == R_pc || r == R_st0 || r == R_st1 || r == R_st2)
                return;
            WriteReg16(s, r, B16);
            form = std::string("movr ") + kRegNames[r] + ",Ax";
        } else if (n == "movr" && ArgsAre(d, {"Rn", "StepZIDS", "Ax"})) {
            s.r[d.args[0]] = 0x6480, s.m[d.args[0]] = 0, s.br[d.args[0]] = 0;
            impl.api->poke_data(impl.m, 0x6480, B16);
            form = "movr [Rn],Ax";
        } else if (n == "movr_r6_to") {
            s.r[6] = B16;
            form = "movr r6,Ax";
        } else
            return;
        u16 words[2] = {opcode, 0};
        VState out;
        RunResult rr;
        impl.api->run(impl.m, &s, words, 2, 1, &out, &rr);
        ++res.evaluations, ++res.transitions, ++res.traces_validated;
        if (rr.outcome != OUT_OK)
            return;
        digests.insert(Mix(((u64)opcode << 20) ^ B16 ^ (out.fv << 17) ^ (fl << 18)));
        if (out.fv != 0 || out.fvl != s.fvl)
            res.AddViolation(Fmt("c03:%s:%s:flag-%s", d.name, form.c_str(), out.fv ? "overflow" : "latched-overflow"),
                             Fmt("opcode %04X (%s): 16-bit operand %04X, sata=%d, flags before=%d: the exact sum operand + 0x8000 cannot overflow, yet v=%d vl=%d afterwards "
                                 "(expected v=0 vl=%d)", opcode, form.c_str(), B16, sata, fl, out.fv, out.fvl, s.fvl),
                             Fmt("c03 movr16 %u %u %d %d", opcode, B16, sata, fl));
    }
    void Opcode(u16 opcode, bool full, bool sweep16) {
        DecodeInfo d;
        impl.api->decode(opcode, &d);
        if (std::strncmp(d.name, "movr", 4) == 0)
            for (int sata = 0; sata < 2; ++sata)
                for (int fl = 0; fl < 4; ++fl)
                    for (u16 B : O16(false))
                        Movr16Case(opcode, d, B, sata, fl);
        Plan p = MakePlan(opcode, d);
        if (!p.valid)
            return;
        ++res.states; // one encoding of the families
        auto accs = A40(full);
        auto ops16 = O16(full);
        bool wide_src = p.src == S_ACC || p.src == S_PROD;
        bool unary = p.src == S_NONE;
        for (int sata = 0; sata < 2; ++sata)
            for (int fl = 0; fl < 4; ++fl) {
                if (unary || p.src == S_CONST) {
                    for (u64 A : accs)
                        Case(opcode, d, p, A, 0, 0, sata, fl);
                } else if (wide_src) {
                    // 40-bit x 40-bit: full cross product of the reduced alphabet, diagonal bands of the full one
                    auto small = A40(false);
                    for (u64 A : (full ? accs : small))
                        for (u64 B : small)
                            Case(opcode, d, p, A, B, 0, sata, fl);
                } else {
                    for (u64 A : accs)
                        for (u16 B : ops16)
                            Case(opcode, d, p, A, 0, B, sata, fl);
                }
            }
        if (sweep16 && !wide_src && !unary && p.src != S_CONST) {
            // all 65536 operand values for this extension path
            auto small = A40(false);
            for (u32 B = 0; B < 0x10000; ++B)
                for (size_t i = 0; i < small.size(); i += 3)
                    Case(opcode, d, p, small[i], 0, (u16)B, (int)(B & 1), (int)((B >> 1) & 3));
        }
    }
};

inline int RunReplay(const std::string& r, Result& res) {
    QuietStdout quiet;
    unsigned op, b16;
    unsigned long long A, B;
    int sata, fl;
    if (std::sscanf(r.c_str(), "c03 movr16 %u %u %d %d", &op, &b16, &sata, &fl) == 4) {
        Engine e(res);
        DecodeInfo d;
        e.impl.api->decode((u16)op, &d);
        e.Movr16Case((u16)op, d, (u16)b16, sata, fl);
        for (auto& v : res.violations)
            quiet.Say(Fmt("  %s\n    %s\n", v.key.c_str(), v.text.c_str()));
        return res.violations.empty() ? 0 : 1;
    }
    if (std::sscanf(r.c_str(), "c03 %u %llu %llu %u %d %d", &op, &A, &B, &b16, &sata, &fl) != 6)
        return 2;
    Engine e(res);
    DecodeInfo d;
    e.impl.api->decode((u16)op, &d);
    Plan p = MakePlan((u16)op, d);
    if (!p.valid)
        return 2;
    e.Case((u16)op, d, p, A, B, (u16)b16, sata, fl);
    for (auto& v : res.violations)
        quiet.Say(Fmt("  %s\n    %s\n", v.key.c_str(), v.text.c_str()));
    return res.violations.empty() ? 0 : 1;
}

inline void Run(const Args& args, Result& res) {
    res.property = "C03";
    bool th = args.thorough();
    RunPool(args.jobs,
            [&](int idx, int cnt, WorkerBlock& blk, Result& local) {
                QuietStdout quiet;
                Engine e(local);
                std::set<std::string> swept; // one full 16-bit operand sweep per (handler, form)
                for (u32 op = idx; op < 0x10000; op += cnt) {
                    DecodeInfo d;
                    e.impl.api->decode((u16)op, &d);
                    Plan p = MakePlan((u16)op, d);
                    if (!p.valid && std::strncmp(d.name, "movr", 4) != 0)
                        continue;
                    bool sweep = false;
                    if (th) {
                        std::string k = std::string(d.name) + "|" + p.form;
                        sweep = swept.insert(k).second;
                    }
                    e.Opcode((u16)op, true, sweep);
                }
                blk.evaluations = local.evaluations;
                blk.transitions = local.transitions;
                blk.traces = local.traces_validated;
                blk.states = local.states;
                blk.distinct = e.digests.size();
            },
            res);
    res.rule = "every encoding (all 65536 first words are decoded; those whose handler is alm/alu/alm_r6 with or,and,xor,add,cmp,sub,addh,addl,"
               "subh,subl,cmpu; add/sub/add_p1/sub_p1/cmp* accumulator forms; three-operand or; moda inc,dec,neg,rnd,copy,clr,clrr,not under every "
               "condition code; movr 40-bit forms; for the 16-bit movr forms the overflow flags only) is executed once per (left operand in A40, right operand in O16 or A40, sata, flag pre-state) on "
               "the implementation library; result, every other accumulator and the flags z,m,e,n,c,v,vl,lm are compared with exact __int128 "
               "arithmetic; distinct = distinct (opcode, result, flags)";
    res.bound = Fmt("A40: %zu values (all 2^k, 2^k-1 and complements%s), O16: %zu values, sata in {0,1}, flags pre-state in {all 0, all 1, z/e/c/v set with m/n/vl/lm clear, its complement}%s",
                    A40(true).size(), "", O16(true).size(),
                    th ? "; plus all 65536 16-bit operands for one encoding per (operation, operand form)" : "");
    res.assumptions = {"bitwise results are stored unsaturated (reading of the statement recorded in DESIGN.md)",
                       "documented hardware quirks are carved out and stay under C01: and with imm8, 16-bit movr forms, alm with st0-2/pc operands, clr/clrr pair forms",
                       "product operands are presented with product shift 0 and a consistent 33rd bit (product reads are C04's subject)"};
    res.AddSample("opcode 8A71 sub (Ab,Bx): b1 = b1 - a0 with a0=8000000000, b1=0 -> result 8000000000, v=1 c=1");
    res.AddSample("opcode C6FF add imm8: a0 = 7FFFFFFF + 00FF with sata=0 -> saturates to 7FFFFFFF, lm=1, e=1");
}
} // namespace c03
