// C04 — multiplier, product reads, barrel shifter, exponent: every encoding of these families x boundary
// alphabets (all 65536 shift amounts; all 2^32 factor pairs in the thorough tier) against exact arithmetic.
#pragma once
#include <map>
#include "c03_alu.h"

namespace c04 {
using namespace isa;

// ---------------- exact models -------------------------------------------------------------------------
struct ShiftOut {
    long long value;
    int fz, fm, fe, fn, fc0, fv, fvl, flm;
    bool carry_defined;
};
inline ShiftOut ShiftModel(long long V, u16 sv, const VState& b) {
    ShiftOut o{};
    o.fc0 = b.fc0, o.fv = b.fv, o.fvl = b.fvl, o.flm = b.flm;
    unsigned long long uV = (unsigned long long)V & 0xFFFFFFFFFFull;
    int n = (short)sv;
    long long r;
    o.carry_defined = true;
    bool arith = b.s == 0;
    if (n >= 0) {
        bool overflow;
        if (n >= 40) {
            overflow = V != 0;
            r = 0;
        } else {
            __int128 t = (__int128)V << n;
            r = c03::Oracle::Wrap40(t);
            overflow = t != (__int128)r;
        }
        if (arith) {
            o.fv = overflow;
            if (overflow)
                o.fvl = 1;
        }
        if (n == 0)
            o.carry_defined = false; // nothing is shifted out
        else
            o.fc0 = n <= 40 ? (int)((uV >> (40 - n)) & 1) : 0;
    } else {
        int m = -n; // 1..32768
        if (arith) {
            r = m >= 40 ? (V < 0 ? -1 : 0) : (V >> m);
            o.fc0 = m <= 39 ? (int)((uV >> (m - 1)) & 1) : (V < 0);
            o.fv = 0;
        } else {
            r = m >= 40 ? 0 : (long long)(uV >> m);
            o.fc0 = m <= 40 ? (int)((uV >> (m - 1)) & 1) : 0;
        }
    }
    o.fz = r == 0;
    o.fm = r < 0;
    o.fe = r != (long long)(int)r;
    o.fn = o.fz || (!o.fe && (((r >> 31) & 1) != ((r >> 30) & 1)));
    if (arith && b.sata == 0 && (o.fv || o.fe)) {
        o.flm = 1;
        r = V < 0 ? -0x80000000ll : 0x7FFFFFFFll;
    }
    o.value = r;
    return o;
}

inline int ExpModel(long long V) { // redundant sign bits minus eight
    int sign = V < 0;
    int count = 0;
    for (int bit = 38; bit >= 0; --bit) {
        if ((int)((V >> bit) & 1) != sign)
            break;
        ++count;
    }
    return count - 8;
}

// exact 33-bit product under sign selection and half-word mode (multiplier unit 0)
inline long long ProductModel(u16 x, u16 y, bool xs, bool ys, int hwm, int unit) {
    u16 y2 = y;
    if (hwm == 1 || (hwm == 3 && unit == 0))
        y2 = y >> 8;
    else if (hwm == 2 || (hwm == 3 && unit == 1))
        y2 = y & 0xFF;
    long long fx = xs ? (long long)(short)x : (long long)x;
    long long fy = ys ? (long long)(short)y2 : (long long)y2;
    return fx * fy;
}
// value of a product register pair (pe:p) as the 33-bit two's complement number it holds
inline long long P33(u32 p, u16 pe) {
    return (long long)(((pe & 1) ? 0xFFFFFFFF00000000ull : 0ull) | p);
}
// what a read of the product delivers under the product-shift mode
inline long long ProductRead(u32 p, u16 pe, int ps) {
    long long v = P33(p, pe);
    switch (ps) {
    case 1: return v >> 1;
    case 2: return v * 2;
    case 3: return v * 4;
    default: return v;
    }
}

struct Engine {
    Lib impl;
    VState base;
    Result& res;
    DigestSet digests;
    explicit Engine(Result& r) : res(r) {
        impl = LoadLib("libimpl.so");
        impl.api->default_state(&base);
        base.pc = 0x1000;
        base.sp = 0x0800;
        impl.api->fill_memory(impl.m, 0);
    }
    bool Exec(const VState& s, u16 op, u16 exp, VState& out, std::string& bad) {
        u16 words[2] = {op, exp};
        RunResult rr;
        impl.api->run(impl.m, &s, words, 2, 1, &out, &rr);
        ++res.evaluations, ++res.transitions, ++res.traces_validated;
        if (rr.outcome != OUT_OK) {
            bad = std::string("outcome=") + OutcomeName(rr.outcome);
            return false;
        }
        return true;
    }

    // ---------- shifts ----------
    struct ShiftPlan {
        bool valid = false;
        int src_kind = 0; // 0: accumulator, 1: mem, 2: reg16
        int src_acc = 0, dst = 0;
        Reg reg = R_undefined;
        u32 mem_addr = 0x6480;
        int sv_kind = 0; // 0: regs.sv, 1: constant
        u16 sv_const = 0;
        int cond = 0;
        std::string form;
        std::function<void(VState&)> setup;
    };
    static ShiftPlan MakeShiftPlan(const DecodeInfo& d) {
        ShiftPlan p;
        std::string n = d.name;
        auto simm = [](int v, int bits) { return (u16)((v & (1 << (bits - 1))) ? v - (1 << bits) : v); };
        if (n == "shfc" && ArgsAre(d, {"Ab", "Ab", "Cond"})) {
            p.src_acc = AccIndex(kAb[d.args[0]]), p.dst = AccIndex(kAb[d.args[1]]), p.cond = d.args[2], p.form = "shfc", p.valid = true;
        } else if (n == "shfi" && ArgsAre(d, {"Ab", "Ab", "Imm6s"})) {
            p.src_acc = AccIndex(kAb[d.args[0]]), p.dst = AccIndex(kAb[d.args[1]]), p.sv_kind = 1, p.sv_const = simm(d.args[2], 6), p.form = "shfi", p.valid = true;
        } else if ((n == "moda4" && ArgsAre(d, {"Moda4", "Ax", "Cond"})) || (n == "moda3" && ArgsAre(d, {"Moda3", "Bx", "Cond"}))) {
            ModaK mk = n == "moda4" ? (ModaK)d.args[0] : kModa3[d.args[0]];
            p.src_acc = p.dst = n == "moda4" ? d.args[1] : 2 + d.args[1];
            p.cond = d.args[2];
            p.sv_kind = 1;
            switch (mk) {
            case MODA_SHR: p.sv_const = 0xFFFF; break;
            case MODA_SHR4: p.sv_const = 0xFFFC; break;
            case MODA_SHL: p.sv_const = 1; break;
            case MODA_SHL4: p.sv_const = 4; break;
            default: return p;
            }
            p.form = kModaNames[mk];
            p.valid = true;
        } else if (n == "movs" && ArgsAre(d, {"MemImm8", "Ab"})) {
            int imm = d.args[0];
            p.src_kind = 1, p.mem_addr = 0x6400 + imm, p.dst = AccIndex(kAb[d.args[1]]), p.form = "movs [page:imm8]", p.valid = true;
            p.setup = [](VState& s) { s.page = 0x64; };
        } else if (n == "movs" && ArgsAre(d, {"Rn", "StepZIDS", "Ab"})) {
            int rn = d.args[0];
            p.src_kind = 1, p.dst = AccIndex(kAb[d.args[2]]), p.form = "movs [Rn]", p.valid = true;
            p.setup = [rn](VState& s) { s.r[rn] = 0x6480, s.m[rn] = 0, s.br[rn] = 0; };
        } else if (n == "movs" && ArgsAre(d, {"Register", "Ab"})) {
            Reg r = kRegister[d.args[0]];
            if (r == R_pc || r == R_st0 || r == R_st1 || r == R_st2 || r == R_a0 || r == R_a1)
                return p;
            p.src_kind = 2, p.reg = r, p.dst = AccIndex(kAb[d.args[1]]), p.form = std::string("movs ") + kRegNames[r], p.valid = true;
        } else if (n == "movs_r6_to" && ArgsAre(d, {"Ax"})) {
            p.src_kind = 2, p.reg = R_r6, p.dst = d.args[0], p.form = "movs r6", p.valid = true;
        } else if (n == "movsi" && ArgsAre(d, {"RnOld", "Ab", "Imm5s"})) {
            static const Reg old[8] = {R_r0, R_r1, R_r2, R_r3, R_r4, R_r5, R_r7, R_y0};
            p.src_kind = 2, p.reg = old[d.args[0]], p.dst = AccIndex(kAb[d.args[1]]), p.sv_kind = 1, p.sv_const = simm(d.args[2], 5), p.form = "movsi", p.valid = true;
        }
        return p;
    }
    // the product named as a 16-bit operand is the high word of the product as the selected shifter presents it
    static u16 PHigh(const VState& s) {
        return (u16)(ProductRead(s.p[0], s.pe[0], s.ps[0]) >> 16);
    }
    void ShiftCase(u16 opcode, const DecodeInfo& d, const ShiftPlan& p, u64 A, u16 B16, u16 sv, int smode, int sata, int fl, int psel = -1) {
        if (p.src_kind == 2 && p.reg == R_p && psel < 0) {
            for (int k = 0; k < 8; ++k)
                ShiftCase(opcode, d, p, A, B16, sv, smode, sata, fl, k);
            return;
        }
        VState s = base;
        s.s = (u16)smode, s.sata = (u16)sata;
        s.fz = s.fm = s.fe = s.fn = s.fc0 = s.fv = s.fvl = s.flm = (u16)fl;
        s.sv = sv;
        if (p.setup)
            p.setup(s);
        for (int i = 0; i < 4; ++i)
            AccRef(s, i) = Sx40(0x1100000000ull * (i + 1) + 0x77);
        long long V;
        if (p.src_kind == 0) {
            AccRef(s, p.src_acc) = A;
            V = S40(A);
        } else if (p.src_kind == 1) {
            impl.api->poke_data(impl.m, p.mem_addr, B16);
            V = (short)B16;
        } else if (p.reg == R_p) {
            s.ps[0] = (u16)(psel & 3), s.pe[0] = (u16)(psel >> 2);
            s.p[0] = ((u32)B16 << 16) | (u16)(B16 * 0x6487u + 0x4321u);
            V = (short)PHigh(s);
        } else {
            c03::WriteReg16(s, p.reg, B16);
            V = (short)c03::ReadReg16(s, p.reg);
        }
        u16 eff_sv = p.sv_kind ? p.sv_const : s.sv;
        bool pass = CondPass(p.cond, s);
        VState out;
        std::string bad;
        if (Exec(s, opcode, 0, out, bad)) {
            if (!pass) {
                if (std::memcmp(&out.a, &s.a, sizeof(s.a) + sizeof(s.b)) || out.fc0 != s.fc0 || out.fv != s.fv || out.fz != s.fz || out.flm != s.flm)
                    bad = "condition-false-but-changed";
            } else {
                ShiftOut m = ShiftModel(V, eff_sv, s);
                int n = (short)eff_sv;
                if (AccVal(out, p.dst) != (u64)m.value)
                    bad = "result";
                for (int i = 0; i < 4 && bad.empty(); ++i)
                    if (i != p.dst && AccVal(out, i) != AccVal(s, i))
                        bad = "other-accumulator";
                if (bad.empty() && m.carry_defined && out.fc0 != m.fc0)
                    bad = n == 40 ? "carry:left-by-exactly-40" : (n == -40 && s.s == 1) ? "carry:logical-right-by-exactly-40" : "carry";
                if (bad.empty() && (out.fv != m.fv || out.fvl != m.fvl))
                    bad = "overflow";
                if (bad.empty() && (out.fz != m.fz || out.fm != m.fm || out.fe != m.fe || out.fn != m.fn))
                    bad = "flags-zmen";
                if (bad.empty() && out.flm != m.flm)
                    bad = "limit";
                if (!bad.empty())
                    bad += Fmt(" (model: value=%010llX c=%d v=%d vl=%d z%d m%d e%d n%d lm=%d)", (unsigned long long)(m.value & 0xFFFFFFFFFFull), m.fc0,
                               m.fv, m.fvl, m.fz, m.fm, m.fe, m.fn, m.flm);
            }
        }
        digests.insert(Fnv(&out.a, sizeof(out.a) + sizeof(out.b), Mix(opcode * 65537u + eff_sv)) ^ out.fc0 ^ (out.fv << 1));
        if (!bad.empty()) {
            std::string cls = bad.substr(0, bad.find(" (model"));
            res.AddViolation(Fmt("c04:shift:%s:%s", p.form.substr(0, p.form.find(' ')).c_str(), cls.c_str()),
                             Fmt("opcode %04X (%s): value %010llX shifted by sv=%04X (%d), s=%d sata=%d flags-before=%d: implementation %010llX c=%d v=%d vl=%d z%d m%d "
                                 "e%d n%d lm=%d; %s",
                                 opcode, p.form.c_str(), (unsigned long long)(V & 0xFFFFFFFFFFull), eff_sv, (short)eff_sv, smode, sata, fl,
                                 (unsigned long long)(AccVal(out, p.dst) & 0xFFFFFFFFFFull), out.fc0, out.fv, out.fvl, out.fz, out.fm, out.fe, out.fn, out.flm,
                                 bad.c_str()),
                             Fmt("c04 shift %u %llu %u %u %d %d %d", opcode, (unsigned long long)A, B16, sv, smode, sata, fl));
        }
    }


    // ---------- norm: one conditional arithmetic left shift by one (the normalisation step) ----------
    void NormCase(u16 opcode, const DecodeInfo& d, u64 A, int fn, int fc_pre) {
        VState s = base;
        int acc = AccIndex(kAx[d.args[0]]);
        int rn = d.args[1];
        AccRef(s, acc) = A;
        s.fn = (u16)fn, s.fc0 = (u16)fc_pre, s.fv = 0, s.fvl = 0;
        s.r[rn] = 0x6480, s.m[rn] = 0, s.br[rn] = 0;
        VState out;
        std::string bad;
        long long V = S40(A);
        if (Exec(s, opcode, 0, out, bad)) {
            if (fn) {
                if (AccVal(out, acc) != A || out.fc0 != fc_pre || out.fv != 0 || out.r[rn] != s.r[rn])
                    bad = "changed-although-normalised";
            } else {
                long long r = c03::Oracle::Wrap40((__int128)V * 2);
                int carry = (int)((A >> 39) & 1);                 // the bit shifted out
                int ovf = ((__int128)V * 2 != (__int128)r) ? 1 : 0; // the arithmetic shift lost significant bits
                bool fe = r != (long long)(int)r;
                if (AccVal(out, acc) != (u64)r)
                    bad = Fmt("value (exact %010llX)", (unsigned long long)(r & 0xFFFFFFFFFFull));
                else if (out.fc0 != carry)
                    bad = "carry";
                else if (out.fv != ovf || (ovf && !out.fvl))
                    bad = "overflow";
                else if (out.fz != (r == 0) || out.fm != (r < 0) || out.fe != fe)
                    bad = "flags";
            }
        }
        digests.insert(Fnv(&out.a, sizeof(out.a), Mix(opcode) ^ out.fc0));
        if (!bad.empty())
            res.AddViolation(Fmt("c04:norm:%s", bad.substr(0, bad.find(" (")).c_str()),
                             Fmt("opcode %04X (norm): acc=%010llX n=%d carry-in=%d: implementation acc=%010llX c=%u v=%u vl=%u; %s", opcode, (unsigned long long)(A & 0xFFFFFFFFFFull), fn,
                                 fc_pre, (unsigned long long)(AccVal(out, acc) & 0xFFFFFFFFFFull), out.fc0, out.fv, out.fvl, bad.c_str()),
                             Fmt("c04 norm %u %llu %d %d", opcode, (unsigned long long)A, fn, fc_pre));
    }
    // ---------- exponent ----------
    void ExpCase(u16 opcode, const DecodeInfo& d, u64 A, u16 B16, int psel = -1) {
        std::string n = d.name;
        VState s = base;
        s.sv = 0x5A5A;
        long long V = 0;
        int dst = -1;
        bool ok = true;
        if (n == "exp" && (ArgsAre(d, {"Bx"}) || ArgsAre(d, {"Bx", "Ax"}))) {
            AccRef(s, 2 + d.args[0]) = A;
            V = S40(A);
            if (d.nargs == 2)
                dst = d.args[1];
        } else if (n == "exp" && (ArgsAre(d, {"Rn", "StepZIDS"}) || ArgsAre(d, {"Rn", "StepZIDS", "Ax"}))) {
            s.r[d.args[0]] = 0x6480, s.m[d.args[0]] = 0, s.br[d.args[0]] = 0;
            impl.api->poke_data(impl.m, 0x6480, B16);
            V = (long long)(int)((u32)B16 << 16);
            if (d.nargs == 3)
                dst = d.args[2];
        } else if (n == "exp" && (ArgsAre(d, {"Register"}) || ArgsAre(d, {"Register", "Ax"}))) {
            Reg r = kRegister[d.args[0]];
            if (r == R_pc || r == R_st0 || r == R_st1 || r == R_st2)
                return;
            if (r == R_p) {
                if (psel < 0) {
                    for (int k = 0; k < 8; ++k)
                        ExpCase(opcode, d, A, B16, k);
                    return;
                }
                s.ps[0] = (u16)(psel & 3), s.pe[0] = (u16)(psel >> 2);
                s.p[0] = ((u32)B16 << 16) | (u16)(A >> 3);
                V = (long long)(int)((u32)PHigh(s) << 16);
            } else if (r == R_a0 || r == R_a1) {
                AccRef(s, AccIndex(r)) = A;
                V = S40(A);
            } else {
                c03::WriteReg16(s, r, B16);
                V = (long long)(int)((u32)c03::ReadReg16(s, r) << 16);
            }
            if (d.nargs == 2)
                dst = d.args[1];
        } else if (n == "exp_r6") {
            s.r[6] = B16;
            V = (long long)(int)((u32)B16 << 16);
            if (d.nargs == 1)
                dst = d.args[0];
        } else {
            ok = false;
        }
        if (!ok)
            return;
        VState out;
        std::string bad;
        int want = ExpModel(V);
        if (Exec(s, opcode, 0, out, bad)) {
            if (out.sv != (u16)want)
                bad = "sv";
            else if (dst >= 0 && AccVal(out, dst) != (u64)(long long)want)
                bad = "stored-accumulator";
        }
        digests.insert(Mix(opcode * 131 + want));
        if (!bad.empty())
            res.AddViolation(Fmt("c04:exp:%s:%s", ArgSig(d).substr(0, 20).c_str(), bad.c_str()),
                             Fmt("opcode %04X (exp %s): operand value %010llX has %d redundant sign bits, expected exponent %d; implementation sv=%04X acc=%010llX",
                                 opcode, ArgSig(d).c_str(), (unsigned long long)(V & 0xFFFFFFFFFFull), want + 8, want, out.sv,
                                 dst >= 0 ? (unsigned long long)(AccVal(out, dst) & 0xFFFFFFFFFFull) : 0ull),
                             Fmt("c04 exp %u %llu %u", opcode, (unsigned long long)A, B16));
    }

    // ---------- multiply ----------
    struct MulPlan {
        bool valid = false;
        bool xs = true, ys = true;
        int acc_mode = 0; // 0 none, 1 add p0, 2 add p0>>16 (aligned), 3 subtract p0
        int acc = 0;
        int x_kind = 0; // 0: keeps x0, 1: mem @xaddr, 2: reg16, 3: second word, 4: const, 5: x1
        int y_kind = 0; // 0: keeps y0, 1: mem @yaddr
        Reg xreg = R_undefined;
        long long xconst = 0;
        u32 xaddr = 0x6480, yaddr = 0xCC80;
        std::string form;
        std::function<void(VState&)> setup;
    };
    static void MulOpToPlan(MulK k, MulPlan& p) {
        switch (k) {
        case MUL_MPY: p.xs = true, p.ys = true, p.acc_mode = 0; break;
        case MUL_MPYSU: p.xs = false, p.ys = true, p.acc_mode = 0; break;
        case MUL_MAC: p.xs = true, p.ys = true, p.acc_mode = 1; break;
        case MUL_MACUS: p.xs = true, p.ys = false, p.acc_mode = 1; break;
        case MUL_MAA: p.xs = true, p.ys = true, p.acc_mode = 2; break;
        case MUL_MACUU: p.xs = false, p.ys = false, p.acc_mode = 1; break;
        case MUL_MACSU: p.xs = false, p.ys = true, p.acc_mode = 1; break;
        case MUL_MAASU: p.xs = false, p.ys = true, p.acc_mode = 2; break;
        }
    }
    static MulPlan MakeMulPlan(const DecodeInfo& d) {
        MulPlan p;
        std::string n = d.name;
        static const char* mn[] = {"mpy", "mpysu", "mac", "macus", "maa", "macuu", "macsu", "maasu"};
        if (n == "mul_y0" && ArgsAre(d, {"Mul3", "Register", "Ax"})) {
            Reg r = kRegister[d.args[1]];
            if (r == R_pc || r == R_st0 || r == R_st1 || r == R_st2 || r == R_a0 || r == R_a1 || r == R_y0)
                return p;
            MulOpToPlan((MulK)d.args[0], p);
            p.x_kind = 2, p.xreg = r, p.acc = d.args[2], p.form = std::string(mn[d.args[0]]) + " y0," + kRegNames[r];
            p.valid = true;
        } else if (n == "mul_y0_r6" && ArgsAre(d, {"Mul3", "Ax"})) {
            MulOpToPlan((MulK)d.args[0], p);
            p.x_kind = 2, p.xreg = R_r6, p.acc = d.args[1], p.form = std::string(mn[d.args[0]]) + " y0,r6", p.valid = true;
        } else if (n == "mul_y0" && ArgsAre(d, {"Mul3", "Rn", "StepZIDS", "Ax"})) {
            MulOpToPlan((MulK)d.args[0], p);
            int rn = d.args[1];
            p.x_kind = 1, p.acc = d.args[3], p.form = std::string(mn[d.args[0]]) + " y0,[Rn]", p.valid = true;
            p.setup = [rn](VState& s) { s.r[rn] = 0x6480, s.m[rn] = 0, s.br[rn] = 0; };
        } else if (n == "mul_y0" && ArgsAre(d, {"Mul2", "MemImm8", "Ax"})) {
            MulK k = kMul2[d.args[0]];
            MulOpToPlan(k, p);
            p.x_kind = 1, p.xaddr = 0x6400 + d.args[1], p.acc = d.args[2], p.form = std::string(mn[k]) + " y0,[page:imm8]", p.valid = true;
            p.setup = [](VState& s) { s.page = 0x64; };
        } else if (n == "mul" && ArgsAre(d, {"Mul3", "Rn", "StepZIDS", "Imm16", "Ax"})) {
            MulOpToPlan((MulK)d.args[0], p);
            int rn = d.args[1];
            p.x_kind = 3, p.y_kind = 1, p.acc = d.args[4], p.form = std::string(mn[d.args[0]]) + " [Rn],imm16", p.valid = true;
            p.setup = [rn](VState& s) { s.r[rn] = 0xCC80, s.m[rn] = 0, s.br[rn] = 0; };
        } else if (n == "mul" && ArgsAre(d, {"Mul3", "R45", "StepZIDS", "R0123", "StepZIDS", "Ax"})) {
            MulOpToPlan((MulK)d.args[0], p);
            int ry = 4 + d.args[1], rx = d.args[3];
            p.x_kind = 1, p.y_kind = 1, p.acc = d.args[5], p.form = std::string(mn[d.args[0]]) + " [R45],[R0123]", p.valid = true;
            p.setup = [ry, rx](VState& s) { s.r[ry] = 0xCC80, s.r[rx] = 0x6480, s.m[ry] = s.m[rx] = 0, s.br[ry] = s.br[rx] = 0; };
        } else if (n == "mpyi" && ArgsAre(d, {"Imm8s"})) {
            int v = d.args[0];
            p.x_kind = 4, p.xconst = (v & 0x80) ? v - 0x100 : v, p.form = "mpyi", p.valid = true;
        } else if (n == "msu" && ArgsAre(d, {"R45", "StepZIDS", "R0123", "StepZIDS", "Ax"})) {
            int ry = 4 + d.args[0], rx = d.args[2];
            p.acc_mode = 3, p.x_kind = 1, p.y_kind = 1, p.acc = d.args[4], p.form = "msu [R45],[R0123]", p.valid = true;
            p.setup = [ry, rx](VState& s) { s.r[ry] = 0xCC80, s.r[rx] = 0x6480, s.m[ry] = s.m[rx] = 0, s.br[ry] = s.br[rx] = 0; };
        } else if (n == "msu" && ArgsAre(d, {"Rn", "StepZIDS", "Imm16", "Ax"})) {
            int rn = d.args[0];
            p.acc_mode = 3, p.x_kind = 3, p.y_kind = 1, p.acc = d.args[3], p.form = "msu [Rn],imm16", p.valid = true;
            p.setup = [rn](VState& s) { s.r[rn] = 0xCC80, s.m[rn] = 0, s.br[rn] = 0; };
        } else if (n == "mac_x1to0" && ArgsAre(d, {"Ax"})) {
            p.acc_mode = 1, p.x_kind = 5, p.acc = d.args[0], p.form = "mac x1->x0", p.valid = true;
        }
        return p;
    }
    void MulCase(u16 opcode, const MulPlan& p, u16 x, u16 y, int hwm, int ps, u32 prev_p, u16 prev_pe, u64 A, int sata) {
        VState s = base;
        s.hwm = (u16)hwm, s.ps[0] = (u16)ps, s.sata = (u16)sata;
        s.p[0] = prev_p, s.pe[0] = prev_pe;
        s.p[1] = 0x13572468, s.pe[1] = 0;
        s.x[0] = 0x1357, s.y[0] = 0x2468, s.x[1] = 0x0F0F, s.y[1] = 0xF0F0;
        if (p.setup)
            p.setup(s);
        AccRef(s, p.acc) = A;
        u16 exp = 0;
        switch (p.x_kind) {
        case 0: s.x[0] = x; break;
        case 1: impl.api->poke_data(impl.m, p.xaddr, x); break;
        case 2: c03::WriteReg16(s, p.xreg, x); break;
        case 3: exp = x; break;
        case 5: s.x[1] = x; break;
        default: break;
        }
        if (p.y_kind == 1)
            impl.api->poke_data(impl.m, p.yaddr, y);
        else
            s.y[0] = y;
        // effective factors as named by the form
        u16 xe = p.x_kind == 4 ? (u16)p.xconst : p.x_kind == 2 ? (p.xreg == R_p ? PHigh(s) : c03::ReadReg16(s, p.xreg)) : x;
        long long Aeff = S40(AccVal(s, p.acc));
        VState out;
        std::string bad;
        if (Exec(s, opcode, exp, out, bad)) {
            long long prod = ProductModel(xe, y, p.xs, p.ys, hwm, 0);
            u32 want_p = (u32)prod;
            u16 want_pe = (prod >> 32) & 1;
            if (out.x[0] != xe || out.y[0] != y)
                bad = "factor-registers";
            else if (out.p[0] != want_p || out.pe[0] != want_pe)
                bad = Fmt("product (exact %09llX)", (unsigned long long)(prod & 0x1FFFFFFFFull));
            else if (p.acc_mode) {
                long long pr = ProductRead(prev_p, prev_pe, ps);
                if (p.acc_mode == 2)
                    pr >>= 16;
                __int128 t = p.acc_mode == 3 ? (__int128)Aeff - pr : (__int128)Aeff + pr;
                long long r = c03::Oracle::Wrap40(t);
                bool fe = r != (long long)(int)r;
                long long stored = r;
                int flm = s.flm;
                if (sata == 0 && fe)
                    stored = r < 0 ? -0x80000000ll : 0x7FFFFFFFll, flm = 1;
                if (AccVal(out, p.acc) != (u64)stored)
                    bad = Fmt("accumulate (exact %010llX)", (unsigned long long)(stored & 0xFFFFFFFFFFull));
                else if (out.flm != flm || out.fz != (r == 0) || out.fm != (r < 0) || out.fe != fe)
                    bad = "accumulate-flags";
            } else if (AccVal(out, p.acc) != AccVal(s, p.acc)) {
                bad = "accumulator-changed-by-plain-multiply";
            }
            if (bad.empty() && (out.p[1] != s.p[1] || out.pe[1] != s.pe[1] || out.x[1] != s.x[1] || out.y[1] != s.y[1]))
                bad = "other-multiplier-unit";
        }
        digests.insert(Fnv(&out.p, sizeof(out.p), Mix(opcode) ^ AccVal(out, p.acc)));
        if (!bad.empty())
            res.AddViolation(Fmt("c04:mul:%s:%s", p.form.substr(0, p.form.find(' ')).c_str(), bad.substr(0, bad.find(" (")).c_str()),
                             Fmt("opcode %04X (%s): x=%04X y=%04X hwm=%d ps=%d previous product %X:%08X acc=%010llX sata=%d: implementation x0=%04X y0=%04X p0=%X:%08X acc=%010llX; %s",
                                 opcode, p.form.c_str(), xe, y, hwm, ps, prev_pe, prev_p, (unsigned long long)(Aeff & 0xFFFFFFFFFFull), sata, out.x[0], out.y[0],
                                 out.pe[0], out.p[0], (unsigned long long)(AccVal(out, p.acc) & 0xFFFFFFFFFFull), bad.c_str()),
                             Fmt("c04 mul %u %u %u %d %d %u %u %llu %d", opcode, x, y, hwm, ps, prev_p, prev_pe, (unsigned long long)A, sata));
    }


    // ---------- product-sum and dual-multiplier forms (app, mma*, sqr_*, mac1) ----------
    struct DualPlan {
        bool valid = false;
        std::string form;
        int acc = 0;             // destination accumulator (0..3 = a0,a1,b0,b1)
        bool sum = true;
        int base = 1;            // 0 zero, 1 accumulator, 2 sv<<16, 3 sv<<16 | 0x8000
        bool use0 = true, use1 = true, sub0 = false, al0 = false, sub1 = false, al1 = false;
        bool mul0 = false, mul1 = false, xs0 = true, ys0 = true, xs1 = true, ys1 = true;
        // where the factor registers come from: 0 memory (taken from the factor registers after the instruction),
        // 1 x0<->x1 exchanged, y kept; 2 exchanged, y0 from memory; 3 exchanged, y1 from memory; 4 x from memory, y kept;
        // 5 both halves of an accumulator squared; 6 high half squared, low half (unsigned) times high half; 7 none
        int xy = 7;
        int src_acc = 0;
        bool memory = false;
    };
    static void SumArgs(const DecodeInfo& d, int i, DualPlan& p, bool with_signs) {
        p.acc = d.args[i] / 4;
        ++i;
        if (with_signs) {
            p.xs0 = d.args[i], p.ys0 = d.args[i + 1], p.xs1 = d.args[i + 2], p.ys1 = d.args[i + 3];
            p.mul0 = p.mul1 = true;
            i += 4;
        }
        p.base = d.args[i];
        p.sub0 = d.args[i + 1], p.al0 = d.args[i + 2], p.sub1 = d.args[i + 3], p.al1 = d.args[i + 4];
    }
    static DualPlan MakeDualPlan(const DecodeInfo& d) {
        DualPlan p;
        std::string n = d.name;
        auto T = [&](int i) { return std::string(d.arg_types[i]); };
        if (n == "app" && d.nargs == 6 && T(0) == "Ab") {
            p.acc = AccIndex(kAb[d.args[0]]);
            p.base = d.args[1], p.sub0 = d.args[2], p.al0 = d.args[3], p.sub1 = d.args[4], p.al1 = d.args[5];
            p.xy = 7, p.valid = true;
        } else if (n == "mma" && d.nargs == 10 && T(0) == "RegName") {
            SumArgs(d, 0, p, true), p.xy = 1, p.valid = true;
        } else if (n == "mma" && d.nargs == 15 && T(5) == "RegName") {
            SumArgs(d, 5, p, true), p.xy = 0, p.memory = true, p.valid = true;
        } else if ((n == "mma_mx_xy" || n == "mma_xy_mx" || n == "mma_my_my") && d.nargs == 12 && T(2) == "RegName") {
            SumArgs(d, 2, p, true), p.memory = true, p.valid = true;
            p.xy = n == "mma_mx_xy" ? 2 : n == "mma_xy_mx" ? 3 : 4;
        } else if (n == "mma_mov" && d.nargs == 14 && T(4) == "RegName") {
            SumArgs(d, 4, p, true), p.xy = 1, p.memory = true, p.valid = true;
        } else if (n == "mma_mov" && d.nargs == 12 && T(2) == "RegName") {
            SumArgs(d, 2, p, true), p.xy = 1, p.memory = true, p.valid = true;
        } else if (n == "sqr_sqr_add3" && d.nargs == 2) {
            p.src_acc = AccIndex(kAb[d.args[0]]), p.acc = AccIndex(kAb[d.args[1]]);
            p.mul0 = p.mul1 = true, p.xy = 5, p.valid = true;
        } else if (n == "sqr_sqr_add3" && d.nargs == 3) {
            p.acc = AccIndex(kAb[d.args[2]]);
            p.mul0 = p.mul1 = true, p.xy = 0, p.memory = true, p.valid = true;
        } else if (n == "sqr_mpysu_add3a" && d.nargs == 2) {
            p.src_acc = AccIndex(kAb[d.args[0]]), p.acc = AccIndex(kAb[d.args[1]]);
            p.al1 = true, p.mul0 = p.mul1 = true, p.xs1 = false, p.xy = 6, p.valid = true;
        } else if (n == "mac1" && d.nargs == 4) {
            p.acc = AccIndex(kAx[d.args[3]]);
            p.use0 = false, p.mul1 = true, p.xy = 0, p.memory = true, p.valid = true;
        }
        if (p.valid)
            p.form = n + Fmt(":base=%d,%c%s,%c%s,signs=%d%d%d%d,xy=%d", p.base, p.sub0 ? '-' : '+', p.use0 ? (p.al0 ? "p0a" : "p0") : "0", p.sub1 ? '-' : '+',
                             p.al1 ? "p1a" : "p1", p.xs0, p.ys0, p.xs1, p.ys1, p.xy);
        return p;
    }
    struct DualIn {
        u16 x0, y0, x1, y1;
        int hwm, ps0, ps1;
        u32 p0;
        u16 pe0;
        u32 p1;
        u16 pe1;
        u64 A;
        u16 sv;
        int sata;
    };
    std::map<u16, std::vector<u32>> dual_reads; // opcode -> data addresses read (fixed pre-state, so fixed addresses)
    VState DualState(const DualPlan& p, const DualIn& in) {
        VState s = base;
        for (int k = 0; k < 4; ++k)
            s.r[k] = (u16)(0x6480 + 8 * k), s.r[4 + k] = (u16)(0xCC80 + 8 * k);
        s.hwm = (u16)in.hwm, s.ps[0] = (u16)in.ps0, s.ps[1] = (u16)in.ps1, s.sata = (u16)in.sata, s.sv = in.sv;
        s.p[0] = in.p0, s.pe[0] = in.pe0, s.p[1] = in.p1, s.pe[1] = in.pe1;
        s.x[0] = in.x0, s.y[0] = in.y0, s.x[1] = in.x1, s.y[1] = in.y1;
        s.a[0] = 0x11223344, s.a[1] = Sx40(0xFF89ABCDEFull), s.b[0] = 0x0055AA55AAull, s.b[1] = Sx40(0x8012345678ull);
        AccRef(s, p.acc) = in.A;
        if (p.xy == 5 || p.xy == 6)
            if (p.src_acc != p.acc)
                AccRef(s, p.src_acc) = Sx40(((u64)in.x0 << 16) | in.x1 | ((u64)(in.y0 & 0xFF) << 32));
        return s;
    }
    void DualCase(u16 opcode, const DualPlan& p, const DualIn& in) {
        VState s = DualState(p, in);
        if (p.memory) {
            auto it = dual_reads.find(opcode);
            if (it == dual_reads.end()) {
                u16 words[2] = {opcode, 0};
                VState o;
                RunResult rr;
                impl.api->run(impl.m, &s, words, 2, 1, &o, &rr);
                std::vector<u32> addrs;
                for (int i = 0; i < rr.n_logged; ++i)
                    if (!rr.log[i].is_write && rr.log[i].addr >= 0x20000)
                        addrs.push_back(rr.log[i].addr - 0x20000);
                it = dual_reads.emplace(opcode, addrs).first;
            }
            const u16 vals[4] = {in.x0, in.y0, in.x1, in.y1};
            for (size_t i = 0; i < it->second.size() && i < 4; ++i)
                impl.api->poke_data(impl.m, it->second[i], vals[i]);
        }
        VState out;
        std::string bad;
        long long Aeff = S40(AccVal(s, p.acc));
        if (Exec(s, opcode, 0, out, bad)) {
            // (1) the sum of the previous products
            if (p.sum) {
                long long v0 = p.use0 ? ProductRead(in.p0, in.pe0, in.ps0) : 0, v1 = ProductRead(in.p1, in.pe1, in.ps1);
                if (p.al0)
                    v0 >>= 16;
                if (p.al1)
                    v1 >>= 16;
                long long b = p.base == 0 ? 0 : p.base == 1 ? Aeff : (long long)(int)((u32)in.sv << 16);
                if (p.base == 3)
                    b |= 0x8000;
                __int128 t = (__int128)b + (p.sub0 ? -(__int128)v0 : (__int128)v0) + (p.sub1 ? -(__int128)v1 : (__int128)v1);
                long long r = c03::Oracle::Wrap40(t);
                bool fe = r != (long long)(int)r;
                long long stored = r;
                int flm = s.flm;
                if (in.sata == 0 && fe)
                    stored = r < 0 ? -0x80000000ll : 0x7FFFFFFFll, flm = 1;
                bool fn = r == 0 || (!fe && (((r >> 31) ^ (r >> 30)) & 1));
                if (AccVal(out, p.acc) != (u64)stored)
                    bad = Fmt("sum (exact %010llX)", (unsigned long long)(stored & 0xFFFFFFFFFFull));
                else if (out.flm != flm || out.fz != (r == 0) || out.fm != (r < 0) || out.fe != fe || out.fn != fn)
                    bad = "sum-flags";
            }
            // (2) where the factor registers come from
            if (bad.empty()) {
                u64 srcv = AccVal(s, p.src_acc);
                u16 sh = (u16)(srcv >> 16), sl = (u16)srcv;
                bool ok = true;
                switch (p.xy) {
                case 1: ok = out.x[0] == in.x1 && out.x[1] == in.x0 && out.y[0] == in.y0 && out.y[1] == in.y1; break;
                case 2: ok = out.x[0] == in.x1 && out.x[1] == in.x0 && out.y[1] == in.y1; break;
                case 3: ok = out.x[0] == in.x1 && out.x[1] == in.x0 && out.y[0] == in.y0; break;
                case 4: ok = out.y[0] == in.y0 && out.y[1] == in.y1; break;
                case 5: ok = out.x[0] == sh && out.y[0] == sh && out.x[1] == sl && out.y[1] == sl; break;
                case 6: ok = out.x[0] == sh && out.y[0] == sh && out.y[1] == sh && out.x[1] == sl; break;
                case 7: ok = out.x[0] == in.x0 && out.x[1] == in.x1 && out.y[0] == in.y0 && out.y[1] == in.y1; break;
                default: break;
                }
                if (!ok)
                    bad = "factor-registers";
            }
            // (3) each multiplier: exact product of the factors now in its registers
            for (int u = 0; u < 2 && bad.empty(); ++u) {
                bool mul = u ? p.mul1 : p.mul0;
                if (mul) {
                    long long prod = ProductModel(out.x[u], out.y[u], u ? p.xs1 : p.xs0, u ? p.ys1 : p.ys0, in.hwm, u);
                    if (out.p[u] != (u32)prod || out.pe[u] != ((prod >> 32) & 1))
                        bad = Fmt("product-unit%d (exact %09llX)", u, (unsigned long long)(prod & 0x1FFFFFFFFull));
                } else if (out.p[u] != s.p[u] || out.pe[u] != s.pe[u] || out.x[u] != s.x[u] || out.y[u] != s.y[u]) {
                    bad = Fmt("idle-multiplier-unit%d-changed", u);
                }
            }
        }
        digests.insert(Fnv(&out.p, sizeof(out.p), Mix(opcode) ^ AccVal(out, p.acc) ^ ((u64)out.x[0] << 40)));
        if (!bad.empty())
            res.AddViolation(Fmt("c04:dual:%s:%s", p.form.substr(0, p.form.find(':')).c_str(), bad.substr(0, bad.find(" (")).c_str()),
                             Fmt("opcode %04X (%s): x0=%04X y0=%04X x1=%04X y1=%04X hwm=%d p0=%X:%08X ps0=%d p1=%X:%08X ps1=%d acc=%010llX sv=%04X sata=%d: "
                                 "implementation x=%04X,%04X y=%04X,%04X p0=%X:%08X p1=%X:%08X acc=%010llX; %s",
                                 opcode, p.form.c_str(), in.x0, in.y0, in.x1, in.y1, in.hwm, in.pe0, in.p0, in.ps0, in.pe1, in.p1, in.ps1,
                                 (unsigned long long)(Aeff & 0xFFFFFFFFFFull), in.sv, in.sata, out.x[0], out.x[1], out.y[0], out.y[1], out.pe[0], out.p[0], out.pe[1],
                                 out.p[1], (unsigned long long)(AccVal(out, p.acc) & 0xFFFFFFFFFFull), bad.c_str()),
                             Fmt("c04 dual %u %u %u %u %u %d %d %d %u %u %u %u %llu %u %d", opcode, in.x0, in.y0, in.x1, in.y1, in.hwm, in.ps0, in.ps1, in.p0, in.pe0,
                                 in.p1, in.pe1, (unsigned long long)in.A, in.sv, in.sata));
    }

    // ---------- product read of unit 1 (mov p1 -> acc) ----------
    void ProdReadCase(u16 opcode, const DecodeInfo& d, u32 pv, u16 pe, int ps, int sata) {
        VState s = base;
        s.p[1] = pv, s.pe[1] = pe, s.ps[1] = (u16)ps, s.sata = (u16)sata;
        int dst = AccIndex(kAb[d.args[0]]);
        VState out;
        std::string bad;
        if (Exec(s, opcode, 0, out, bad)) {
            long long r = ProductRead(pv, pe, ps);
            long long stored = r;
            if (sata == 0 && r != (long long)(int)r)
                stored = r < 0 ? -0x80000000ll : 0x7FFFFFFFll;
            if (AccVal(out, dst) != (u64)stored)
                bad = Fmt("value (exact read %010llX)", (unsigned long long)(r & 0xFFFFFFFFFFull));
        }
        if (!bad.empty())
            res.AddViolation(Fmt("c04:product-read:ps=%d:%s", ps, bad.substr(0, bad.find(" (")).c_str()),
                             Fmt("opcode %04X (mov p1,acc): product %X:%08X with product shift %d, sata=%d: implementation %010llX; %s", opcode, pe, pv, ps, sata,
                                 (unsigned long long)(AccVal(out, dst) & 0xFFFFFFFFFFull), bad.c_str()),
                             Fmt("c04 pread %u %u %u %d %d", opcode, pv, pe, ps, sata));
    }
};

inline std::vector<std::pair<u32, u16>> ProductAlphabet() {
    std::vector<std::pair<u32, u16>> v;
    for (u32 p : {0u, 1u, 0xFFFFFFFFu, 0x7FFFFFFFu, 0x80000000u, 0x40000000u, 0xC0000000u, 0x00010000u, 0xFFFF0000u, 0x12345678u, 0x3FFFFFFFu, 0xBFFFFFFFu})
        for (u16 pe : {(u16)0, (u16)1})
            v.push_back({p, pe});
    return v;
}

inline int RunReplay(const std::string& r, Result& res) {
    QuietStdout quiet;
    Engine e(res);
    unsigned op, a, b, c, d2;
    unsigned long long A;
    int i1, i2, i3;
    DecodeInfo d;
    if (std::sscanf(r.c_str(), "c04 shift %u %llu %u %u %d %d %d", &op, &A, &a, &b, &i1, &i2, &i3) == 7) {
        e.impl.api->decode((u16)op, &d);
        auto p = Engine::MakeShiftPlan(d);
        if (!p.valid)
            return 2;
        e.ShiftCase((u16)op, d, p, A, (u16)a, (u16)b, i1, i2, i3);
    } else if (std::sscanf(r.c_str(), "c04 norm %u %llu %d %d", &op, &A, &i1, &i2) == 4) {
        e.impl.api->decode((u16)op, &d);
        e.NormCase((u16)op, d, A, i1, i2);
    } else if (std::sscanf(r.c_str(), "c04 exp %u %llu %u", &op, &A, &a) == 3) {
        e.impl.api->decode((u16)op, &d);
        e.ExpCase((u16)op, d, A, (u16)a);
    } else if (std::sscanf(r.c_str(), "c04 mul %u %u %u %d %d %u %u %llu %d", &op, &a, &b, &i1, &i2, &c, &d2, &A, &i3) == 9) {
        e.impl.api->decode((u16)op, &d);
        auto p = Engine::MakeMulPlan(d);
        if (!p.valid)
            return 2;
        e.MulCase((u16)op, p, (u16)a, (u16)b, i1, i2, c, (u16)d2, A, i3);
    } else if (r.rfind("c04 dual ", 0) == 0) {
        unsigned x0, y0, x1, y1, p0, pe0, p1, pe1, sv;
        int hwm, ps0, ps1, sata;
        if (std::sscanf(r.c_str(), "c04 dual %u %u %u %u %u %d %d %d %u %u %u %u %llu %u %d", &op, &x0, &y0, &x1, &y1, &hwm, &ps0, &ps1, &p0, &pe0, &p1, &pe1, &A, &sv, &sata) != 15)
            return 2;
        e.impl.api->decode((u16)op, &d);
        auto p = Engine::MakeDualPlan(d);
        if (!p.valid)
            return 2;
        e.DualCase((u16)op, p, Engine::DualIn{(u16)x0, (u16)y0, (u16)x1, (u16)y1, hwm, ps0, ps1, p0, (u16)pe0, p1, (u16)pe1, A, (u16)sv, sata});
    } else if (std::sscanf(r.c_str(), "c04 pread %u %u %u %d %d", &op, &a, &b, &i1, &i2) == 5) {
        e.impl.api->decode((u16)op, &d);
        e.ProdReadCase((u16)op, d, a, (u16)b, i1, i2);
    } else {
        return 2;
    }
    for (auto& v : res.violations)
        quiet.Say(Fmt("  %s\n    %s\n", v.key.c_str(), v.text.c_str()));
    return res.violations.empty() ? 0 : 1;
}

inline void Run(const Args& args, Result& res) {
    res.property = "C04";
    bool th = args.thorough();
    RunPool(args.jobs,
            [&](int idx, int cnt, WorkerBlock& blk, Result& local) {
                QuietStdout quiet;
                Engine e(local);
                auto accs = c03::A40(true);
                auto accs_small = c03::A40(false);
                auto o16 = c03::O16(true);
                auto prods = ProductAlphabet();
                std::set<std::string> swept;
                for (u32 op = idx; op < 0x10000; op += cnt) {
                    DecodeInfo d;
                    e.impl.api->decode((u16)op, &d);
                    std::string n = d.name;
                    // ---- shifts ----
                    auto sp = Engine::MakeShiftPlan(d);
                    if (sp.valid) {
                        ++local.states;
                        std::vector<u16> svs;
                        if (sp.sv_kind == 1) {
                            svs = {0};
                        } else {
                            // every shift amount: all 65536 values for one encoding per form, a boundary set for the others
                            std::string fam = sp.form.substr(0, sp.form.find(' '));
                            bool all = th ? (swept.insert(sp.form + Fmt("|%d|%d", sp.src_acc, sp.dst)).second)
                                          : (sp.cond == 0 && swept.insert(fam).second);
                            if (all)
                                for (u32 v = 0; v < 0x10000; ++v)
                                    svs.push_back((u16)v);
                            else
                                svs = {0, 1, 2, 15, 16, 17, 31, 32, 33, 38, 39, 40, 41, 100, 0x7FFF, 0xFFFF, 0xFFFE, 0xFFF0, 0xFFE0, 0xFFDA, 0xFFD9, 0xFFD8, 0xFFD7, 0x8000};
                        }
                        const auto& vals = svs.size() > 1000 ? accs_small : accs;
                        for (u16 sv : svs)
                            for (int sm = 0; sm < 2; ++sm)
                                for (int sata = 0; sata < 2; ++sata) {
                                    int fl = (sv ^ sm) & 1;
                                    if (sp.src_kind == 0)
                                        for (u64 A : vals)
                                            e.ShiftCase((u16)op, d, sp, A, 0, sv, sm, sata, fl);
                                    else
                                        for (u16 B : o16)
                                            e.ShiftCase((u16)op, d, sp, 0, B, sv, sm, sata, fl);
                                }
                    }
                    // ---- exponent ----
                    if (n == "exp" || n == "exp_r6") {
                        ++local.states;
                        // complete over the classes the result can depend on: (sign, run length 0..39, next bit, tail)
                        for (int sign = 0; sign < 2; ++sign)
                            for (int run = 0; run <= 39; ++run)
                                for (u64 tail : {0ull, ~0ull, 0x5555555555ull}) {
                                    u64 v = sign ? ~0ull : 0ull;
                                    if (run < 39) {
                                        int brk = 38 - run; // first bit that differs from the sign
                                        u64 below = (brk > 0) ? (tail & ((1ull << brk) - 1)) : 0;
                                        u64 top = sign ? (~0ull << (brk + 1)) : 0;
                                        v = top | ((u64)(sign ? 0 : 1) << brk) | below;
                                    }
                                    v = Sx40(v);
                                    e.ExpCase((u16)op, d, v, (u16)(v >> 16));
                                }
                        for (u16 b : o16)
                            e.ExpCase((u16)op, d, Sx40((u64)b << 16), b);
                    }
                    // ---- norm ----
                    if (n == "norm" && ArgsAre(d, {"Ax", "Rn", "StepZIDS"})) {
                        ++local.states;
                        for (u64 A : accs)
                            for (int fn = 0; fn < 2; ++fn)
                                for (int fc = 0; fc < 2; ++fc)
                                    e.NormCase((u16)op, d, A, fn, fc);
                    }
                    // ---- multiply / multiply-accumulate ----
                    auto mp = Engine::MakeMulPlan(d);
                    if (mp.valid) {
                        ++local.states;
                        bool rich = swept.insert("mul|" + mp.form).second;
                        for (u16 x : o16)
                            for (u16 y : o16)
                                for (int hwm = 0; hwm < 4; ++hwm) {
                                    if (mp.x_kind == 4 && x != o16[0])
                                        continue;
                                    int ps = (x + y + hwm) & 3;
                                    auto pr = prods[(x * 7 + y * 3 + hwm) % prods.size()];
                                    e.MulCase((u16)op, mp, x, y, hwm, ps, pr.first, pr.second, accs_small[(x ^ y) % accs_small.size()], (x >> 3) & 1);
                                }
                        if (mp.acc_mode && rich)
                            for (auto pr : prods)
                                for (int ps = 0; ps < 4; ++ps)
                                    for (u64 A : accs_small)
                                        for (int sata = 0; sata < 2; ++sata)
                                            e.MulCase((u16)op, mp, 0x7FFF, 0x8000, 0, ps, pr.first, pr.second, A, sata);
                    }
                    // ---- product sums and the dual-multiplier forms ----
                    auto dp = Engine::MakeDualPlan(d);
                    if (dp.valid) {
                        ++local.states;
                        static const u16 F[8] = {0x0000, 0x0001, 0x7FFF, 0x8000, 0xFFFF, 0x34C7, 0x00FF, 0xFF00};
                        bool rich = swept.insert("dual|" + dp.form).second;
                        int k = 0;
                        for (int pass = 0; pass < 2; ++pass)
                            for (int a = 0; a < 8; ++a)
                                for (int b = 0; b < 8; ++b)
                                    for (int hwm = 0; hwm < 4; ++hwm, ++k) {
                                        Engine::DualIn in;
                                        u16 fa = F[a], fb = F[b], ga = F[(a * 3 + b + 1) & 7], gb = F[(a + b * 5 + 2) & 7];
                                        in.x0 = pass ? ga : fa, in.y0 = pass ? gb : fb, in.x1 = pass ? fa : ga, in.y1 = pass ? fb : gb;
                                        in.hwm = hwm, in.ps0 = k & 3, in.ps1 = (k >> 2) & 3;
                                        auto q0 = prods[k % prods.size()], q1 = prods[(k * 5 + 7) % prods.size()];
                                        in.p0 = q0.first, in.pe0 = q0.second, in.p1 = q1.first, in.pe1 = q1.second;
                                        in.A = accs_small[k % accs_small.size()], in.sv = o16[k % o16.size()], in.sata = (k >> 4) & 1;
                                        e.DualCase((u16)op, dp, in);
                                    }
                        if (rich)
                            for (auto q0 : prods)
                                for (auto q1 : prods)
                                    for (int ps = 0; ps < 16; ++ps)
                                        for (size_t ai = 0; ai < accs_small.size(); ai += 7)
                                            for (int sata = 0; sata < 2; ++sata) {
                                                Engine::DualIn in{0x7FFF, 0x8000, 0x34C7, 0x00FF, 0, ps & 3, ps >> 2, q0.first, q0.second, q1.first, q1.second,
                                                                  accs_small[ai], o16[(ai + ps) % o16.size()], sata};
                                                e.DualCase((u16)op, dp, in);
                                            }
                    }
                    if (n == "mov_p1_to" && ArgsAre(d, {"Ab"})) {
                        ++local.states;
                        for (auto pr : prods)
                            for (int ps = 0; ps < 4; ++ps)
                                for (int sata = 0; sata < 2; ++sata)
                                    e.ProdReadCase((u16)op, d, pr.first, pr.second, ps, sata);
                    }
                }
                // ---- thorough: all 2^32 factor pairs for the four sign selections (mul y0,r0 forms) ----
                if (th) {
                    const u16 ops4[4] = {0x8040 | (0 << 8), 0x8040 | (1 << 8), 0x8040 | (3 << 8), 0x8040 | (5 << 8)}; // mpy, mpysu, macus, macuu with r0, a0
                    for (u16 op : ops4) {
                        DecodeInfo d;
                        e.impl.api->decode(op, &d);
                        auto mp = Engine::MakeMulPlan(d);
                        if (!mp.valid)
                            continue;
                        for (u32 x = idx; x < 0x10000; x += cnt)
                            for (u32 y = 0; y < 0x10000; ++y)
                                e.MulCase(op, mp, (u16)x, (u16)y, 0, 0, 0, 0, 0, 1);
                    }
                }
                blk.evaluations = local.evaluations;
                blk.transitions = local.transitions;
                blk.traces = local.traces_validated;
                blk.states = local.states;
                blk.distinct = e.digests.size();
            },
            res);
    res.rule = "every encoding of norm (A40 x normalised flag x carry-in) and of shfc/shfi/movs/movsi/moda-shift (A40 or O16 values x all 65536 shift amounts for one encoding per form, boundary "
               "amounts for the rest x shift mode x sata), exp/exp_r6 (every sign/run-length class + O16), multiply and multiply-accumulate forms "
               "(O16 x O16 factors x half-word mode x product shift x previous products x accumulators x sata), every product-sum and "
               "dual-multiplier form (app, mma*, sqr_*, mac1: 8x8 factors on each unit x half-word mode, previous products x product shifts of both "
               "units x accumulators x sv x sata) and mov p1 (product alphabet x 4 shifts) is executed on the implementation and compared with exact integer models of product, product read, shift, carry, "
               "overflow, saturation and exponent; distinct = distinct (opcode, operands, result) digests";
    res.bound = Fmt("all 65536 first words decoded; shift amounts: all 65536; factors: O16xO16 (24x24)%s; exponent: all 80 (sign, run length) classes x 3 tails",
                    th ? " + all 2^32 factor pairs for the 4 sign selections" : "");
    res.assumptions = {"saturation after a shift applies in arithmetic shift mode only (reading of the statement, matches the hardware-validated code)",
                       "carry for a shift amount of 0 is not checked (nothing is shifted out)",
                       "half-word mode selects y>>8 / y&0xFF as a 16-bit quantity before the signed/unsigned interpretation",
                       "carry/overflow flags of multiply-accumulate and product sums are left to C01 (two partial additions; the code itself marks their combination as uncertain)",
                       "memory-sourced factors of the dual forms are taken from the factor registers after the instruction (which cell feeds which register is addressing, C10/C01)"};
    res.AddSample("shfc a0->a1 with sv=0028 (left by exactly 40), value 0000000001: statement carry = bit 0 = 1");
    res.AddSample("macus y0,r0 with x=8000 y=0001: exact product 1FFFF8000 (33 bits), pe=1");
}
} // namespace c04
