// Shared kernel for all /verif engines: result file writer, digest, process pool, deadlines.
// Engines write a *raw result* JSON (counts, samples, violations); /verif/check turns it into
// evidence/<id>.json and applies known_findings.txt.  Nothing here is specific to teakra.
#pragma once
#include <algorithm>
#include <chrono>
#include <cstdarg>
#include <cstdint>
#include <cstdio>
#include <cstdlib>
#include <cstring>
#include <functional>
#include <map>
#include <set>
#include <string>
#include <unordered_set>
#include <vector>
#include <sys/mman.h>
#include <sys/wait.h>
#include <unistd.h>

namespace verif {

using u8 = std::uint8_t;
using u16 = std::uint16_t;
using u32 = std::uint32_t;
using u64 = std::uint64_t;

inline std::string Fmt(const char* fmt, ...) {
    char buf[4096];
    va_list ap;
    va_start(ap, fmt);
    std::vsnprintf(buf, sizeof(buf), fmt, ap);
    va_end(ap);
    return buf;
}

inline u64 Fnv(const void* data, std::size_t n, u64 h = 0xcbf29ce484222325ull) {
    const u8* p = static_cast<const u8*>(data);
    for (std::size_t i = 0; i < n; ++i) {
        h ^= p[i];
        h *= 0x100000001b3ull;
    }
    return h;
}
inline u64 Mix(u64 x) {
    x ^= x >> 33;
    x *= 0xff51afd7ed558ccdull;
    x ^= x >> 33;
    x *= 0xc4ceb9fe1a85ec53ull;
    x ^= x >> 33;
    return x;
}

inline std::string JsonEscape(const std::string& s) {
    std::string o;
    for (unsigned char c : s) {
        if (c == '"' || c == '\\') {
            o += '\\';
            o += (char)c;
        } else if (c == '\n') {
            o += "\\n";
        } else if (c < 0x20) {
            o += Fmt("\\u%04x", c);
        } else {
            o += (char)c;
        }
    }
    return o;
}

struct Clock {
    std::chrono::steady_clock::time_point t0 = std::chrono::steady_clock::now();
    double Sec() const {
        return std::chrono::duration<double>(std::chrono::steady_clock::now() - t0).count();
    }
};

// Counter of distinct outcome digests: exact up to `cap` entries, a lower bound beyond (bounds a worker's memory in the
// long sweeps; the count is evidence about non-vacuity, never an oracle).
struct DigestSet {
    std::unordered_set<u64> s;
    size_t cap = 4000000;
    void insert(u64 v) {
        if (s.size() < cap)
            s.insert(v);
    }
    size_t size() const { return s.size(); }
    auto begin() const { return s.begin(); }
    auto end() const { return s.end(); }
};

struct Violation {
    std::string key;    // canonical failing case (matched against known_findings.txt)
    std::string text;   // human explanation
    std::string replay; // replay argument string understood by the engine's --replay
};

// Raw result of one engine run.
struct Result {
    std::string property;
    std::string tier = "quick";
    u64 seed = 0;
    u64 evaluations = 0;
    u64 states = 0;
    u64 transitions = 0;
    u64 traces_validated = 0;
    u64 distinct_nontrivial = 0;
    bool exhaustive = true;
    std::string rule;
    std::string bound;
    std::vector<std::string> samples;     // already JSON values (strings quoted by AddSample)
    std::vector<std::string> assumptions; // plain text
    std::map<std::string, std::string> extra; // extra coverage keys -> raw JSON value
    std::vector<Violation> violations;
    std::map<std::string, u64> violation_class_counts; // key -> how many raw cases collapsed into it
    Clock clock;

    void AddSample(const std::string& s) {
        if (samples.size() < 12)
            samples.push_back("\"" + JsonEscape(s) + "\"");
    }
    void Extra(const std::string& k, u64 v) {
        extra[k] = Fmt("%llu", (unsigned long long)v);
    }
    void ExtraStr(const std::string& k, const std::string& v) {
        extra[k] = "\"" + JsonEscape(v) + "\"";
    }
    // Violations are de-duplicated by key; at most 200 distinct keys are kept.
    u64 violation_events = 0; // every call, also the ones folded into an existing class (BFS engines: "did this transition violate?")
    void AddViolation(const std::string& key, const std::string& text, const std::string& replay) {
        ++violation_events;
        auto& c = violation_class_counts[key];
        if (c++ == 0 && violations.size() < 200)
            violations.push_back({key, text, replay});
    }
    bool Write(const char* path) const {
        FILE* f = std::fopen(path, "w");
        if (!f)
            return false;
        std::fprintf(f, "{\n \"property\": \"%s\",\n \"tier\": \"%s\",\n \"seed\": %llu,\n",
                     property.c_str(), tier.c_str(), (unsigned long long)seed);
        std::fprintf(f, " \"evaluations\": %llu,\n \"states\": %llu,\n \"transitions\": %llu,\n",
                     (unsigned long long)evaluations, (unsigned long long)states,
                     (unsigned long long)transitions);
        std::fprintf(f, " \"traces_validated_against_impl\": %llu,\n \"distinct_nontrivial\": %llu,\n",
                     (unsigned long long)traces_validated, (unsigned long long)distinct_nontrivial);
        std::fprintf(f, " \"exhaustive\": %s,\n \"rule\": \"%s\",\n \"bound\": \"%s\",\n",
                     exhaustive ? "true" : "false", JsonEscape(rule).c_str(),
                     JsonEscape(bound).c_str());
        std::fprintf(f, " \"wall_s\": %.3f,\n", clock.Sec());
        std::fprintf(f, " \"samples\": [");
        for (std::size_t i = 0; i < samples.size(); ++i)
            std::fprintf(f, "%s%s", i ? ", " : "", samples[i].c_str());
        std::fprintf(f, "],\n \"assumptions\": [");
        for (std::size_t i = 0; i < assumptions.size(); ++i)
            std::fprintf(f, "%s\"%s\"", i ? ", " : "", JsonEscape(assumptions[i]).c_str());
        std::fprintf(f, "],\n \"extra\": {");
        bool first = true;
        for (auto& kv : extra) {
            std::fprintf(f, "%s\"%s\": %s", first ? "" : ", ", JsonEscape(kv.first).c_str(),
                         kv.second.c_str());
            first = false;
        }
        std::fprintf(f, "},\n \"violations\": [");
        for (std::size_t i = 0; i < violations.size(); ++i) {
            auto& v = violations[i];
            auto it = violation_class_counts.find(v.key);
            std::fprintf(f, "%s\n  {\"key\": \"%s\", \"text\": \"%s\", \"replay\": \"%s\", \"count\": %llu}",
                         i ? "," : "", JsonEscape(v.key).c_str(), JsonEscape(v.text).c_str(),
                         JsonEscape(v.replay).c_str(),
                         (unsigned long long)(it == violation_class_counts.end() ? 1 : it->second));
        }
        std::fprintf(f, "]\n}\n");
        std::fclose(f);
        return true;
    }
};

// ---- argument parsing: <subcmd> [--tier quick|thorough] [--seed N] [--out file] [--replay str] [--jobs N]
struct Args {
    std::string sub;
    std::string tier = "quick";
    u64 seed = 0;
    std::string out = "/dev/stdout";
    std::string replay;
    int jobs = 16;
    double deadline_s = 0; // 0 = engine default
    std::map<std::string, std::string> opt;
    bool thorough() const {
        return tier == "thorough";
    }
    static Args Parse(int argc, char** argv) {
        Args a;
        if (argc > 1)
            a.sub = argv[1];
        for (int i = 2; i < argc; ++i) {
            std::string k = argv[i];
            auto val = [&]() -> std::string { return i + 1 < argc ? argv[++i] : ""; };
            if (k == "--tier")
                a.tier = val();
            else if (k == "--seed")
                a.seed = std::strtoull(val().c_str(), nullptr, 0);
            else if (k == "--out")
                a.out = val();
            else if (k == "--replay")
                a.replay = val();
            else if (k == "--jobs")
                a.jobs = std::atoi(val().c_str());
            else if (k == "--deadline")
                a.deadline_s = std::atof(val().c_str());
            else if (k.rfind("--", 0) == 0)
                a.opt[k.substr(2)] = val();
        }
        if (a.jobs < 1)
            a.jobs = 1;
        return a;
    }
};

// ---- process pool -------------------------------------------------------------------------------
// Each worker gets (index, count), fills a fixed-size shared block and a private text file of
// violations.  A worker that dies abnormally is reported through `crashed`.
struct WorkerBlock {
    u64 evaluations, states, transitions, traces, distinct, capped;
    u64 counters[16];
    // progress marker for crash attribution: the case being executed (free text)
    char current[512];
    int done;
};

struct PoolOutcome {
    std::vector<WorkerBlock> blocks;
    std::vector<int> crashed; // worker indexes that died (signal / non-zero exit)
    std::vector<int> status;
};

// fn(index, count, block, violations) -- violations are serialised as key \x1f text \x1f replay lines
inline PoolOutcome RunPool(int jobs,
                           const std::function<void(int, int, WorkerBlock&, Result&)>& fn,
                           Result& merged) {
    PoolOutcome out;
    std::size_t bytes = sizeof(WorkerBlock) * jobs;
    auto* blocks = static_cast<WorkerBlock*>(
        mmap(nullptr, bytes, PROT_READ | PROT_WRITE, MAP_SHARED | MAP_ANONYMOUS, -1, 0));
    std::memset(blocks, 0, bytes);
    char tmpl[] = "/tmp/verif_pool_XXXXXX";
    char* dir = mkdtemp(tmpl);
    std::vector<pid_t> pids(jobs);
    std::fflush(nullptr);
    for (int i = 0; i < jobs; ++i) {
        pid_t p = fork();
        if (p == 0) {
            Result local;
            fn(i, jobs, blocks[i], local);
            std::string path = Fmt("%s/v%d", dir, i);
            FILE* f = std::fopen(path.c_str(), "w");
            for (auto& v : local.violations) {
                u64 c = local.violation_class_counts[v.key];
                std::fprintf(f, "%s\x1f%s\x1f%s\x1f%llu\n", v.key.c_str(), v.text.c_str(),
                             v.replay.c_str(), (unsigned long long)c);
            }
            for (auto& s : local.samples)
                std::fprintf(f, "S\x1f%s\n", s.c_str());
            std::fclose(f);
            blocks[i].done = 1;
            std::fflush(nullptr);
            _exit(0);
        }
        pids[i] = p;
    }
    out.status.resize(jobs);
    for (int i = 0; i < jobs; ++i) {
        int st = 0;
        waitpid(pids[i], &st, 0);
        out.status[i] = st;
        if (!(WIFEXITED(st) && WEXITSTATUS(st) == 0) || !blocks[i].done)
            out.crashed.push_back(i);
    }
    for (int i = 0; i < jobs; ++i) {
        out.blocks.push_back(blocks[i]);
        merged.evaluations += blocks[i].evaluations;
        merged.states += blocks[i].states;
        merged.transitions += blocks[i].transitions;
        merged.traces_validated += blocks[i].traces;
        merged.distinct_nontrivial += blocks[i].distinct;
        if (blocks[i].capped)
            merged.exhaustive = false;
        std::string path = Fmt("%s/v%d", dir, i);
        FILE* f = std::fopen(path.c_str(), "r");
        if (f) {
            char* line = nullptr;
            size_t cap = 0;
            ssize_t n;
            while ((n = getline(&line, &cap, f)) > 0) {
                std::string l(line, n);
                if (!l.empty() && l.back() == '\n')
                    l.pop_back();
                std::vector<std::string> parts;
                size_t pos = 0;
                while (true) {
                    size_t q = l.find('\x1f', pos);
                    parts.push_back(l.substr(pos, q == std::string::npos ? q : q - pos));
                    if (q == std::string::npos)
                        break;
                    pos = q + 1;
                }
                if (parts.size() == 2 && parts[0] == "S") {
                    if (merged.samples.size() < 12)
                        merged.samples.push_back(parts[1]);
                } else if (parts.size() == 4) {
                    u64 c = std::strtoull(parts[3].c_str(), nullptr, 10);
                    auto& cc = merged.violation_class_counts[parts[0]];
                    if (cc == 0 && merged.violations.size() < 200)
                        merged.violations.push_back({parts[0], parts[1], parts[2]});
                    cc += c;
                }
            }
            free(line);
            std::fclose(f);
            unlink(path.c_str());
        }
    }
    rmdir(dir);
    munmap(blocks, bytes);
    return out;
}

// Silence library chatter (BTDMP underrun, unbound MMIO cells...) on stdout; engines print their own
// lines to the saved descriptor.
struct QuietStdout {
    int saved = -1;
    QuietStdout() {
        std::fflush(stdout);
        saved = dup(1);
        int nul = open_null();
        dup2(nul, 1);
        close(nul);
    }
    static int open_null();
    void Say(const std::string& s) const {
        if (saved >= 0) {
            ssize_t r = write(saved, s.data(), s.size());
            (void)r;
        }
    }
};
} // namespace verif

#include <fcntl.h>
inline int verif::QuietStdout::open_null() {
    return ::open("/dev/null", O_WRONLY);
}
