// Shared kernel for all /verif engines: result file writer, digest, process pool, deadlines.
// Engines write a *raw result* JSON (counts, samples, violations); /verif/check turns it into
// evidence/<id>.json and applies known_findings.txt.  Nothing here is specific to teakra.
#pragma once
#include <algorithm>
#include <chrono>
#include <cstdarg>
#include <cstdint>
#include <cstdio>
#include <cstdlib>
#include <cstring>
#include <functional>
#include <map>
#include <set>
#include <string>
#include <unordered_set>
#include <vector>
#include <signal.h>
#include <sys/mman.h>
#include <sys/prctl.h>
#include <sys/time.h>
#include <sys/wait.h>
#include <unistd.h>

namespace verif {

using u8 = std::uint8_t;
using u16 = std::uint16_t;
using u32 = std::uint32_t;
using u64 = std::uint64_t;

inline std::string Fmt(const char* fmt, ...) {
    char buf[4096];
    va_list ap;
    va_start(ap, fmt);
    std::vsnprintf(buf, sizeof(buf), fmt, ap);
    va_end(ap);
    return buf;
}

inline u64 Fnv(const void* data, std::size_t n, u64 h = 0xcbf29ce484222325ull) {
    const u8* p = static_cast<const u8*>(data);
    for (std::size_t i = 0; i < n; ++i) {
        h ^= p[i];
        h *= 0x100000001b3ull;
    }
    return h;
}
inline u64 Mix(u64 x) {
    x ^= x >> 33;
    x *= 0xff51afd7ed558ccdull;
    x ^= x >> 33;
    x *= 0xc4ceb9fe1a85ec53ull;
    x ^= x >> 33;
    return x;
}

inline std::string JsonEscape(const std::string& s) {
    std::string o;
    for (unsigned char c : s) {
        if (c == '"' || c == '\\') {
            o += '\\';
            o += (char)c;
        } else if (c == '\n') {
            o += "\\n";
        } else if (c < 0x20) {
            o += Fmt("\\u%04x", c);
        } else {
            o += (char)c;
        }
    }
    return o;
}

inline std::string OneLine(std::string s) {
    for (char& c : s)
        if (c == '\n' || c == '\x1f')
            c = ' ';
    return s;
}

struct Clock {
    std::chrono::steady_clock::time_point t0 = std::chrono::steady_clock::now();
    double Sec() const {
        return std::chrono::duration<double>(std::chrono::steady_clock::now() - t0).count();
    }
};

// Counter of distinct outcome digests: exact up to `cap` entries, a lower bound beyond (bounds a worker's memory in the
// long sweeps; the count is evidence about non-vacuity, never an oracle).
struct DigestSet {
    std::unordered_set<u64> s;
    size_t cap = 4000000;
    void insert(u64 v) {
        if (s.size() < cap)
            s.insert(v);
    }
    size_t size() const { return s.size(); }
    auto begin() const { return s.begin(); }
    auto end() const { return s.end(); }
};

struct Violation {
    std::string key;    // canonical failing case (matched against known_findings.txt)
    std::string text;   // human explanation
    std::string replay; // replay argument string understood by the engine's --replay
};

// Raw result of one engine run.
struct Result {
    std::string property;
    std::string tier = "quick";
    u64 seed = 0;
    u64 evaluations = 0;
    u64 states = 0;
    u64 transitions = 0;
    u64 traces_validated = 0;
    u64 distinct_nontrivial = 0;
    bool exhaustive = true;
    std::string rule;
    std::string bound;
    std::vector<std::string> samples;     // already JSON values (strings quoted by AddSample)
    std::vector<std::string> assumptions; // plain text
    std::map<std::string, std::string> extra; // extra coverage keys -> raw JSON value
    std::vector<Violation> violations;
    std::map<std::string, u64> violation_class_counts; // key -> how many raw cases collapsed into it
    Clock clock;

    void AddSample(const std::string& s) {
        if (samples.size() < 12)
            samples.push_back("\"" + JsonEscape(s) + "\"");
    }
    void Extra(const std::string& k, u64 v) {
        extra[k] = Fmt("%llu", (unsigned long long)v);
    }
    void ExtraStr(const std::string& k, const std::string& v) {
        extra[k] = "\"" + JsonEscape(v) + "\"";
    }
    // Violations are de-duplicated by key; at most 200 distinct keys are kept.
    u64 violation_events = 0; // every call, also the ones folded into an existing class (BFS engines: "did this transition violate?")
    void AddViolation(const std::string& key, const std::string& text, const std::string& replay) {
        ++violation_events;
        auto& c = violation_class_counts[key];
        if (c++ == 0 && violations.size() < 200)
            violations.push_back({key, text, replay});
    }
    bool Write(const char* path) const {
        FILE* f = std::fopen(path, "w");
        if (!f)
            return false;
        std::fprintf(f, "{\n \"property\": \"%s\",\n \"tier\": \"%s\",\n \"seed\": %llu,\n",
                     property.c_str(), tier.c_str(), (unsigned long long)seed);
        std::fprintf(f, " \"evaluations\": %llu,\n \"states\": %llu,\n \"transitions\": %llu,\n",
                     (unsigned long long)evaluations, (unsigned long long)states,
                     (unsigned long long)transitions);
        std::fprintf(f, " \"traces_validated_against_impl\": %llu,\n \"distinct_nontrivial\": %llu,\n",
                     (unsigned long long)traces_validated, (unsigned long long)distinct_nontrivial);
        std::fprintf(f, " \"exhaustive\": %s,\n \"rule\": \"%s\",\n \"bound\": \"%s\",\n",
                     exhaustive ? "true" : "false", JsonEscape(rule).c_str(),
                     JsonEscape(bound).c_str());
        std::fprintf(f, " \"wall_s\": %.3f,\n", clock.Sec());
        std::fprintf(f, " \"samples\": [");
        for (std::size_t i = 0; i < samples.size(); ++i)
            std::fprintf(f, "%s%s", i ? ", " : "", samples[i].c_str());
        std::fprintf(f, "],\n \"assumptions\": [");
        for (std::size_t i = 0; i < assumptions.size(); ++i)
            std::fprintf(f, "%s\"%s\"", i ? ", " : "", JsonEscape(assumptions[i]).c_str());
        std::fprintf(f, "],\n \"extra\": {");
        bool first = true;
        for (auto& kv : extra) {
            std::fprintf(f, "%s\"%s\": %s", first ? "" : ", ", JsonEscape(kv.first).c_str(),
                         kv.second.c_str());
            first = false;
        }
        std::fprintf(f, "},\n \"violations\": [");
        for (std::size_t i = 0; i < violations.size(); ++i) {
            auto& v = violations[i];
            auto it = violation_class_counts.find(v.key);
            std::fprintf(f, "%s\n  {\"key\": \"%s\", \"text\": \"%s\", \"replay\": \"%s\", \"count\": %llu}",
                         i ? "," : "", JsonEscape(v.key).c_str(), JsonEscape(v.text).c_str(),
                         JsonEscape(v.replay).c_str(),
                         (unsigned long long)(it == violation_class_counts.end() ? 1 : it->second));
        }
        std::fprintf(f, "]\n}\n");
        std::fclose(f);
        return true;
    }
};

// ---- argument parsing: <subcmd> [--tier quick|thorough] [--seed N] [--out file] [--replay str] [--jobs N]
struct Args {
    std::string sub;
    std::string tier = "quick";
    u64 seed = 0;
    std::string out = "/dev/stdout";
    std::string replay;
    int jobs = 16;
    double deadline_s = 0; // 0 = engine default
    std::map<std::string, std::string> opt;
    bool thorough() const {
        return tier == "thorough";
    }
    static Args Parse(int argc, char** argv) {
        Args a;
        if (argc > 1)
            a.sub = argv[1];
        for (int i = 2; i < argc; ++i) {
            std::string k = argv[i];
            auto val = [&]() -> std::string { return i + 1 < argc ? argv[++i] : ""; };
            if (k == "--tier")
                a.tier = val();
            else if (k == "--seed")
                a.seed = std::strtoull(val().c_str(), nullptr, 0);
            else if (k == "--out")
                a.out = val();
            else if (k == "--replay")
                a.replay = val();
            else if (k == "--jobs")
                a.jobs = std::atoi(val().c_str());
            else if (k == "--deadline")
                a.deadline_s = std::atof(val().c_str());
            else if (k.rfind("--", 0) == 0)
                a.opt[k.substr(2)] = val();
        }
        if (a.jobs < 1)
            a.jobs = 1;
        return a;
    }
};

// ---- process pool -------------------------------------------------------------------------------
// Each worker gets (index, count), fills a fixed-size shared block and a private text file of
// violations.  A worker that dies abnormally is reported through `crashed`.
struct WorkerBlock {
    u64 evaluations, states, transitions, traces, distinct, capped;
    u64 counters[16];
    // progress marker for crash attribution: the case being executed (free text)
    char current[512];
    int done;
    volatile u64 heartbeat; // progress counter copied out of the worker once a second (hang detection)
};

struct PoolOutcome {
    std::vector<WorkerBlock> blocks;
    std::vector<int> crashed; // worker indexes that died twice (signal / non-zero exit / no progress)
    std::vector<int> status;
};

// ---- shard replay ---------------------------------------------------------------------------------
// A worker that crashes or stops making progress cannot name the case it was in; the replay of such a
// violation is "run that shard again": --replay "shard <tier> <pool> <index>".
struct PoolControl {
    int shard_pool = -1, shard_index = -1; // >= 0: only this worker of this pool is run
    int pool_seq = 0;                      // number of RunPool calls so far
    bool infra_failure = false;            // a worker was killed from outside (e.g. out of memory): not a verdict
    std::string tier = "quick";
};
inline PoolControl& Pool() {
    static PoolControl c;
    return c;
}
inline bool ParseShardReplay(Args& a) {
    char tier[32];
    int pool, idx;
    if (std::sscanf(a.replay.c_str(), "shard %31s %d %d", tier, &pool, &idx) != 3)
        return false;
    a.tier = tier;
    a.replay.clear();
    a.out = "/dev/null";
    Pool().shard_pool = pool, Pool().shard_index = idx;
    return true;
}

namespace detail {
inline const Result* g_hb_src = nullptr;
inline WorkerBlock* g_hb_dst = nullptr;
inline void HeartbeatHandler(int) {
    if (g_hb_src && g_hb_dst)
        g_hb_dst->heartbeat = g_hb_src->evaluations + g_hb_src->transitions + g_hb_src->states + g_hb_src->traces_validated + g_hb_src->violation_events + 1;
}
} // namespace detail

// fn(index, count, block, violations) -- violations are serialised as key \x1f text \x1f replay lines
inline PoolOutcome RunPool(int jobs,
                           const std::function<void(int, int, WorkerBlock&, Result&)>& fn,
                           Result& merged) {
    PoolOutcome out;
    PoolControl& pc = Pool();
    const int my_seq = pc.pool_seq++;
    pc.tier = merged.tier;
    std::size_t bytes = sizeof(WorkerBlock) * jobs;
    auto* blocks = static_cast<WorkerBlock*>(
        mmap(nullptr, bytes, PROT_READ | PROT_WRITE, MAP_SHARED | MAP_ANONYMOUS, -1, 0));
    std::memset(blocks, 0, bytes);
    out.status.assign(jobs, 0);
    if (pc.shard_pool >= 0 && pc.shard_pool != my_seq) { // shard replay of another pool: nothing to do here
        for (int i = 0; i < jobs; ++i)
            out.blocks.push_back(blocks[i]);
        munmap(blocks, bytes);
        return out;
    }
    char tmpl[] = "/tmp/verif_pool_XXXXXX";
    char* dir = mkdtemp(tmpl);
    const char* hs = std::getenv("VERIF_HANG_S");
    const double hang_s = hs && std::atof(hs) > 0 ? std::atof(hs) : 120.0;
    std::fflush(nullptr);
    auto spawn = [&](int i) -> pid_t {
        std::memset(&blocks[i], 0, sizeof(WorkerBlock));
        pid_t p = fork();
        if (p == 0) {
            prctl(PR_SET_PDEATHSIG, SIGKILL); // a worker never outlives its engine
            Result local;
            local.tier = merged.tier, local.seed = merged.seed;
            detail::g_hb_src = &local, detail::g_hb_dst = &blocks[i];
            struct sigaction sa;
            std::memset(&sa, 0, sizeof(sa));
            sa.sa_handler = detail::HeartbeatHandler;
            sa.sa_flags = SA_RESTART;
            sigaction(SIGALRM, &sa, nullptr);
            struct itimerval tv;
            tv.it_interval.tv_sec = 1, tv.it_interval.tv_usec = 0, tv.it_value = tv.it_interval;
            setitimer(ITIMER_REAL, &tv, nullptr);
            fn(i, jobs, blocks[i], local);
            struct itimerval off;
            std::memset(&off, 0, sizeof(off));
            setitimer(ITIMER_REAL, &off, nullptr);
            std::string path = Fmt("%s/v%d", dir, i);
            FILE* f = std::fopen(path.c_str(), "w");
            for (auto& v : local.violations) {
                u64 c = local.violation_class_counts[v.key];
                std::fprintf(f, "%s\x1f%s\x1f%s\x1f%llu\n", v.key.c_str(), v.text.c_str(),
                             v.replay.c_str(), (unsigned long long)c);
            }
            for (auto& s : local.samples)
                std::fprintf(f, "S\x1f%s\n", s.c_str());
            // whatever the worker left in its own Result travels too (single-worker engines fill only that)
            for (auto& kv : local.extra)
                std::fprintf(f, "E\x1f%s\x1f%s\n", kv.first.c_str(), kv.second.c_str());
            if (!local.rule.empty())
                std::fprintf(f, "R\x1f%s\n", OneLine(local.rule).c_str());
            if (!local.bound.empty())
                std::fprintf(f, "B\x1f%s\n", OneLine(local.bound).c_str());
            for (auto& a : local.assumptions)
                std::fprintf(f, "A\x1f%s\n", OneLine(a).c_str());
            std::fclose(f);
            WorkerBlock& b = blocks[i];
            if (!b.evaluations) b.evaluations = local.evaluations;
            if (!b.states) b.states = local.states;
            if (!b.transitions) b.transitions = local.transitions;
            if (!b.traces) b.traces = local.traces_validated;
            if (!b.distinct) b.distinct = local.distinct_nontrivial;
            if (!local.exhaustive) b.capped = 1;
            blocks[i].done = 1;
            std::fflush(nullptr);
            _exit(0);
        }
        return p;
    };
    // run a set of workers to completion; returns per worker: 0 ok, 1 crashed (signal other than an outside kill / non-zero exit),
    // 2 no progress for hang_s seconds (killed by us), 3 killed from outside
    auto run_set = [&](const std::vector<int>& idxs, std::vector<int>& kind) {
        std::vector<pid_t> pids(jobs, 0);
        std::vector<u64> last_hb(jobs, 0);
        std::vector<double> last_t(jobs, 0);
        Clock clk;
        for (int i : idxs)
            pids[i] = spawn(i), last_t[i] = clk.Sec();
        size_t left = idxs.size();
        while (left) {
            for (int i : idxs) {
                if (!pids[i])
                    continue;
                int st = 0;
                pid_t r = waitpid(pids[i], &st, WNOHANG);
                if (r == pids[i]) {
                    out.status[i] = st;
                    if (WIFEXITED(st) && WEXITSTATUS(st) == 0 && blocks[i].done)
                        kind[i] = 0;
                    else if (WIFSIGNALED(st) && WTERMSIG(st) == SIGKILL)
                        kind[i] = 3;
                    else
                        kind[i] = 1;
                    pids[i] = 0, --left;
                    continue;
                }
                u64 hb = blocks[i].heartbeat;
                double now = clk.Sec();
                if (hb != last_hb[i])
                    last_hb[i] = hb, last_t[i] = now;
                else if (now - last_t[i] > hang_s) {
                    kill(pids[i], SIGKILL);
                    waitpid(pids[i], &st, 0);
                    out.status[i] = st;
                    kind[i] = 2;
                    pids[i] = 0, --left;
                }
            }
            if (left)
                usleep(50000);
        }
    };
    std::vector<int> all, kind(jobs, 0);
    for (int i = 0; i < jobs; ++i)
        if (pc.shard_pool < 0 || pc.shard_index == i)
            all.push_back(i);
    run_set(all, kind);
    // a worker that died or stalled is run once more, alone: only a failure that repeats is a verdict
    bool verdict_reached = false;
    for (int i : all) {
        if (kind[i] == 0)
            continue;
        int first = kind[i];
        std::string where = blocks[i].current;
        std::vector<int> k2(jobs, 0);
        if (verdict_reached) {
            // one repeated failure is a verdict already; re-running every other failed worker alone would only cost (hang limit) x workers
            out.crashed.push_back(i);
            merged.exhaustive = false;
            merged.Extra(Fmt("pool%d_worker%d_failed_not_rerun", my_seq, i), (u64)first);
            continue;
        }
        if (pc.shard_pool >= 0)
            k2[i] = first; // a shard replay is itself the second run
        else
            run_set({i}, k2);
        if (k2[i] == 0) {
            merged.Extra(Fmt("pool%d_worker%d_retried_after", my_seq, i), (u64)first);
            kind[i] = 0;
            continue;
        }
        kind[i] = k2[i];
        if (k2[i] == 3 || first == 3) {
            pc.infra_failure = true;
            continue;
        }
        out.crashed.push_back(i);
        merged.exhaustive = false;
        verdict_reached = true;
        int st = out.status[i];
        std::string how = k2[i] == 2 ? Fmt("made no progress for %.0f s (twice)", hang_s)
                          : WIFSIGNALED(st) ? Fmt("died with signal %d (twice)", WTERMSIG(st)) : Fmt("exited with status %d (twice)", WIFEXITED(st) ? WEXITSTATUS(st) : -1);
        std::string cur = blocks[i].current[0] ? blocks[i].current : where;
        merged.AddViolation(k2[i] == 2 ? "pool:worker-hang" : "pool:worker-crash",
                            Fmt("worker %d of %d (exploration pool %d, tier %s) %s while executing the real code%s%s; the property cannot hold on an input on which the "
                                "emulator does not return", i, jobs, my_seq, merged.tier.c_str(), how.c_str(), cur.empty() ? "" : "; last case: ", cur.c_str()),
                            Fmt("shard %s %d %d", merged.tier.c_str(), my_seq, i));
    }
    for (int i = 0; i < jobs; ++i) {
        out.blocks.push_back(blocks[i]);
        merged.evaluations += blocks[i].evaluations;
        merged.states += blocks[i].states;
        merged.transitions += blocks[i].transitions;
        merged.traces_validated += blocks[i].traces;
        merged.distinct_nontrivial += blocks[i].distinct;
        if (blocks[i].capped)
            merged.exhaustive = false;
        std::string path = Fmt("%s/v%d", dir, i);
        FILE* f = std::fopen(path.c_str(), "r");
        if (f) {
            char* line = nullptr;
            size_t cap = 0;
            ssize_t n;
            while ((n = getline(&line, &cap, f)) > 0) {
                std::string l(line, n);
                if (!l.empty() && l.back() == '\n')
                    l.pop_back();
                std::vector<std::string> parts;
                size_t pos = 0;
                while (true) {
                    size_t q = l.find('\x1f', pos);
                    parts.push_back(l.substr(pos, q == std::string::npos ? q : q - pos));
                    if (q == std::string::npos)
                        break;
                    pos = q + 1;
                }
                if (parts.size() == 2 && parts[0] == "S") {
                    if (merged.samples.size() < 12)
                        merged.samples.push_back(parts[1]);
                } else if (parts.size() == 3 && parts[0] == "E") {
                    merged.extra[parts[1]] = parts[2];
                } else if (parts.size() == 2 && parts[0] == "R") {
                    if (merged.rule.empty())
                        merged.rule = parts[1];
                } else if (parts.size() == 2 && parts[0] == "B") {
                    if (merged.bound.empty())
                        merged.bound = parts[1];
                } else if (parts.size() == 2 && parts[0] == "A") {
                    std::string a = parts[1];
                    if (std::find(merged.assumptions.begin(), merged.assumptions.end(), a) == merged.assumptions.end())
                        merged.assumptions.push_back(a);
                } else if (parts.size() == 4) {
                    u64 c = std::strtoull(parts[3].c_str(), nullptr, 10);
                    auto& cc = merged.violation_class_counts[parts[0]];
                    if (cc == 0 && merged.violations.size() < 200)
                        merged.violations.push_back({parts[0], parts[1], parts[2]});
                    cc += c;
                }
            }
            free(line);
            std::fclose(f);
            unlink(path.c_str());
        }
    }
    rmdir(dir);
    munmap(blocks, bytes);
    return out;
}

// A single-process exploration under the same supervision (crash / no-progress detection, shard replay) as a pool worker.
inline void RunIsolated(Result& merged, const std::function<void(Result&)>& fn) {
    RunPool(1, [&](int, int, WorkerBlock&, Result& local) { fn(local); }, merged);
}

// Exit code of an engine main after its exploration: 2 when a worker was killed from outside (no verdict), the shard
// replay's verdict when one was asked for, otherwise whether the result file could be written.
inline int Finish(const Args& args, Result& res, bool shard_replay) {
    if (Pool().infra_failure) {
        std::fprintf(stderr, "a worker process was killed from outside (out of memory?): no verdict\n");
        return 2;
    }
    if (shard_replay) {
        for (auto& v : res.violations)
            std::fprintf(stderr, "  %s\n    %s\n", v.key.c_str(), v.text.c_str());
        return res.violations.empty() ? 0 : 1;
    }
    return res.Write(args.out.c_str()) ? 0 : 2;
}

// Silence library chatter (BTDMP underrun, unbound MMIO cells...) on stdout; engines print their own
// lines to the saved descriptor.
struct QuietStdout {
    int saved = -1;
    QuietStdout() {
        std::fflush(stdout);
        saved = dup(1);
        int nul = open_null();
        dup2(nul, 1);
        close(nul);
    }
    static int open_null();
    void Say(const std::string& s) const {
        if (saved >= 0) {
            ssize_t r = write(saved, s.data(), s.size());
            (void)r;
        }
    }
};
} // namespace verif

#include <fcntl.h>
inline int verif::QuietStdout::open_null() {
    return ::open("/dev/null", O_WRONLY);
}
