// Representation-tolerant access to the peripherals' private state.
//
// The explorers save, restore and project peripheral state.  Where the code under test keeps that state in the private members the
// pinned commit has, they are read and written directly (exact and fast; the engines are compiled with -fno-access-control).  A
// behaviour-preserving refactoring may rename, merge or re-encode those members; the adapters below then fall back to the public
// interface of the class (getters, setters, Send/Skip/Tick on a private copy), so that the check still builds and still decides the
// property instead of failing to compile.  Which path is taken is decided at compile time per member (detection idiom).
#pragma once
#include <array>
#include <cstdint>
#include <deque>
#include <memory>
#include <queue>
#include <type_traits>
#include <utility>
#include <vector>

namespace verif_adapt {
using u16 = std::uint16_t;
using u64 = std::uint64_t;

#define VERIF_DETECT(name)                                                                                  \
    template <class X>                                                                                      \
    constexpr auto has_##name(int)->decltype((void)std::declval<X&>().name, true) {                         \
        return true;                                                                                        \
    }                                                                                                       \
    template <class X>                                                                                      \
    constexpr bool has_##name(...) {                                                                        \
        return false;                                                                                       \
    }

VERIF_DETECT(transmit_clock_config)
VERIF_DETECT(transmit_period)
VERIF_DETECT(transmit_timer)
VERIF_DETECT(transmit_enable)
VERIF_DETECT(transmit_empty)
VERIF_DETECT(transmit_full)
VERIF_DETECT(transmit_queue)
VERIF_DETECT(semaphore)
VERIF_DETECT(semaphore_mask)
VERIF_DETECT(semaphore_master_signal)
VERIF_DETECT(data_channels)
VERIF_DETECT(ready)
VERIF_DETECT(data)
VERIF_DETECT(disable_interrupt)
VERIF_DETECT(request)
VERIF_DETECT(enabled)
VERIF_DETECT(vectored_enabled)
VERIF_DETECT(decoders)

template <class B>
constexpr bool BtdmpByName() {
    if constexpr (has_transmit_clock_config<B>(0) && has_transmit_period<B>(0) && has_transmit_timer<B>(0) && has_transmit_enable<B>(0) &&
                  has_transmit_empty<B>(0) && has_transmit_full<B>(0) && has_transmit_queue<B>(0))
        return std::is_same_v<std::remove_cv_t<std::remove_reference_t<decltype(std::declval<B&>().transmit_queue)>>, std::queue<u16>>;
    else
        return false;
}

struct BtdmpView {
    u16 clock_config = 0, period = 0, timer = 0, enable = 0;
    bool empty = true, full = false;
    std::deque<u16> queue;
};

// the observable state of an audio port
template <class B>
BtdmpView ReadBtdmp(const B& b) {
    BtdmpView v;
    if constexpr (BtdmpByName<B>()) {
        v.clock_config = b.transmit_clock_config;
        v.period = b.transmit_period;
        v.timer = b.transmit_timer;
        v.enable = b.transmit_enable;
        v.empty = b.transmit_empty;
        v.full = b.transmit_full;
        auto q = b.transmit_queue;
        while (!q.empty()) {
            v.queue.push_back(q.front());
            q.pop();
        }
    } else {
        // public interface only: the registers through their getters; the frame phase and the queued words by draining a private copy
        // (words are reported as queued; a trailing zero of an odd-length queue cannot be told from silence and is dropped)
        v.clock_config = b.GetTransmitClockConfig();
        v.period = b.GetTransmitPeriod();
        v.enable = b.GetTransmitEnable();
        v.empty = b.GetTransmitEmpty() != 0;
        v.full = b.GetTransmitFull() != 0;
        B c(b);
        std::vector<std::array<std::int16_t, 2>> frames;
        c.SetAudioCallback([&frames](std::array<std::int16_t, 2> f) { frames.push_back(f); });
        c.SetInterruptHandler([]() {});
        c.SetTransmitEnable(1);
        const bool was_empty = v.empty;
        if (was_empty)
            c.Send(0x7E57);
        const u64 h0 = c.GetMaxSkip();
        if (v.period == 0 || h0 == ~0ull) {
            v.timer = 0xFFFF;
            return v;
        }
        c.Skip(h0);
        c.Tick();
        const u64 nf = frames.size();
        const u64 first = h0 - (nf ? nf - 1 : 0) * (u64)v.period;
        v.timer = (u16)(v.period - 1 - first);
        if (!was_empty)
            for (u64 i = 0; i < nf; ++i) {
                v.queue.push_back((u16)frames[i][0]);
                if (i + 1 < nf || frames[i][1] != 0)
                    v.queue.push_back((u16)frames[i][1]);
            }
    }
    return v;
}

// put an audio port into a given state (the fall-back drives it there through its public interface; it keeps its callbacks)
template <class B>
void WriteBtdmp(B& b, const BtdmpView& v) {
    if constexpr (BtdmpByName<B>()) {
        b.transmit_clock_config = v.clock_config;
        b.transmit_period = v.period;
        b.transmit_timer = v.timer;
        b.transmit_enable = v.enable;
        b.transmit_empty = v.empty;
        b.transmit_full = v.full;
        b.transmit_queue = std::queue<u16>(v.queue);
    } else {
        b.Reset();
        b.SetTransmitClockConfig(v.clock_config);
        b.SetTransmitPeriod(v.period);
        if (v.timer != 0 && v.timer < v.period) {
            b.SetTransmitEnable(1);
            b.Skip(v.timer); // empty queue and less than one period: advances the frame clock only
        }
        for (u16 w : v.queue)
            b.Send(w);
        b.SetTransmitEnable(v.enable);
    }
}
} // namespace verif_adapt
