// C19 — preemption-bounded exhaustive scheduler over the host mailbox/semaphore API and a running DSP.
//
// Two logical threads (host H, DSP D) run the REAL code as coroutines on one OS thread; the scheduler
// owns every scheduling point: pthread_mutex_lock/unlock (interposed below, ownership modelled),
// every access to the interpreter's cross-thread latches (TEAKRA_VERIF_SCHED hook), every host API
// call boundary, every DSP instruction boundary, and a yield in every poll loop.  Exploration is
// a DFS over choice sequences with an iterative preemption bound and state-hash pruning.
// With -DVERIF_FREE_RUNNING the same bodies run on two real threads without the scheduler (TSan pass).
#include <dlfcn.h>
#include <fstream>
#include <pthread.h>
#include <ucontext.h>
#include <atomic>
#include <thread>
#include "../sys/sys.h"

using namespace sys;

// =====================================================================================================
// scheduler core
// =====================================================================================================
namespace sch {

enum { H = 0, D = 1 };
struct ChoicePoint {
    u8 enabled_mask; // bit t: thread t may run
    u8 running;      // thread that reached the point
    u8 chosen;
    u8 forced;       // the running thread could not continue (blocked / yielding / finished)
    int tag;
    u64 state_hash;
};

struct Scheduler {
    bool active = false;
    ucontext_t main_ctx;
    ucontext_t ctx[2];
    std::vector<char> stack[2];
    bool finished[2] = {false, false};
    void* blocked_on[2] = {nullptr, nullptr};
    bool yielding[2] = {false, false}; // waits until the other thread has stepped
    int cur = H;
    std::function<void()> body[2];
    struct Lock {
        int owner = -1;
        int count = 0;
    };
    std::map<void*, Lock> locks;
    std::vector<int> script; // choices to replay (index into the canonical enabled list)
    std::vector<ChoicePoint> points;
    std::vector<int> choices;
    size_t max_points = 6000;
    bool deadlock = false, livelock = false, self_deadlock = false;
    std::string fault;
    std::function<u64()> state_hash;
    int steps[2] = {0, 0};
    int micro[2] = {0, 0}; // scheduling points since the thread's last instruction / API-call boundary (its position inside the call)

    bool Enabled(int t) const {
        if (finished[t])
            return false;
        if (blocked_on[t]) {
            auto it = locks.find(blocked_on[t]);
            if (it != locks.end() && it->second.owner >= 0 && it->second.owner != t)
                return false;
        }
        if (yielding[t])
            return false;
        return true;
    }
    // the running thread reached a scheduling point
    void Point(int tag) {
        if (!active)
            return;
        int me = cur;
        ++steps[me];
        if (tag < 100)
            micro[me] = 0; // instruction boundary (D) or API-call boundary (H)
        else
            ++micro[me];
        yielding[1 - me] = false; // the other thread's wait condition may have changed
        if (points.size() >= max_points) {
            livelock = true;
            Abort();
        }
        bool me_ok = Enabled(me), other_ok = Enabled(1 - me);
        if (!me_ok && !other_ok) {
            if (finished[0] && finished[1])
                Abort(); // normal end of the execution
            bool lock_wait = false;
            for (int t = 0; t < 2; ++t)
                if (!finished[t] && blocked_on[t])
                    lock_wait = true;
            if (lock_wait)
                deadlock = true; // an unfinished thread waits for a lock nobody will release
            else
                livelock = true; // unfinished threads only poll for progress of a thread that cannot make any
            Abort();
        }
        ChoicePoint cp{};
        cp.running = (u8)me;
        cp.tag = tag;
        cp.enabled_mask = (u8)((me_ok ? 1 << me : 0) | (other_ok ? 1 << (1 - me) : 0));
        cp.forced = !me_ok;
        cp.state_hash = (state_hash ? state_hash() : 0) * 1000003ull + (u64)tag * 8191 + micro[0] * 131 + micro[1];
        int n_enabled = (me_ok ? 1 : 0) + (other_ok ? 1 : 0);
        int choice = 0; // canonical order: running thread first if enabled, then the other
        size_t idx = points.size();
        if (idx < script.size()) {
            choice = script[idx];
            if (choice >= n_enabled) {
                fault = Fmt("replay divergence at point %zu: choice %d of %d", idx, choice, n_enabled);
                Abort();
            }
        }
        int next = me_ok ? (choice == 0 ? me : 1 - me) : 1 - me;
        cp.chosen = (u8)next;
        points.push_back(cp);
        choices.push_back(choice);
        if (next != me)
            Switch(next);
    }
    void Switch(int next) {
        int me = cur;
        cur = next;
        swapcontext(&ctx[me], &ctx[next]);
    }
    [[noreturn]] void Abort() {
        active = false;
        setcontext(&main_ctx);
        std::abort();
    }
    void Yield() { // poll loop: do not reschedule me before the other thread has stepped
        if (!active)
            return;
        yielding[cur] = true;
        Point(100);
    }
    void Finish() {
        finished[cur] = true;
        Point(101);
        // never resumed
        Abort();
    }
    // ---- mutex model ----
    static bool IsRecursive(pthread_mutex_t* m) {
        return (m->__data.__kind & 3) == PTHREAD_MUTEX_RECURSIVE_NP;
    }
    int LockModel(pthread_mutex_t* m) {
        Point(200);
        for (;;) {
            Lock& l = locks[m];
            if (l.owner < 0) {
                l.owner = cur, l.count = 1;
                blocked_on[cur] = nullptr;
                return 0;
            }
            if (l.owner == cur) {
                if (IsRecursive(m)) {
                    ++l.count;
                    return 0;
                }
                self_deadlock = true; // relocking a non-recursive mutex: the thread waits for itself
                deadlock = true;
                Abort();
            }
            blocked_on[cur] = m;
            Point(201); // forced switch: I cannot continue
        }
    }
    int UnlockModel(pthread_mutex_t* m) {
        Lock& l = locks[m];
        if (l.owner == cur && --l.count == 0)
            l.owner = -1;
        Point(202);
        return 0;
    }

    static void Trampoline(int t);
    // run one complete execution following `script` then default choices
    void Run(const std::vector<int>& scr) {
        script = scr;
        points.clear();
        choices.clear();
        locks.clear();
        for (int t = 0; t < 2; ++t) {
            finished[t] = false, blocked_on[t] = nullptr, yielding[t] = false, steps[t] = 0, micro[t] = 0;
            if (stack[t].empty())
                stack[t].resize(1 << 20);
            getcontext(&ctx[t]);
            ctx[t].uc_stack.ss_sp = stack[t].data();
            ctx[t].uc_stack.ss_size = stack[t].size();
            ctx[t].uc_link = &main_ctx;
            makecontext(&ctx[t], (void (*)())Trampoline, 1, t);
        }
        deadlock = livelock = self_deadlock = false;
        fault.clear();
        cur = H;
        volatile bool started = false;
        getcontext(&main_ctx);
        if (!started) {
            started = true;
            active = true;
            setcontext(&ctx[H]);
        }
        active = false;
        locks.clear(); // model-held locks of abandoned coroutines were never really taken
    }
};
static Scheduler g_s;
void Scheduler::Trampoline(int t) {
    try {
        g_s.body[t]();
    } catch (const T::VerifAssertion& a) {
        g_s.fault = std::string("assertion ") + a.expression;
        g_s.Abort();
    } catch (const T::UnimplementedException&) {
        g_s.fault = "unimplemented instruction";
        g_s.Abort();
    }
    g_s.Finish();
}
} // namespace sch

// ---- libc interposition: every std::mutex / std::recursive_mutex reaches these -----------------------
#ifndef VERIF_FREE_RUNNING
extern "C" {
static int (*real_lock)(pthread_mutex_t*) = nullptr;
static int (*real_unlock)(pthread_mutex_t*) = nullptr;
static bool resolving = false;
// set while the scheduler itself inspects the machine (state hash): every scheduled thread is suspended then, the locks the getters of a
// peripheral take are neither scheduling points nor real locks
static bool g_observing = false;
static void ResolveReal() {
    if (!real_lock && !resolving) {
        resolving = true;
        real_lock = (int (*)(pthread_mutex_t*))dlsym(RTLD_NEXT, "pthread_mutex_lock");
        real_unlock = (int (*)(pthread_mutex_t*))dlsym(RTLD_NEXT, "pthread_mutex_unlock");
        resolving = false;
    }
}
__attribute__((constructor)) static void ResolveAtStart() {
    ResolveReal();
}
int pthread_mutex_lock(pthread_mutex_t* m) {
    if (g_observing)
        return 0;
    if (sch::g_s.active)
        return sch::g_s.LockModel(m);
    ResolveReal();
    return real_lock ? real_lock(m) : 0;
}
int pthread_mutex_unlock(pthread_mutex_t* m) {
    if (g_observing)
        return 0;
    if (sch::g_s.active)
        return sch::g_s.UnlockModel(m);
    ResolveReal();
    // a mutex taken in model mode was never really locked; unlocking it for real would be an error
    {
        auto it = sch::g_s.locks.find(m);
        if (it != sch::g_s.locks.end() && it->second.owner >= 0)
            return 0;
    }
    return real_unlock ? real_unlock(m) : 0;
}
}
#endif

// =====================================================================================================
// harness bodies
// =====================================================================================================
namespace c19 {
using sch::g_s;

struct Obs { // what the oracle looks at
    std::vector<u16> host_received;   // values the host read from REPLY channels, in order
    std::vector<u16> sent;            // values the host sent, in order
    std::vector<int> send_step;       // global point index at which each send started
    std::vector<int> delivery_step;   // global point index of each DSP handler entry
    std::vector<int> callback_step;   // host callback invocations
    std::atomic<int> sem_callbacks{0};
    u16 last_semaphore_seen = 0;
    bool host_done = false;
    std::string note;
    void Clear() {
        host_received.clear(), sent.clear(), send_step.clear(), delivery_step.clear(), callback_step.clear();
        sem_callbacks = 0, last_semaphore_seen = 0, host_done = false, note.clear();
    }
};
#ifndef VERIF_FREE_RUNNING
#define OBS_ONLY_SCHEDULED(x) x
#else
#define OBS_ONLY_SCHEDULED(x)  // callbacks run on the DSP thread: the harness itself must not race in the TSan pass
#endif

struct Scenario {
    const char* name;
    std::vector<std::pair<u32, std::vector<u16>>> program; // (address, words)
    std::function<void(Machine&)> setup;                  // host-side setup before the threads start
    std::function<void(Machine&, Obs&)> host;             // host thread body
    std::function<std::string(Machine&, const Obs&)> oracle; // "" = ok
    int dsp_horizon;                                      // max DSP instructions
    bool expect_handler_entries;
};

static Machine* g_m = nullptr;
static Obs g_obs;

inline void HostPoint(int tag) {
#ifndef VERIF_FREE_RUNNING
    g_s.Point(tag);
#endif
}
inline void HostYield() {
#ifndef VERIF_FREE_RUNNING
    g_s.Yield();
#else
    std::this_thread::yield();
#endif
}
inline int Now() {
    return (int)g_s.points.size();
}

// DSP programs (hand-assembled).  Common: reset vector br 0x0100.
static const std::vector<u16> kPollEcho = {
    0x5E01, 0x80D6, 0x5E02, 0x80C2, 0x5E03, 0x80C0, // r1=&STATUS r2=&CMD0 r3=&REPLY0
    0x1C01,                                          // L: mov [r1],r0
    0x9800,                                          //    tstb r0,8        (C0: data in CMD0)
    0x57D2,                                          //    brr L, neq
    0x1C02,                                          //    mov [r2],r0      (read CMD0, clears the flag)
    0x1803,                                          //    mov r0,[r3]      (write REPLY0)
    0x57A0,                                          //    brr L
};
static std::vector<u16> IrqMain(bool write_disable_first, u16 mod3 = 0x0180) {
    std::vector<u16> w;
    if (write_disable_first) { // S5: the DSP programs the interrupt-disable register (to "enabled") while the host may be sending
        w.insert(w.end(), {0x5E01, 0x80D4, 0x5E00, 0x0000, 0x1801}); // r1=&APBP_CFG ; r0=0 ; mov r0,[r1]
    }
    w.insert(w.end(), {0x5E02, 0x80C2, 0x5E03, 0x80C0, 0x5E05, 0x8202, 0x5E04, 0x4000, 0x5E0D, 0x0800, 0x0037, mod3, 0x57F0});
    return w;
}
static const std::vector<u16> kIrqHandlerEcho = {0x1C02, 0x1885, 0x1803, 0x45C0};            // read CMD0 ; ack ICU ; write REPLY0 ; reti
static const std::vector<u16> kSemMain = {0x5E01, 0x80D2, 0x5E02, 0x80D0, 0x5E03, 0x80CC, 0x5E05, 0x8202, 0x5E04, 0x4000,
                                          0x5E0D, 0x0800, 0x0037, 0x0180, 0x57F0};
static const std::vector<u16> kSemHandler42 = {0x1C01, 0x1802, 0x1885, 0x5E00, 0x0004, 0x1803, 0x5E00, 0x0002, 0x1803, 0x45C0}; // as below, SET_SEM=4 then SET_SEM=2
static const std::vector<u16> kSemHandler = {0x1C01, 0x1802, 0x1885, 0x5E00, 0x0002, 0x1803, 0x45C0}; // r0=GET_SEM ; ACK=r0 ; ack ICU ; r0=2 ; SET_SEM=r0 ; reti

inline void HostSend(Machine& m, Obs& o, u8 ch, u16 v) {
    HostPoint(10);
    o.sent.push_back(v);
    o.send_step.push_back(Now());
    m.teakra->SendData(ch, v);
}
inline bool HostWaitReply(Machine& m, u8 ch, int max_polls = 400) {
    for (int i = 0; i < max_polls; ++i) {
        HostPoint(11);
        if (m.teakra->RecvDataIsReady(ch))
            return true;
        HostYield();
    }
    return false;
}
inline u16 HostRecv(Machine& m, Obs& o, u8 ch) {
    HostPoint(12);
    u16 v = m.teakra->RecvData(ch);
    o.host_received.push_back(v);
    return v;
}

inline std::string InOrderOracle(const Obs& o) {
    // every value received is one that was sent, values are seen in send order, the last value sent is observed
    size_t k = 0;
    for (u16 v : o.host_received) {
        while (k < o.sent.size() && o.sent[k] != v)
            ++k;
        if (k == o.sent.size())
            return Fmt("host received %04X which was not sent at that point (or out of order)", v);
    }
    if (!o.sent.empty() && (o.host_received.empty() || o.host_received.back() != o.sent.back()))
        return Fmt("the last value sent (%04X) was never observed by the receiver", o.sent.back());
    if (!o.host_done)
        return "the host thread did not complete (no reply within its polling horizon)";
    return "";
}

inline std::vector<Scenario> Scenarios() {
    std::vector<Scenario> v;
    auto route_irq14_to_int0 = [](Machine& m) { m.teakra->MMIOWrite(0x206, 0x4000); };
    // S1: polling echo, two strictly alternating exchanges
    v.push_back({"S1-poll-echo", {{0x0000, {0x4180, 0x0100}}, {0x0100, kPollEcho}}, [](Machine&) {},
                 [](Machine& m, Obs& o) {
                     for (u16 val : {(u16)0x1111, (u16)0x2222}) {
                         HostSend(m, o, 0, val);
                         if (!HostWaitReply(m, 0))
                             return;
                         HostRecv(m, o, 0);
                     }
                     o.host_done = true;
                 },
                 [](Machine&, const Obs& o) { return InOrderOracle(o); }, 120, false});
    // S1b: overwrite - two sends back to back, the echo of the last one must eventually arrive
    v.push_back({"S1b-poll-overwrite", {{0x0000, {0x4180, 0x0100}}, {0x0100, kPollEcho}}, [](Machine&) {},
                 [](Machine& m, Obs& o) {
                     HostSend(m, o, 0, 0x1111);
                     HostSend(m, o, 0, 0x2222);
                     for (int i = 0; i < 3; ++i) {
                         if (!HostWaitReply(m, 0, 150))
                             break;
                         if (HostRecv(m, o, 0) == 0x2222) {
                             o.host_done = true;
                             break;
                         }
                     }
                 },
                 [](Machine&, const Obs& o) { return InOrderOracle(o); }, 160, false});
    // S2: interrupt-driven receive on the DSP, DSP idles
    v.push_back({"S2-irq-echo", {{0x0000, {0x4180, 0x0100}}, {0x0006, kIrqHandlerEcho}, {0x0100, IrqMain(false)}}, route_irq14_to_int0,
                 [](Machine& m, Obs& o) {
                     // let the DSP reach its idle loop first in the default schedule; other schedules start the send earlier
                     for (u16 val : {(u16)0x0AAA, (u16)0x0BBB}) {
                         HostSend(m, o, 0, val);
                         if (!HostWaitReply(m, 0))
                             return;
                         HostRecv(m, o, 0);
                     }
                     o.host_done = true;
                 },
                 [](Machine&, const Obs& o) {
                     std::string e = InOrderOracle(o);
                     if (!e.empty())
                         return e;
                     // every send (interrupts enabled) is followed by at least one delivery that starts after the send started
                     for (size_t i = 0; i < o.send_step.size(); ++i) {
                         bool ok = false;
                         for (int d : o.delivery_step)
                             ok |= d >= o.send_step[i];
                         if (!ok)
                             return Fmt("send #%zu was not followed by any interrupt delivery on the DSP", i);
                     }
                     return std::string();
                 },
                 140, true});
    // S3: semaphores in both directions
    v.push_back({"S3-semaphores", {{0x0000, {0x4180, 0x0100}}, {0x0006, kSemHandler}, {0x0100, kSemMain}}, route_irq14_to_int0,
                 [](Machine& m, Obs& o) {
                     HostPoint(20);
                     o.send_step.push_back(Now());
                     m.teakra->SetSemaphore(0x0001);
                     for (int i = 0; i < 300; ++i) {
                         HostPoint(21);
                         u16 s = m.teakra->GetSemaphore();
                         if (s & 2) {
                             o.last_semaphore_seen = s;
                             HostPoint(22);
                             m.teakra->MaskSemaphore(0x0000);
                             HostPoint(23);
                             m.teakra->ClearSemaphore(0x0002);
                             o.host_done = true;
                             break;
                         }
                         HostYield();
                     }
                 },
                 [](Machine& m, const Obs& o) {
                     if (!o.host_done)
                         return std::string("the DSP's semaphore reply was never observed by the host");
                     if (o.sem_callbacks < 1)
                         return std::string("the host semaphore callback never fired although the DSP raised an unmasked bit");
                     if (m.teakra->GetSemaphore() & 2)
                         return std::string("ClearSemaphore did not clear the acknowledged bit");
                     if (m.impl->apbp_from_cpu.GetSemaphore() & 1)
                         return std::string("the DSP acknowledged bit 0 but it is still set");
                     return std::string();
                 },
                 140, true});
    // S4: host callbacks re-enter the mailbox API while the host thread issues the same calls
    v.push_back({"S4-reentrant-callbacks", {{0x0000, {0x4180, 0x0100}}, {0x0006, kSemHandler}, {0x0100, kSemMain}},
                 [route_irq14_to_int0](Machine& m) {
                     route_irq14_to_int0(m);
                     m.teakra->SetSemaphoreHandler([&m]() {
                         ++g_obs.sem_callbacks;
                         OBS_ONLY_SCHEDULED(g_obs.callback_step.push_back(Now());)
                         u16 s = m.teakra->GetSemaphore(); // re-enters the semaphore lock
                         m.teakra->ClearSemaphore(s & 2);
                         m.teakra->MaskSemaphore(0);
                     });
                     m.teakra->SetRecvDataHandler(0, [&m]() {
                         OBS_ONLY_SCHEDULED(g_obs.callback_step.push_back(Now());)
                         u16 v = m.teakra->RecvData(0);
                         (void)v;
                         OBS_ONLY_SCHEDULED(g_obs.host_received.push_back(v);)
                     });
                 },
                 [](Machine& m, Obs& o) {
                     HostPoint(30);
                     o.send_step.push_back(Now());
                     m.teakra->SetSemaphore(0x0001);
                     for (int i = 0; i < 300 && g_obs.sem_callbacks == 0; ++i) {
                         HostPoint(31);
                         (void)m.teakra->GetSemaphore();
                         HostPoint(32);
                         m.teakra->MaskSemaphore(0);
                         HostYield();
                     }
                     o.host_done = g_obs.sem_callbacks > 0;
                 },
                 [](Machine&, const Obs& o) {
                     if (!o.host_done)
                         return std::string("the re-entrant semaphore callback never completed");
                     return std::string();
                 },
                 140, true});
    // S5: as S2, the DSP writes the interrupt-disable register at start
    v.push_back({"S5-irq-echo-cfg-write", {{0x0000, {0x4180, 0x0100}}, {0x0006, kIrqHandlerEcho}, {0x0100, IrqMain(true)}}, route_irq14_to_int0,
                 [](Machine& m, Obs& o) {
                     HostSend(m, o, 0, 0x0CCC);
                     if (!HostWaitReply(m, 0))
                         return;
                     HostRecv(m, o, 0);
                     o.host_done = true;
                 },
                 [](Machine&, const Obs& o) { return InOrderOracle(o); }, 140, true});
    // S6: the host runs ahead of the interrupt handler: it sends again as soon as the mailbox has been emptied, i.e. possibly while the
    // DSP is still inside the handler of the previous send (between reading the mailbox and acknowledging the interrupt controller)
    v.push_back({"S6-irq-send-while-handling", {{0x0000, {0x4180, 0x0100}}, {0x0006, kIrqHandlerEcho}, {0x0100, IrqMain(false)}}, route_irq14_to_int0,
                 [](Machine& m, Obs& o) {
                     HostSend(m, o, 0, 0x0DDD);
                     bool empty = false;
                     for (int i = 0; i < 400 && !empty; ++i) {
                         HostPoint(13);
                         empty = m.teakra->SendDataIsEmpty(0);
                         if (!empty)
                             HostYield();
                     }
                     if (!empty)
                         return;
                     HostSend(m, o, 0, 0x0EEE);
                     for (int i = 0; i < 3; ++i) {
                         if (!HostWaitReply(m, 0))
                             return;
                         if (HostRecv(m, o, 0) == 0x0EEE) {
                             o.host_done = true;
                             break;
                         }
                     }
                 },
                 [](Machine&, const Obs& o) {
                     std::string e = InOrderOracle(o);
                     if (!e.empty())
                         return e;
                     for (size_t i = 0; i < o.send_step.size(); ++i) {
                         bool ok = false;
                         for (int d : o.delivery_step)
                             ok |= d >= o.send_step[i];
                         if (!ok)
                             return Fmt("send #%zu was not followed by any interrupt delivery on the DSP", i);
                     }
                     return std::string();
                 },
                 160, true});
    // S8 / S9: the mailbox interrupt routed to the other core lines (int1, int2) - same echo protocol, other enable register and vector
    for (int line = 1; line <= 2; ++line)
        v.push_back({line == 1 ? "S8-irq-echo-int1" : "S9-irq-echo-int2",
                     {{0x0000, {0x4180, 0x0100}}, {(u32)(0x0006 + 8 * line), kIrqHandlerEcho}, {0x0100, IrqMain(false, (u16)(0x0080 | (0x0100 << line)))}},
                     [line](Machine& m) { m.teakra->MMIOWrite((u16)(0x206 + 2 * line), 0x4000); },
                     [](Machine& m, Obs& o) {
                         for (u16 val : {(u16)0x0A11, (u16)0x0B22}) {
                             HostSend(m, o, 0, val);
                             if (!HostWaitReply(m, 0))
                                 return;
                             HostRecv(m, o, 0);
                         }
                         o.host_done = true;
                     },
                     [](Machine&, const Obs& o) { return InOrderOracle(o); }, 140, true});
    // S10: the mailbox interrupt on the vectored line while another, masked, fixed line holds a latched request: the vectored
    // request is still delivered (a masked request never blocks another line)
    v.push_back({"S10-irq-echo-vectored-with-masked-int1",
                 {{0x0000, {0x4180, 0x0100}}, {0x0200, kIrqHandlerEcho}, {0x0100, IrqMain(false, 0x0880)}},
                 [](Machine& m) {
                     m.teakra->MMIOWrite(0x20C, 0x4000);                                              // IRQ 14 -> vectored
                     m.teakra->MMIOWrite(0x212 + 14 * 4, 0x0000), m.teakra->MMIOWrite(0x214 + 14 * 4, 0x0200); // its vector
                     m.teakra->MMIOWrite(0x208, 0x0008);                                              // IRQ 3 -> int1 (masked in mod3)
                     m.teakra->MMIOWrite(0x204, 0x0008);                                              // ... and requested
                 },
                 [](Machine& m, Obs& o) {
                     for (u16 val : {(u16)0x0C33, (u16)0x0D44}) {
                         HostSend(m, o, 0, val);
                         if (!HostWaitReply(m, 0))
                             return;
                         HostRecv(m, o, 0);
                     }
                     o.host_done = true;
                 },
                 [](Machine&, const Obs& o) { return InOrderOracle(o); }, 140, true});
    // S11: the mailbox interrupt routed to the vectored line ONLY (no fixed line has anything routed): the send is still delivered
    v.push_back({"S11-irq-echo-vectored-only",
                 {{0x0000, {0x4180, 0x0100}}, {0x0208, kIrqHandlerEcho}, {0x0100, IrqMain(false, 0x0880)}},
                 [](Machine& m) {
                     m.teakra->MMIOWrite(0x20C, 0x4000);                                                        // IRQ 14 -> vectored, nothing else routed
                     m.teakra->MMIOWrite(0x212 + 14 * 4, 0x0000), m.teakra->MMIOWrite(0x214 + 14 * 4, 0x0208); // its vector
                 },
                 [](Machine& m, Obs& o) {
                     for (u16 val : {(u16)0x0E55, (u16)0x0F66}) {
                         HostSend(m, o, 0, val);
                         if (!HostWaitReply(m, 0))
                             return;
                         HostRecv(m, o, 0);
                     }
                     o.host_done = true;
                 },
                 [](Machine&, const Obs& o) { return InOrderOracle(o); }, 140, true});
    // S7: a semaphore bit raised while the host masks it, another one raised and acknowledged, then the mask lifted: the still-set bit
    // must now be signalled (host callback) - the signal is a function of (semaphore AND NOT mask) at every moment
    v.push_back({"S7-semaphore-unmask-after-clear", {{0x0000, {0x4180, 0x0100}}, {0x0006, kSemHandler42}, {0x0100, kSemMain}}, route_irq14_to_int0,
                 [](Machine& m, Obs& o) {
                     HostPoint(40);
                     m.teakra->MaskSemaphore(0x0004);
                     HostPoint(41);
                     o.send_step.push_back(Now());
                     m.teakra->SetSemaphore(0x0001);
                     for (int i = 0; i < 300; ++i) {
                         HostPoint(42);
                         u16 s = m.teakra->GetSemaphore();
                         if ((s & 6) == 6) {
                             HostPoint(43);
                             m.teakra->ClearSemaphore(0x0002);
                             int before = g_obs.sem_callbacks;
                             HostPoint(44);
                             m.teakra->MaskSemaphore(0x0000);
                             o.last_semaphore_seen = (u16)(g_obs.sem_callbacks - before);
                             o.host_done = true;
                             break;
                         }
                         HostYield();
                     }
                 },
                 [](Machine& m, const Obs& o) {
                     if (!o.host_done)
                         return std::string("the DSP's two semaphore bits were never observed by the host");
                     if (o.last_semaphore_seen < 1)
                         return std::string("lifting the mask from a semaphore bit that is still set did not signal the host");
                     if ((m.teakra->GetSemaphore() & 6) != 4)
                         return std::string("after acknowledging bit 1 the semaphore does not read bit 2 only");
                     return std::string();
                 },
                 160, true});
    return v;
}

struct Harness {
    std::unique_ptr<Machine> m;
    std::vector<Scenario> scen;
    Harness() {
        m = std::make_unique<Machine>();
        scen = Scenarios();
        g_m = m.get();
    }
    void Prepare(const Scenario& sc) {
        m->teakra->Reset();
        // reinstall default callbacks (a scenario may have replaced them)
        for (int i = 0; i < 3; ++i)
            m->teakra->SetRecvDataHandler(i, []() { OBS_ONLY_SCHEDULED(g_obs.callback_step.push_back(Now());) });
        m->teakra->SetSemaphoreHandler([]() {
            ++g_obs.sem_callbacks;
            OBS_ONLY_SCHEDULED(g_obs.callback_step.push_back(Now());)
        });
        for (auto& seg : sc.program)
            for (size_t i = 0; i < seg.second.size(); ++i)
                m->SetProg(seg.first + (u32)i, seg.second[i]);
        g_obs.Clear();
        sc.setup(*m);
    }
    u64 StateHash(int host_progress_hint) {
#ifndef VERIF_FREE_RUNNING
        struct Observing {
            Observing() { g_observing = true; }
            ~Observing() { g_observing = false; }
        } observing;
#endif
        Bytes b;
        PutRegsVisible(b, m->regs());
        CoreSnap c = m->SaveCore();
        b.Put(c);
        ApbpSnap a0 = Machine::SaveApbp(m->apbp(0)), a1 = Machine::SaveApbp(m->apbp(1));
        b.Put(a0), b.Put(a1);
        IcuSnap is = m->SaveIcu();
        b.Put(is.request), b.Put(is.enabled), b.Put(is.venabled);
        b.Put(m->DataWord(0x07FE)), b.Put(m->DataWord(0x07FF));
        u64 h = b.Hash();
        h = Fnv(g_obs.host_received.data(), g_obs.host_received.size() * 2, h);
        h = h * 31 + g_obs.sent.size() * 7 + g_obs.sem_callbacks * 3 + g_obs.host_done + g_obs.delivery_step.size() * 1000003ull;
        for (auto& l : g_s.locks)
            h = h * 131 + (u64)(l.second.owner + 2) * (l.second.count + 1);
        return h;
    }
};
} // namespace c19

#ifndef VERIF_FREE_RUNNING
// =====================================================================================================
// exploration
// =====================================================================================================
namespace c19 {

struct Exec {
    std::vector<sch::ChoicePoint> points;
    std::vector<int> choices;
    bool deadlock, livelock, self_deadlock;
    std::string fault, verdict;
    u64 outcome_digest;
};

struct Explorer {
    Harness& h;
    const Scenario& sc;
    Result& res;
    int bound;
    u64 executions = 0, pruned = 0;
    std::unordered_map<u64, int> visited; // (state hash, running thread) -> largest remaining budget already expanded from it
    std::unordered_set<u64> outcomes;
    bool stop = false;
    Clock clock;
    double deadline;

    Exec RunOnce(const std::vector<int>& script) {
        h.Prepare(sc);
        Machine& m = *h.m;
        int host_stage = 0;
        g_s.state_hash = [this]() { return h.StateHash(0); };
        T::verif_sched_hook = [](int tag) { g_s.Point(300 + tag); };
        g_s.body[sch::H] = [&]() { sc.host(m, g_obs); };
        g_s.body[sch::D] = [&]() {
            std::unordered_set<u64> seen_since_host_step;
            int host_steps_seen = 0;
            for (int i = 0; i < sc.dsp_horizon; ++i) {
                g_s.Point(1); // instruction boundary
                if (m.regs().pc == 0x0006)
                    g_obs.delivery_step.push_back(Now());
                m.teakra->Run(1);
                // a DSP that revisits a state without the host having stepped is spinning: it yields
                if (g_s.steps[sch::H] != host_steps_seen) {
                    host_steps_seen = g_s.steps[sch::H];
                    seen_since_host_step.clear();
                }
                u64 dh = h.StateHash(0);
                if (!seen_since_host_step.insert(dh).second) {
                    if (g_s.finished[sch::H])
                        break; // quiescent: the host is done and the DSP only spins
                    g_s.Yield();
                    seen_since_host_step.clear();
                }
            }
        };
        (void)host_stage;
        g_s.Run(script);
        T::verif_sched_hook = nullptr;
        Exec x;
        x.points = g_s.points;
        x.choices = g_s.choices;
        x.deadlock = g_s.deadlock, x.livelock = g_s.livelock, x.self_deadlock = g_s.self_deadlock;
        x.fault = g_s.fault;
        if (!x.fault.empty())
            x.verdict = x.fault;
        else if (x.deadlock)
            x.verdict = x.self_deadlock ? "deadlock: a thread re-locks a non-recursive mutex it already holds (re-entrant callback)" : "deadlock: no thread can run";
        else if (x.livelock)
            x.verdict = "no progress within the horizon (both sides only wait)";
        else
            x.verdict = sc.oracle(m, g_obs);
        Bytes b;
        for (u16 v : g_obs.host_received)
            b.Put(v);
        b.Put((u32)g_obs.delivery_step.size()), b.Put((u32)g_obs.sem_callbacks), b.Put((u8)g_obs.host_done);
        x.outcome_digest = b.Hash() ^ Fnv(x.verdict.data(), x.verdict.size());
        ++executions;
        ++res.evaluations;
        res.transitions += x.points.size();
        ++res.traces_validated;
        return x;
    }
    static std::string Ser(const char* name, const std::vector<int>& choices) {
        // run-length encoding of the choice list: positions of the non-default choices
        std::string s = std::string("c19 ") + name + " " + std::to_string(choices.size()) + " :";
        for (size_t i = 0; i < choices.size(); ++i)
            if (choices[i])
                s += Fmt(" %zu", i);
        return s;
    }
    void Check(const Exec& x) {
        outcomes.insert(x.outcome_digest);
        if (x.verdict.empty())
            return;
        int preempt = 0;
        for (size_t i = 0; i < x.points.size(); ++i)
            if (x.choices[i] && !x.points[i].forced)
                ++preempt;
        std::string cls = x.deadlock ? (x.self_deadlock ? "self-deadlock" : "deadlock") : x.livelock ? "no-progress" : !x.fault.empty() ? "fault" : "oracle";
        res.AddViolation(Fmt("c19:%s:%s", sc.name, cls.c_str()),
                         Fmt("scenario %s, schedule with %d preemption(s) over %zu scheduling points: %s", sc.name, preempt, x.points.size(), x.verdict.c_str()),
                         Ser(sc.name, x.choices));
    }
    void Explore(const std::vector<int>& prefix) {
        if (stop)
            return;
        if (clock.Sec() > deadline) {
            stop = true;
            return;
        }
        Exec x = RunOnce(prefix);
        Check(x);
        int used = 0;
        std::vector<int> pre_before(x.points.size() + 1, 0);
        for (size_t i = 0; i < x.points.size(); ++i) {
            pre_before[i] = used;
            if (x.choices[i] && !x.points[i].forced)
                ++used;
        }
        for (size_t i = prefix.size(); i < x.points.size(); ++i) {
            const auto& p = x.points[i];
            int n_enabled = __builtin_popcount(p.enabled_mask);
            if (n_enabled < 2 || p.forced)
                continue; // nothing to choose / forced hand-off explores its only alternative by default
            int cost = pre_before[i] + 1;
            if (cost > bound)
                continue;
            int left = bound - cost;
            u64 key = p.state_hash * 1000003ull + p.running * 7 + 1;
            auto it = visited.find(key);
            if (it != visited.end() && it->second >= left) {
                ++pruned;
                continue;
            }
            visited[key] = left;
            std::vector<int> next(x.choices.begin(), x.choices.begin() + i);
            next.push_back(1);
            Explore(next);
            if (stop)
                return;
        }
    }
};

inline int Replay(const std::string& r, Result& res) {
    QuietStdout quiet;
    char name[64];
    size_t n;
    int used = 0;
    if (std::sscanf(r.c_str(), "c19 %63s %zu :%n", name, &n, &used) != 2)
        return 2;
    std::vector<int> script(n, 0);
    const char* p = r.c_str() + used;
    size_t pos;
    int u2;
    while (std::sscanf(p, " %zu%n", &pos, &u2) == 1) {
        if (pos < n)
            script[pos] = 1;
        p += u2;
    }
    Harness h;
    for (auto& sc : h.scen)
        if (!std::strcmp(sc.name, name)) {
            Explorer ex{h, sc, res, 99};
            Exec a = ex.RunOnce(script), b = ex.RunOnce(script);
            if (a.outcome_digest != b.outcome_digest || a.choices != b.choices) {
                quiet.Say("replay is not deterministic\n");
                return 2;
            }
            quiet.Say(Fmt("replay %s: %zu points, verdict: %s\n", name, a.points.size(), a.verdict.empty() ? "ok" : a.verdict.c_str()));
            return a.verdict.empty() ? 0 : 1;
        }
    return 2;
}

inline void Run(const verif::Args& args, Result& res) {
    res.property = "C19";
    bool th = args.thorough();
    int bound = th ? 10 : 4;
    if (args.opt.count("bound"))
        bound = std::atoi(args.opt.at("bound").c_str());
    size_t nscen = Scenarios().size();
    double deadline = args.deadline_s > 0 ? args.deadline_s : (th ? 2400 : 200);
    std::vector<std::string> per;
    RunPool((int)nscen,
            [&](int idx, int, WorkerBlock& blk, Result& local) {
                QuietStdout quiet;
                Harness h;
                const Scenario& sc = h.scen[idx];
                u64 total_exec = 0, total_pruned = 0;
                std::unordered_set<u64> outcomes;
                int completed = -1;
                Clock clk;
                // iterative bounding: everything with 0 preemptions, then 1, then 2 ...
                for (int b = 0; b <= bound; ++b) {
                    Explorer ex{h, sc, local, b};
                    ex.deadline = deadline - clk.Sec();
                    ex.Explore({});
                    total_exec += ex.executions, total_pruned += ex.pruned;
                    outcomes.insert(ex.outcomes.begin(), ex.outcomes.end());
                    if (ex.stop)
                        break;
                    completed = b;
                    if (!local.violations.empty())
                        break; // the first counterexample has the fewest preemptions
                }
                // determinism guard on the default schedule
                {
                    Explorer ex{h, sc, local, 0};
                    ex.deadline = 1e9;
                    Exec a = ex.RunOnce({}), b2 = ex.RunOnce({});
                    if (a.outcome_digest != b2.outcome_digest || a.choices != b2.choices)
                        local.AddViolation(Fmt("c19:%s:harness-nondeterminism", sc.name), "the default schedule does not replay identically", "c19 " + std::string(sc.name) + " 0 :");
                }
                blk.evaluations = local.evaluations;
                blk.transitions = local.transitions;
                blk.traces = local.traces_validated;
                blk.states = total_exec;
                blk.distinct = outcomes.size();
                blk.counters[0] = completed + 1;
                blk.counters[1] = total_pruned;
                blk.capped = completed < bound && local.violations.empty();
            },
            res);
    res.rule = "twelve two-thread harnesses (host thread issuing SendData/RecvData/ready polls/Set/Get/Clear/MaskSemaphore, with and without re-entrant "
               "callbacks; DSP thread executing a real polling or interrupt-driven echo / semaphore program, one Run(1) per step) are run on the real code under a "
               "deterministic scheduler that owns every pthread_mutex_lock/unlock (ownership modelled, recursive mutexes recognised), every access to the "
               "interpreter's interrupt latches, every API-call and instruction boundary and a yield in every poll loop; every schedule with at most the stated "
               "number of preemptions is executed (DFS, iterative bound, pruned on a hash of machine + harness + lock state); per schedule: no deadlock / no "
               "self-deadlock / progress, received values in send order, last value observed, a delivery after every send, callbacks complete; states = schedules "
               "executed, distinct = distinct observed outcomes";
    res.bound = Fmt("preemption bound %d (iterative 0..%d); DSP horizon 120-160 instructions; host poll horizon 150-400", bound, bound);
    res.assumptions = {"sequential consistency of the explored interleavings (the code uses seq_cst atomics); unsynchronised accesses are the separate TSan pass's business",
                       "scheduling points: mutex operations, latch accesses (hook 3), API-call and instruction boundaries"};
    res.AddSample("S1b: host SendData(0,1111); SendData(0,2222) | DSP: poll C0; read CMD0; write REPLY0 - preempting the DSP between the two halves of a receive");
    res.AddSample("S4: DSP writes SET_SEMAPHORE -> host semaphore callback (on the DSP thread) calls GetSemaphore/ClearSemaphore while the host thread calls MaskSemaphore");
}
} // namespace c19

// ---- race pass: the same bodies free-running on two real threads under ThreadSanitizer --------------------
namespace c19 {
inline std::string ExeDir() {
    char buf[4096];
    ssize_t n = readlink("/proc/self/exe", buf, sizeof(buf) - 1);
    buf[n > 0 ? n : 0] = 0;
    std::string s(buf);
    return s.substr(0, s.rfind('/'));
}
// returns the list of distinct race summaries ("function-a <-> location")
inline std::vector<std::pair<std::string, std::string>> RacePass(int iterations, u64 seed, std::string& note) {
    std::vector<std::pair<std::string, std::string>> races;
    std::string bin = ExeDir() + "/../tsan/sched_tsan";
    if (access(bin.c_str(), X_OK) != 0) {
        note = "ThreadSanitizer binary missing: " + bin;
        return races;
    }
    char tmpl[] = "/tmp/verif_tsan_XXXXXX";
    int fd = mkstemp(tmpl);
    close(fd);
    // a real deadlock in the free-running bodies must not hang the check: bounded by `timeout`
    std::string cmd = Fmt("TSAN_OPTIONS='halt_on_error=0 exitcode=0 report_thread_leaks=0 second_deadlock_stack=1' timeout -s KILL 180 %s %d %llu 2>%s >/dev/null", bin.c_str(),
                          iterations, (unsigned long long)seed, tmpl);
    int rc = std::system(cmd.c_str());
    if (WIFEXITED(rc) && WEXITSTATUS(rc) == 137)
        races.push_back({"free-running-hang", "the free-running two-thread pass did not finish within 180 s (real deadlock or lost wake-up)"});
    std::ifstream f(tmpl);
    std::string line, block;
    std::set<std::string> seen;
    while (std::getline(f, line)) {
        if (line.find("SUMMARY: ThreadSanitizer:") != std::string::npos) {
            // e.g. SUMMARY: ThreadSanitizer: data race /repo/src/apbp.cpp:45:27 in Teakra::DataChannel::SetDisableInterrupt(unsigned short)
            std::string what = line.substr(line.find("ThreadSanitizer:") + 17);
            std::string fn = what;
            size_t in = what.find(" in ");
            if (in != std::string::npos)
                fn = what.substr(in + 4);
            size_t par = fn.find('(');
            if (par != std::string::npos)
                fn = fn.substr(0, par);
            std::string kind = what.substr(0, what.find(' ', what.find(' ') + 1));
            if (seen.insert(kind + "|" + fn).second)
                races.push_back({kind + ":" + fn, what});
        }
    }
    unlink(tmpl);
    note = Fmt("free-running pass: %d iterations, exit %d, %zu distinct reports", iterations, rc, races.size());
    return races;
}
} // namespace c19

int main(int argc, char** argv) {
    verif::Args args = verif::Args::Parse(argc, argv);
    const bool shard_replay = verif::ParseShardReplay(args);
    verif::Result res;
    res.tier = args.tier;
    res.seed = args.seed;
    if (args.replay.rfind("c19 tsan", 0) == 0) {
        std::string note;
        auto races = c19::RacePass(200, 1, note);
        std::string want = args.replay.substr(9);
        for (auto& r : races)
            if (r.first == want) {
                std::printf("  %s\n", r.second.c_str());
                return 1;
            }
        std::printf("  %s; '%s' not reported\n", note.c_str(), want.c_str());
        return 0;
    }
    if (!args.replay.empty())
        return c19::Replay(args.replay, res);
    if (args.sub != "c19") {
        std::fprintf(stderr, "usage: sched c19\n");
        return 2;
    }
    c19::Run(args, res);
    if (!shard_replay) {
        std::string note;
        auto races = c19::RacePass(args.thorough() ? 600 : 200, args.seed + 1, note);
        for (auto& r : races)
            res.AddViolation("c19:" + r.first, "ThreadSanitizer (free-running pass of the same harness bodies): " + r.second, "c19 tsan " + r.first);
        res.ExtraStr("race_pass", note);
        if (note.find("missing") != std::string::npos)
            res.exhaustive = false;
    }
    return verif::Finish(args, res, shard_replay);
}
#else
// =====================================================================================================
// free-running pass under ThreadSanitizer: the same bodies on two real threads
// =====================================================================================================
int main(int argc, char** argv) {
    int iterations = argc > 1 ? std::atoi(argv[1]) : 200;
    unsigned seed = argc > 2 ? (unsigned)std::atoi(argv[2]) : 1;
    using namespace c19;
    int dupfd = dup(1);
    int nul = open("/dev/null", O_WRONLY);
    dup2(nul, 1);
    Harness h;
    int bad = 0;
    for (int it = 0; it < iterations; ++it)
        for (auto& sc : h.scen) {
            h.Prepare(sc);
            Machine& m = *h.m;
            std::atomic<bool> stop{false};
            unsigned spin = (seed * 2654435761u + it * 40503u) % 4000;
            std::thread dsp([&]() {
                for (volatile unsigned i = 0; i < spin; ++i) {
                }
                for (int i = 0; i < 4000 && !stop; ++i)
                    m.teakra->Run(7);
            });
            sc.host(m, g_obs);
            stop = true;
            dsp.join();
            if (!g_obs.host_done)
                ++bad;
        }
    dup2(dupfd, 1);
    std::printf("free-running iterations=%d scenarios=%zu host-incomplete=%d\n", iterations, h.scen.size(), bad);
    return 0;
}
#endif
