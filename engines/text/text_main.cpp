// Engine binary for the text-level checks: C05 (assembly text <-> machine code, C binding, firmware) and
// C02 (one decode per opcode; consumers agree on form and length; unused bits).  Links the real
// disassembler, parser, C binding and makedsp1; executes through libimpl.so (engines/isa glue).
#include <cstdio>
#include <fstream>
#include <sstream>
#include "../isa/isa_spec.h"
#include "parser.h"
#include "teakra/disassembler.h"
#include "teakra/disassembler_c.h"


namespace txt {
using namespace isa;
namespace D = Teakra::Disassembler;

struct Ctx {
    Lib impl;
    std::unique_ptr<Teakra::Parser> parser;
    std::vector<Field> fields;
    std::vector<VState> states; // small state set for execution equality
    Ctx() {
        impl = LoadLib("libimpl.so");
        parser = Teakra::GenerateParser();
        fields = AllFields();
        auto bases = BaseStates(impl, fields);
        for (size_t b : {(size_t)0, (size_t)1, (size_t)2, (size_t)3, (size_t)7})
            states.push_back(bases[b].second);
        impl.api->fill_memory(impl.m, 0);
    }
    // digest of executing (op, exp) on the state set
    u64 ExecDigest(u16 op, u16 exp, int cycles = 1) {
        u64 h = 0;
        for (auto& s : states) {
            u16 words[3] = {op, exp, 0};
            VState out;
            RunResult rr;
            impl.api->run(impl.m, &s, words, 3, cycles, &out, &rr);
            h = Fnv(&out, sizeof(out), h ^ rr.write_digest ^ (u64)rr.outcome);
        }
        return h;
    }
};

inline bool Renderable(const std::vector<std::string>& toks) {
    for (auto& t : toks)
        if (t.find("[ERROR]") != std::string::npos)
            return false;
    return true;
}
inline std::string Join(const std::vector<std::string>& t, const char* sep = " ") {
    std::string s;
    for (size_t i = 0; i < t.size(); ++i)
        s += (i ? sep : "") + t[i];
    return s;
}
static const std::vector<u16> kSecond = {0x0000, 0xFFFF, 0x8000, 0x7FFF, 0x0001, 0x00FF, 0xFF00, 0x5555, 0xAAAA, 0x6420, 0xCC20, 0x1002};

// ======================================= C05 ==========================================================
struct C05 {
    Ctx& c;
    Result& res;
    std::unordered_set<u64> digests;
    C05(Ctx& cx, Result& r) : c(cx), res(r) {}
    void Fail(const std::string& key, const std::string& text, const std::string& rp) {
        res.AddViolation("c05:" + key, text, rp);
    }
    void Opcode(u16 o, bool all_second) {
        auto toks = D::GetTokenList(o, 0);
        ++res.evaluations;
        if (!Renderable(toks))
            return;
        ++res.states;
        DecodeInfo di;
        c.impl.api->decode(o, &di);
        std::string rp = Fmt("c05 op %u", o);
        bool need = D::NeedExpansion(o);
        {
            // the text of a word depends on (word, second word, settings) only: an annotated call in between changes nothing
            D::ArArpSettings set{};
            set.ar = {0x1234, 0xFEDC};
            set.arp = {0x0421, 0x8C63, 0x5A5A, 0xFFFF};
            (void)D::Do(o, 0, set);
            auto again = D::GetTokenList(o, 0);
            ++res.transitions, ++res.traces_validated;
            if (again != toks) {
                Fail(Fmt("text-depends-on-history:%s", di.name), Fmt("opcode %04X prints '%s', and '%s' after an annotated call for the same word", o, Join(toks).c_str(), Join(again).c_str()), rp);
                return;
            }
        }
        auto p = c.parser->Parse(toks);
        ++res.transitions, ++res.traces_validated;
        if (p.status == Teakra::Parser::Opcode::Invalid) {
            Fail(Fmt("roundtrip:invalid:%s", di.name), Fmt("opcode %04X renders as '%s' but the assembler rejects that text", o, Join(toks).c_str()), rp);
            return;
        }
        if ((p.status == Teakra::Parser::Opcode::ValidWithExpansion) != need) {
            Fail(Fmt("roundtrip:length:%s", di.name), Fmt("opcode %04X ('%s'): assembler says %s second word, disassembler says %s", o, Join(toks).c_str(),
                                                         p.status == Teakra::Parser::Opcode::ValidWithExpansion ? "needs a" : "no", need ? "needs one" : "none"), rp);
            return;
        }
        u16 q = p.opcode;
        const std::vector<u16>* seconds = &kSecond;
        std::vector<u16> all;
        if (all_second && need) {
            for (u32 e = 0; e < 0x10000; ++e)
                all.push_back((u16)e);
            seconds = &all;
        }
        for (u16 e : *seconds) {
            auto a = D::GetTokenList(o, e), b = D::GetTokenList(q, e);
            ++res.transitions, ++res.traces_validated;
            if (a != b) {
                Fail(Fmt("roundtrip:text:%s", di.name), Fmt("opcode %04X assembles back to %04X, which prints '%s' instead of '%s' (second word %04X)", o, q, Join(b).c_str(), Join(a).c_str(), e), rp);
                return;
            }
            if (!need)
                break;
        }
        if (q != o) {
            // same behaviour, and they may differ only in bits the row marks unused
            DecodeInfo dq;
            c.impl.api->decode(q, &dq);
            if (dq.row != di.row || ((o ^ q) & ~di.unused)) {
                Fail(Fmt("collision:%s", di.name), Fmt("opcodes %04X and %04X print the same text '%s' but differ in bits %04X that are not marked unused (rows %d/%d)", o, q,
                                                        Join(toks).c_str(), (o ^ q) & ~di.unused, di.row, dq.row), rp);
                return;
            }
            for (u16 e : {(u16)0x0000, (u16)0x6420, (u16)0xFFFF})
                if (c.ExecDigest(o, e) != c.ExecDigest(q, e)) {
                    Fail(Fmt("roundtrip:behaviour:%s", di.name), Fmt("opcode %04X and its re-assembly %04X execute differently (second word %04X)", o, q, e), rp);
                    return;
                }
        }
        // joined text == tokens joined by four spaces; C binding agrees and respects the buffer
        for (u16 e : {(u16)0x0000, (u16)0xBEEF}) {
            auto t = D::GetTokenList(o, e);
            std::string joined = Join(t, "    ");
            std::string doo = D::Do(o, e);
            ++res.transitions, ++res.traces_validated;
            {
                // the same under an addressing configuration: the joined form prints what the token list prints for the same arguments
                D::ArArpSettings set{};
                set.ar = {0x1234, 0xFEDC};
                set.arp = {0x0421, 0x8C63, 0x5A5A, 0xFFFF};
                std::string j2 = Join(D::GetTokenList(o, e, set), "    "), d2 = D::Do(o, e, set);
                ++res.transitions, ++res.traces_validated;
                if (j2 != d2) {
                    Fail(Fmt("joined-text-annotated:%s", di.name), Fmt("opcode %04X %04X with an ar/arp configuration: Do() returns '%s', the token list joined by four spaces is '%s'", o, e, d2.c_str(), j2.c_str()), rp);
                    return;
                }
            }
            if (joined != doo) {
                Fail(Fmt("joined-text:%s", di.name), Fmt("opcode %04X %04X: Do() returns '%s', the token list joined by four spaces is '%s'", o, e, doo.c_str(), joined.c_str()), rp);
                return;
            }
            if (Teakra_Disasm_NeedExpansion(o) != need) {
                Fail("c-binding:need-expansion", Fmt("Teakra_Disasm_NeedExpansion(%04X) disagrees with the C++ API", o), rp);
                return;
            }
            // a comfortably large buffer on every opcode; every size 0..len+2 on a stride and on the extremes (see Sizes())
            if (!CBinding(o, e, joined, joined.size() + 8, rp))
                return;
            if (o % 61 == 0 || joined.size() <= 3 || joined.size() >= 60)
                for (size_t n = 0; n <= joined.size() + 2; ++n)
                    if (!CBinding(o, e, joined, n, rp))
                        return;
        }
        digests.insert(Fnv(toks.empty() ? "" : Join(toks).data(), Join(toks).size(), o));
    }
    bool CBinding(u16 o, u16 e, const std::string& text, size_t dstlen, const std::string& rp) {
        const size_t G = 512;
        static std::vector<unsigned char> buf(2 * G + 512);
        std::fill(buf.begin(), buf.end(), 0xA5);
        char* dst = reinterpret_cast<char*>(buf.data() + G);
        size_t ret = Teakra_Disasm_Do(dst, dstlen, o, e);
        ++res.transitions, ++res.traces_validated;
        std::string cls = dstlen == 0 ? "dstlen=0" : dstlen <= text.size() ? "truncating" : "fits";
        if (ret != text.size()) {
            Fail("c-binding:return-value:" + cls, Fmt("Teakra_Disasm_Do(%04X,%04X) with dstlen=%zu returns %zu, the text has %zu characters", o, e, dstlen, ret, text.size()), rp);
            return false;
        }
        for (size_t i = 0; i < buf.size(); ++i) {
            bool inside = i >= G && i < G + dstlen;
            if (!inside && buf[i] != 0xA5) {
                Fail("c-binding:writes-outside-buffer:" + cls, Fmt("Teakra_Disasm_Do(%04X,%04X) with dstlen=%zu wrote at offset %ld of the caller's buffer", o, e, dstlen, (long)i - (long)G), rp);
                return false;
            }
        }
        if (dstlen > 0) {
            size_t n = std::min(text.size(), dstlen - 1);
            if (dst[n] != 0 || std::memcmp(dst, text.data(), n) != 0) {
                Fail("c-binding:text-or-terminator:" + cls,
                     Fmt("Teakra_Disasm_Do(%04X,%04X) with dstlen=%zu: buffer does not hold the first %zu characters of '%s' followed by NUL (byte at %zu is %02X)", o, e, dstlen,
                         n, text.c_str(), n, (unsigned char)dst[n]), rp);
                return false;
            }
        }
        return true;
    }

    // ---- firmware: assemble == shipped binary; disassembly of the binary == source stream ----
    static std::vector<std::string> Tokens(const std::string& in) {
        std::vector<std::string> out;
        std::istringstream is(in);
        std::string w;
        while (is >> w)
            out.push_back(w);
        return out;
    }
    void Firmware(const std::string& repo, const std::string& name, const std::string& tmpdir) {
        std::string src = repo + "/hwtest/" + name + "/firm/source", bin = repo + "/hwtest/" + name + "/data/cdc.bin";
        std::string rp = "c05 firmware " + name;
        std::string outp = tmpdir + "/" + name + ".cdc.bin";
        // the real tool, as a child process
        std::string tool = ExeDir() + "/makedsp1";
        int rc = -1;
        std::fflush(nullptr);
        pid_t pid = fork();
        if (pid == 0) {
            int nul = open("/dev/null", O_WRONLY);
            dup2(nul, 1), dup2(nul, 2);
            execl(tool.c_str(), "makedsp1", src.c_str(), outp.c_str(), (char*)nullptr);
            _exit(127);
        }
        int st = 0;
        waitpid(pid, &st, 0);
        rc = WIFEXITED(st) ? WEXITSTATUS(st) : 128 + WTERMSIG(st);
        ++res.evaluations, ++res.transitions, ++res.traces_validated;
        auto slurp = [](const std::string& p) {
            std::ifstream f(p, std::ios::binary);
            return std::vector<unsigned char>((std::istreambuf_iterator<char>(f)), std::istreambuf_iterator<char>());
        };
        auto mine = slurp(outp), shipped = slurp(bin);
        std::remove(outp.c_str());
        unlink(outp.c_str());
        if (rc != 0 || shipped.empty()) {
            Fail("firmware:assemble-failed:" + name, Fmt("makedsp1 on %s returned %d (shipped binary %zu bytes)", src.c_str(), rc, shipped.size()), rp);
            return;
        }
        if (mine != shipped) {
            size_t i = 0;
            while (i < mine.size() && i < shipped.size() && mine[i] == shipped[i])
                ++i;
            Fail("firmware:binary-differs:" + name, Fmt("assembling %s gives %zu bytes, shipped cdc.bin has %zu; first difference at offset 0x%zX", src.c_str(), mine.size(), shipped.size(), i), rp);
            return;
        }
        // walk the shipped binary guided by the source: every instruction line must disassemble back to its tokens
        struct Seg {
            u32 offset, target, size;
            int type;
        };
        std::vector<Seg> segs;
        u32 nseg = shipped[0x10E];
        for (u32 i = 0; i < nseg; ++i) {
            const unsigned char* h = shipped.data() + 0x120 + i * 0x30;
            Seg s;
            std::memcpy(&s.offset, h, 4), std::memcpy(&s.target, h + 4, 4), std::memcpy(&s.size, h + 8, 4);
            s.type = h[15];
            segs.push_back(s);
        }
        std::ifstream in(src);
        std::string line;
        int seg = -1, lineno = 0;
        u32 pos = 0;
        while (std::getline(in, line)) {
            ++lineno;
            auto cpos = line.find("//");
            if (cpos != std::string::npos)
                line.erase(cpos);
            bool has_exp = false;
            u16 expv = 0;
            auto epos = line.find('$');
            if (epos != std::string::npos && line.size() - epos >= 5) {
                has_exp = true;
                expv = (u16)std::stoi(line.substr(epos + 1, 4), nullptr, 16);
                line = line.substr(0, epos) + "0000" + line.substr(epos + 5);
            }
            auto t = Tokens(line);
            if (t.empty())
                continue;
            if (t[0] == "segment") {
                ++seg;
                pos = 0;
                continue;
            }
            if (seg < 0 || seg >= (int)segs.size())
                break;
            auto word = [&](u32 idx) { return (u16)(shipped[segs[seg].offset + idx * 2] | (shipped[segs[seg].offset + idx * 2 + 1] << 8)); };
            if (t[0] == "data") {
                ++pos;
                continue;
            }
            u16 op = word(pos++);
            ++res.transitions, ++res.traces_validated;
            auto dis = D::GetTokenList(op, 0);
            bool need = D::NeedExpansion(op);
            if (dis != t) {
                Fail("firmware:disassembly-differs:" + name, Fmt("%s line %d: '%s' is word %04X in the binary, which disassembles to '%s'", name.c_str(), lineno, Join(t).c_str(), op, Join(dis).c_str()), rp);
                return;
            }
            if (need != has_exp) {
                Fail("firmware:length-differs:" + name, Fmt("%s line %d: '%s' (%04X): source %s a second word, disassembler says %s", name.c_str(), lineno, Join(t).c_str(), op,
                                                            has_exp ? "has" : "has no", need ? "needed" : "not needed"), rp);
                return;
            }
            if (need) {
                u16 e = word(pos++);
                if (e != expv) {
                    Fail("firmware:operand-differs:" + name, Fmt("%s line %d: second word %04X in the binary, %04X in the source", name.c_str(), lineno, e, expv), rp);
                    return;
                }
            }
            digests.insert(Mix(op * 131 + lineno));
        }
    }

    // ---- annotated disassembly agrees with the interpreter's reading of ar/arp (C20 clause 3) ----
    void ArArp(int word, u16 v) {
        static const char* step_names[] = {"++0", "++1", "--1", "++s", "++2", "--2", "++2*", "--2*"};
        static const char* offset_names[] = {"+0", "+1", "-1", "-1*"};
        VState s;
        c.impl.api->default_state(&s);
        c.impl.api->pseudo_set(&s, 12 + word, v); // 12,13: ar0,ar1; 14..17: arp0..3
        D::ArArpSettings set{};
        for (int i = 0; i < 2; ++i)
            set.ar[i] = c.impl.api->pseudo_get(&s, 12 + i);
        for (int i = 0; i < 4; ++i)
            set.arp[i] = c.impl.api->pseudo_get(&s, 14 + i);
        // the disassembler is handed the RAW word (test_verifier passes the vector's value incl. reserved bits)
        if (word < 2)
            set.ar[word] = v;
        else
            set.arp[word - 2] = v;
        ++res.evaluations;
        std::string rp = Fmt("c05 ararp %d %u", word, v);
        if (word < 2) {
            // movr [ArRn2 ArStep2], Abh : 0x8864 | arrn << 3 | arstep   (selectors 2*word, 2*word+1)
            for (int k = 0; k < 2; ++k) {
                int sel = 2 * word + k;
                u16 op = (u16)(0x8864 | (sel << 3) | sel);
                auto t = D::GetTokenList(op, 0, set);
                std::string want = Fmt("[%%r%u%s%s]", s.arrn[sel], offset_names[s.aroffset[sel] & 3], step_names[s.arstep[sel] & 7]);
                ++res.transitions, ++res.traces_validated;
                bool found = false;
                for (auto& x : t)
                    found |= x == want;
                if (!found)
                    Fail(Fmt("ar-annotation:ar%d", word), Fmt("ar%d=%04X: interpreter reads selector %d as %s, annotated disassembly of %04X prints '%s'", word, v, sel, want.c_str(), op, Join(t).c_str()), rp);
            }
        } else {
            int k = word - 2;
            u16 op = (u16)(0xD294 | (k << 10) | k | (k << 5)); // modr [arprn_k i-step_k],[.. j-step_k]
            auto t = D::GetTokenList(op, 0, set);
            std::string wi = Fmt("[%%r%u%s%s]", s.arprni[k], offset_names[s.arpoffseti[k] & 3], step_names[s.arpstepi[k] & 7]);
            std::string wj = Fmt("[%%r%u%s%s]", s.arprnj[k] + 4, offset_names[s.arpoffsetj[k] & 3], step_names[s.arpstepj[k] & 7]);
            ++res.transitions, ++res.traces_validated;
            bool fi = false, fj = false;
            for (auto& x : t)
                fi |= x == wi, fj |= x == wj;
            if (!fi || !fj)
                Fail(Fmt("ar-annotation:arp%d:%s", k, !fi ? "i" : "j"), Fmt("arp%d=%04X: interpreter reads %s and %s, annotated disassembly of %04X prints '%s'", k, v, wi.c_str(), wj.c_str(), op, Join(t).c_str()), rp);
        }
    }
};

// ======================================= C02 ==========================================================
static const std::set<std::string> kControlFlow = {"br", "brr", "call", "calla", "callr", "ret", "retd", "reti", "retic", "retid", "retidc", "rets", "mov_pc", "movpdw",
                                                   "trap", "undefined", "cntx_r", "break_", "bkrep", "bkrep_r6", "rep", "rep_r6", "pop_prpage", "mov_prpage", "bkreprst",
                                                   "bkreprst_memsp", "pop", "mov"};
struct C02 {
    Ctx& c;
    Result& res;
    std::unordered_set<u64> digests;
    C02(Ctx& cx, Result& r) : c(cx), res(r) {}
    void Fail(const std::string& key, const std::string& text, const std::string& rp) {
        res.AddViolation("c02:" + key, text, rp);
    }
    void Opcode(u16 o) {
        DecodeInfo di;
        c.impl.api->decode(o, &di);
        ++res.evaluations, ++res.states;
        std::string rp = Fmt("c02 op %u", o);
        // (a) at most one row
        if (di.rows_matching > 1) {
            Fail(Fmt("double-match:%s", di.name), Fmt("opcode %04X matches %d rows of the decode table", o, di.rows_matching), rp);
            return;
        }
        {
            // the interpreter executes through its own 65536-entry dispatch table: its entry for this word is the same form
            DispatchInfo dp;
            c.impl.api->dispatch(c.impl.m, o, &dp);
            ++res.transitions;
            const char* want_name = di.row >= 0 ? di.name : "*"; // the catch-all matcher that calls undefined() is named "*"
            if (std::strcmp(dp.name, want_name) != 0 || dp.need_expansion != di.need_expansion || (di.row >= 0 && (dp.mask != di.mask || dp.expected != di.expected)) ||
                (di.row >= 0 && !dp.matches)) {
                Fail(Fmt("dispatch-table:%s", di.name),
                     Fmt("opcode %04X: the interpreter's dispatch table holds the form '%s' (mask %04X, pattern %04X, %d-word%s) where the decode table selects '%s' (mask %04X, "
                         "pattern %04X, %d-word)", o, dp.name, dp.mask, dp.expected, dp.need_expansion ? 2 : 1, dp.matches ? "" : ", does not match the word", di.name, di.mask,
                         di.expected, di.need_expansion ? 2 : 1),
                     rp);
                return;
            }
        }
        if (di.row >= 0 && di.unused == 0xFFFF) {
            Fail("table-text-mismatch", Fmt("row %d of the table object is '%s' but the table text has a different row there", di.row, di.name), rp);
            return;
        }
        // (b) consumers agree on the need for a second word
        bool need_rec = di.need_expansion, need_dis = D::NeedExpansion(o);
        auto toks = D::GetTokenList(o, 0);
        // the form a consumer reports for a word is a function of that word: an annotated call in between does not change it
        {
            D::ArArpSettings set{};
            set.ar = {0x1234, 0xFEDC};
            set.arp = {0x0421, 0x8C63, 0x5A5A, 0xFFFF};
            (void)D::GetTokenList(o, 0, set);
            auto again = D::GetTokenList(o, 0);
            ++res.transitions, ++res.traces_validated;
            if (again != toks) {
                Fail(Fmt("form:disassembler-history:%s", di.name), Fmt("opcode %04X prints '%s', and '%s' after an annotated call for the same word", o, Join(toks).c_str(), Join(again).c_str()), rp);
                return;
            }
        }
        bool renderable = Renderable(toks);
        ++res.transitions, ++res.traces_validated;
        if (need_rec != need_dis) {
            Fail(Fmt("length:decoder-vs-disassembler:%s", di.name), Fmt("opcode %04X: table row says %d second word(s), disassembler says %d", o, need_rec, need_dis), rp);
            return;
        }
        if (renderable) {
            auto p = c.parser->Parse(toks);
            if (p.status == Teakra::Parser::Opcode::Invalid && di.row >= 0) {
                Fail(Fmt("form:assembler-unknown:%s", di.name), Fmt("opcode %04X ('%s', row %d/'%s') is an instruction for the decoder, the interpreter and the disassembler, but the "
                                                                  "assembler does not know its text", o, Join(toks).c_str(), di.row, di.name), rp);
                return;
            }
            if (p.status != Teakra::Parser::Opcode::Invalid) {
                DecodeInfo dp;
                c.impl.api->decode(p.opcode, &dp);
                if (dp.row != di.row || (p.status == Teakra::Parser::Opcode::ValidWithExpansion) != need_dis) {
                    Fail(Fmt("form:assembler:%s", di.name), Fmt("opcode %04X ('%s') assembles to %04X of row %d/'%s' (second word: %d), the decoder has row %d/'%s' (second word: %d)", o,
                                                              Join(toks).c_str(), p.opcode, dp.row, dp.name, p.status == Teakra::Parser::Opcode::ValidWithExpansion, di.row, di.name, need_dis), rp);
                    return;
                }
                // the assembler sees the same operands: the word it produces for this text may differ from the original only in bits the form
                // declares unused (otherwise the two words are different instructions for the interpreter that the assembler cannot tell apart)
                if (di.row >= 0 && di.unused != 0xFFFF && ((o ^ p.opcode) & ~di.unused)) {
                    Fail(Fmt("form:assembler-operands:%s", di.name), Fmt("opcode %04X ('%s') assembles to %04X: the two words differ in operand bits %04X of the form '%s', which the "
                                                                         "interpreter distinguishes and the printed text does not", o, Join(toks).c_str(), p.opcode,
                                                                         (o ^ p.opcode) & ~di.unused, di.name), rp);
                    return;
                }
            }
        }
        GenResult g;
        {
            // the generator's answer for a word does not depend on which words it was asked about before: a two-word instruction
            // (mov ##imm16,ar0) and a one-word one are generated first
            GenResult warm;
            c.impl.api->gen_run(c.impl.m, 0x0008, 1, 0, nullptr, nullptr, &warm);
            c.impl.api->gen_run(c.impl.m, 0x0000, 1, 0, nullptr, nullptr, &warm);
        }
        c.impl.api->gen_run(c.impl.m, o, 1, 0, nullptr, nullptr, &g);
        // (a two-word form may be generated with a zero operand word; the converse - an operand word for a one-word form - is the disagreement)
        if (g.enabled && g.gen_expand_kind != 0 && !need_rec) {
            Fail(Fmt("length:generator-config:%s", di.name), Fmt("opcode %04X: the test generator emits a non-zero second program word for it (after generating for other words), but it is a "
                                                              "one-word instruction for the decoder, the disassembler and the interpreter", o), rp);
            return;
        }
        // the generator sees the same operand in the second word: where the form's operand is a direct data address (MemImm16) the
        // generator must treat the word as a data address (its vectors are only valid inside the compared windows), not as a free immediate
        if (g.enabled && need_rec && g.gen_expand_kind == 1)
            for (int a = 0; a < di.nargs; ++a)
                if (std::strcmp(di.arg_types[a], "MemImm16") == 0) {
                    Fail(Fmt("form:generator-operand-kind:%s", di.name), Fmt("opcode %04X ('%s'): the second word is a direct data address for the decoder, the disassembler and the interpreter, "
                                                                           "but the test generator draws it as a free 16-bit immediate", o, Join(toks).c_str()), rp);
                    return;
                }
        if (g.need_expansion != (int)need_rec) {
            Fail(Fmt("length:generator:%s", di.name), Fmt("opcode %04X: test generator sees %d second word(s), decoder %d", o, g.need_expansion, need_rec), rp);
            return;
        }
        // the disassembler's first token names the same row family: an undefined opcode must not print as an instruction and vice versa
        if ((di.row < 0) != !renderable && di.row < 0) {
            Fail("form:disassembler-prints-undefined", Fmt("opcode %04X matches no row but prints '%s'", o, Join(toks).c_str()), rp);
            return;
        }
        // (c) the interpreter consumes a second word exactly when one is needed, from the right address
        if (di.row >= 0)
            for (u32 pc0 : {0x0000u, 0x0FFFu, 0x1FFFEu, 0x3FFF0u}) {
                VState s = c.states[0];
                s.pc = pc0;
                s.rep = 0, s.lp = 0, s.bcn = 0, s.ie = 0;
                u16 words[3] = {o, 0x6420, 0x0000};
                VState out;
                RunResult rr;
                c.impl.api->run(c.impl.m, &s, words, 3, 1, &out, &rr);
                ++res.transitions, ++res.traces_validated;
                if (rr.outcome == OUT_ASSERT || rr.outcome == OUT_UNIMPLEMENTED)
                    break;
                if (rr.n_logged < 1 || rr.log[0].addr != pc0 || rr.log[0].is_write) {
                    Fail("fetch:first-word-address", Fmt("opcode %04X at %05X: first program access at %05X", o, pc0, rr.n_logged ? rr.log[0].addr : 0), rp);
                    return;
                }
                bool second_fetched = rr.n_logged >= 2 && rr.log[1].addr == pc0 + 1 && !rr.log[1].is_write && rr.log[1].value == 0x6420;
                // a one-word instruction may legitimately *read* pc0+1 as data (movp); that shows as value read, so compare with the need only for two-word rows
                if (need_rec && !second_fetched) {
                    Fail(Fmt("fetch:second-word:%s", di.name), Fmt("opcode %04X at %05X needs a second word but the second access is at %05X (value %04X), not the operand word at %05X", o, pc0,
                                                               rr.n_logged >= 2 ? rr.log[1].addr : 0, rr.n_logged >= 2 ? rr.log[1].value : 0, pc0 + 1), rp);
                    return;
                }
                if (rr.outcome == OUT_OK && !kControlFlow.count(di.name) && out.pc != pc0 + 1 + (need_rec ? 1 : 0)) {
                    Fail(Fmt("length:interpreter:%s", di.name), Fmt("opcode %04X at %05X: pc advances to %05X, expected %05X (second word %s)", o, pc0, out.pc, pc0 + 1 + (need_rec ? 1 : 0),
                                                                 need_rec ? "needed" : "not needed"), rp);
                    return;
                }
                // the operand word is never executed as an instruction: the instruction after a two-word one is fetched behind it
                if (rr.outcome == OUT_OK && need_rec && !kControlFlow.count(di.name)) {
                    u16 w2[4] = {o, 0x67D0 /* inc a0 if wrongly executed */, 0x0000, 0x0000};
                    VState o1, o2;
                    RunResult r1, r2;
                    c.impl.api->run(c.impl.m, &s, w2, 4, 1, &o1, &r1);
                    c.impl.api->run(c.impl.m, &s, w2, 4, 2, &o2, &r2);
                    ++res.transitions, ++res.traces_validated;
                    if (r1.outcome == OUT_OK && r2.outcome == OUT_OK) {
                        VState e = o1;
                        e.pc = o1.pc + 1; // a nop
                        if (o2.pc != e.pc || o2.a[0] != o1.a[0]) {
                            Fail(Fmt("operand-executed:%s", di.name), Fmt("opcode %04X at %05X: after the two-word instruction the next cycle does not behave like the nop behind the operand word (pc %05X, a0 %llX vs %llX)",
                                                                        o, pc0, o2.pc, (unsigned long long)o2.a[0], (unsigned long long)o1.a[0]), rp);
                            return;
                        }
                    }
                }
            }
        // (d) unused bits: same row, same operands, same text, same behaviour
        for (int b = 0; b < 16; ++b)
            if (di.row >= 0 && (di.unused >> b & 1)) {
                u16 o2 = (u16)(o ^ (1u << b));
                DecodeInfo d2;
                c.impl.api->decode(o2, &d2);
                ++res.transitions, ++res.traces_validated;
                bool same = d2.row == di.row && d2.nargs == di.nargs && !std::memcmp(d2.args, di.args, sizeof(int) * di.nargs);
                if (!same) {
                    Fail(Fmt("unused-bit:decode:%s", di.name), Fmt("bit %d of opcode %04X is marked unused in row %d ('%s') but %04X decodes to row %d ('%s') / other operands", b, o, di.row, di.name, o2,
                                                                 d2.row, d2.name), rp);
                    return;
                }
                for (u16 e : {(u16)0x0000, (u16)0xFFFF, (u16)0x6420})
                    if (D::GetTokenList(o, e) != D::GetTokenList(o2, e)) {
                        Fail(Fmt("unused-bit:text:%s", di.name), Fmt("unused bit %d changes the text: %04X prints '%s', %04X prints '%s'", b, o, Join(D::GetTokenList(o, e)).c_str(), o2,
                                                                   Join(D::GetTokenList(o2, e)).c_str()), rp);
                        return;
                    }
                for (u16 e : {(u16)0x0000, (u16)0x6420})
                    if (c.ExecDigest(o, e) != c.ExecDigest(o2, e)) {
                        Fail(Fmt("unused-bit:behaviour:%s", di.name), Fmt("unused bit %d changes what the instruction does: %04X vs %04X (second word %04X)", b, o, o2, e), rp);
                        return;
                    }
            }
        // (d2) unused bits of the operand word (documented per row as "unusedN@P"): same behaviour whatever they hold
        if (di.row >= 0 && di.unused2 && need_rec)
            for (int b = 0; b < 16; ++b)
                if (di.unused2 >> b & 1)
                    for (u16 e : {(u16)0x0000, (u16)0x0005, (u16)0x000F, (u16)0x0003}) {
                        ++res.transitions, ++res.traces_validated;
                        if (c.ExecDigest(o, e) != c.ExecDigest(o, (u16)(e | (1u << b)))) {
                            Fail(Fmt("unused-bit:second-word:behaviour:%s", di.name), Fmt("bit %d of the operand word of opcode %04X is documented as unused, but %04X %04X and %04X %04X behave differently", b, o,
                                                                                       o, e, o, e | (1u << b)), rp);
                            return;
                        }
                    }
        digests.insert(Mix(o) ^ (u64)di.row);
    }

    // (e) operand words inside hardware loops: stepping a loop program cycle by cycle, the program counter at every instruction boundary is the
    // address of a first word, never of an operand word (bkrep's end-address word, the immediate of a two-word instruction)
    void LoopProgram(int id, int cnt, int n) {
        const u32 pc0 = 0x1000;
        std::vector<u16> w;
        std::set<u32> operand;
        auto two = [&](u16 a, u16 b) { w.push_back(a); operand.insert(pc0 + (u32)w.size()); w.push_back(b); };
        int expected = 0;
        switch (id) {
        case 0: // bkrep #cnt { inc a0 ; rep #n ; inc a1 }   (a repeated instruction ends the block)
            two((u16)(0x5C00 | cnt), (u16)(pc0 + 4));
            w.push_back(0x67D0), w.push_back((u16)(0x0C00 | n)), w.push_back(0x77D0);
            expected = 1 + (cnt + 1) * (2 + n + 1);
            break;
        case 1: // bkrep #cnt { inc a0 ; add ##imm16,a0 }   (a two-word instruction ends the block)
            two((u16)(0x5C00 | cnt), (u16)(pc0 + 4));
            w.push_back(0x67D0);
            two(0x86C0, 0x0123);
            expected = 1 + (cnt + 1) * 2;
            break;
        case 2: // rep #n ; inc a0 ; add ##imm16,a0
            w.push_back((u16)(0x0C00 | n)), w.push_back(0x67D0);
            two(0x86C0, 0x0123);
            expected = 1 + (n + 1) + 1;
            break;
        default: // bkrep #cnt { bkrep #n { add ##imm16,a0 ; inc a1 } ; rep #n ; inc a0 }
            two((u16)(0x5C00 | cnt), (u16)(pc0 + 8));
            two((u16)(0x5C00 | n), (u16)(pc0 + 6));
            two(0x86C0, 0x0123);
            w.push_back(0x77D0), w.push_back((u16)(0x0C00 | n)), w.push_back(0x67D0);
            expected = 1 + (cnt + 1) * (1 + (n + 1) * 2 + 1 + n + 1);
            break;
        }
        u32 end = pc0 + (u32)w.size();
        for (int i = 0; i < 4; ++i)
            w.push_back(0x0000);
        VState s = c.states[0];
        s.pc = pc0, s.rep = 0, s.lp = 0, s.bcn = 0, s.ie = 0;
        std::string rp = Fmt("c02 loop %d %d %d", id, cnt, n);
        ++res.states;
        for (int k = 1; k <= expected + 1; ++k) {
            VState out;
            RunResult rr;
            c.impl.api->run(c.impl.m, &s, w.data(), (int)w.size(), k, &out, &rr);
            ++res.evaluations, ++res.transitions, ++res.traces_validated;
            if (rr.outcome != OUT_OK) {
                Fail(Fmt("loop-program:%d:outcome", id), Fmt("loop program %d (count %d, rep %d) ends with outcome %d after %d cycles", id, cnt, n, rr.outcome, k), rp);
                return;
            }
            if (operand.count(out.pc)) {
                Fail(Fmt("operand-executed:loop-program-%d", id), Fmt("loop program %d (block count %d, rep count %d): after %d cycles the program counter is %05X, the address of an "
                                                                    "operand word (%04X) - it is about to be executed as an instruction", id, cnt, n, k, out.pc, w[out.pc - pc0]), rp);
                return;
            }
            if (k == expected && out.pc != end) {
                Fail(Fmt("loop-program:%d:length", id), Fmt("loop program %d (block count %d, rep count %d): after %d cycles pc=%05X, expected the first word behind the loop %05X", id, cnt, n,
                                                            k, out.pc, end), rp);
                return;
            }
        }
        digests.insert(Mix(id * 100 + cnt * 10 + n + 0x777));
    }
};

inline int Replay(const std::string& r, Result& res, const std::string& repo) {
    QuietStdout quiet;
    Ctx c;
    unsigned a, b;
    char name[64];
    if (std::sscanf(r.c_str(), "c05 op %u", &a) == 1) {
        C05 e(c, res);
        e.Opcode((u16)a, false);
    } else if (std::sscanf(r.c_str(), "c05 firmware %63s", name) == 1) {
        C05 e(c, res);
        char tmpl[] = "/tmp/verif_fw_XXXXXX";
        std::string dir = mkdtemp(tmpl);
        e.Firmware(repo, name, dir);
        rmdir(dir.c_str());
    } else if (std::sscanf(r.c_str(), "c05 ararp %u %u", &a, &b) == 2) {
        C05 e(c, res);
        e.ArArp((int)a, (u16)b);
    } else if (std::sscanf(r.c_str(), "c02 op %u", &a) == 1) {
        C02 e(c, res);
        e.Opcode((u16)a);
    } else if (r.rfind("c02 loop ", 0) == 0) {
        int id, cnt, n;
        if (std::sscanf(r.c_str(), "c02 loop %d %d %d", &id, &cnt, &n) != 3)
            return 2;
        C02 e(c, res);
        e.LoopProgram(id, cnt, n);
    } else {
        return 2;
    }
    for (auto& v : res.violations)
        quiet.Say(Fmt("  %s\n    %s\n", v.key.c_str(), v.text.c_str()));
    return res.violations.empty() ? 0 : 1;
}
} // namespace txt

int main(int argc, char** argv) {
    verif::Args args = verif::Args::Parse(argc, argv);
    const bool shard_replay = verif::ParseShardReplay(args);
    verif::Result res;
    res.tier = args.tier;
    res.seed = args.seed;
    std::string repo = args.opt.count("repo") ? args.opt["repo"] : "/repo";
    if (!args.replay.empty())
        return txt::Replay(args.replay, res, repo);
    using namespace txt;
    bool th = args.thorough();
    if (args.sub == "c05") {
        res.property = "C05";
        RunPool(args.jobs,
                [&](int idx, int cnt, WorkerBlock& blk, Result& local) {
                    QuietStdout quiet;
                    Ctx c;
                    C05 e(c, local);
                    for (u32 o = idx; o < 0x10000; o += cnt)
                        e.Opcode((u16)o, th);
                    for (int w = 0; w < 6; ++w)
                        for (u32 v = idx; v < 0x10000; v += cnt)
                            e.ArArp(w, (u16)v);
                    if (idx == 0) {
                        char tmpl[] = "/tmp/verif_fw_XXXXXX";
                        std::string dir = mkdtemp(tmpl);
                        for (const char* n : {"dsptester", "dspapbptester", "dspmemorytester", "dspvictester"})
                            e.Firmware(repo, n, dir);
                        rmdir(dir.c_str());
                    }
                    blk.evaluations = local.evaluations, blk.transitions = local.transitions, blk.traces = local.traces_validated, blk.states = local.states;
                    blk.distinct = e.digests.size();
                },
                res);
        res.rule = "all 65536 first words: every renderable opcode is disassembled, re-assembled with the real parser, and the result must be valid, need the "
                   "same number of words, print the same tokens for 12 second words (all 65536 in the thorough tier) and execute identically; opcodes sharing a "
                   "text may differ only in bits the table marks unused; Do() == tokens joined by four spaces; the C binding is called with a canaried buffer for a "
                   "large size on every opcode and for every size 0..len+2 on a stride and on the shortest/longest renderings; the four firmware sources are "
                   "assembled with makedsp1's own main and compared byte for byte with the shipped cdc.bin, then walked instruction by instruction against the "
                   "disassembly; all 65536 values of each ar/arp word: annotated disassembly vs the interpreter's reading";
        res.bound = th ? "all 65536 second words for two-word opcodes" : "12 second words";
        res.assumptions = {"execution equality is over 5 base states x 1 cycle (C01 has the large state alphabet)"};
        res.AddSample("opcode 8688 -> 'add [r0++] a0' -> Parse -> 8688; Teakra_Disasm_Do with dstlen 0..len+2 and canaries");
        res.AddSample("hwtest/dspvictester/firm/source line 'br 0x0000$0800 always' <-> words 4180 0800");
    } else if (args.sub == "c20ar") {
        res.property = "C20";
        RunPool(args.jobs,
                [&](int idx, int cnt, WorkerBlock& blk, Result& local) {
                    QuietStdout quiet;
                    Ctx c;
                    C05 e(c, local);
                    for (int w = 0; w < 6; ++w)
                        for (u32 v = idx; v < 0x10000; v += cnt)
                            e.ArArp(w, (u16)v);
                    blk.evaluations = local.evaluations, blk.transitions = local.transitions, blk.traces = local.traces_validated, blk.states = local.evaluations;
                    blk.distinct = local.evaluations;
                },
                res);
        for (auto& v : res.violations)
            v.key = "c20:" + v.key.substr(4);
        {
            std::map<std::string, u64> m;
            for (auto& kv : res.violation_class_counts)
                m["c20:" + kv.first.substr(4)] = kv.second;
            res.violation_class_counts = m;
        }
        res.rule = "all 65536 raw values of ar0, ar1, arp0..3: the annotated disassembly (%rN, offset and step names) must equal the rendering of the fields the "
                   "interpreter holds after writing that value";
        res.bound = "6 words x 65536 values";
    } else if (args.sub == "c02") {
        res.property = "C02";
        RunPool(args.jobs,
                [&](int idx, int cnt, WorkerBlock& blk, Result& local) {
                    QuietStdout quiet;
                    Ctx c;
                    C02 e(c, local);
                    for (u32 o = idx; o < 0x10000; o += cnt)
                        e.Opcode((u16)o);
                    int job = 0;
                    for (int id = 0; id < 4; ++id)
                        for (int bc = 0; bc < 4; ++bc)
                            for (int n = 0; n < 4; ++n)
                                if (job++ % cnt == idx)
                                    e.LoopProgram(id, bc, n);
                    blk.evaluations = local.evaluations, blk.transitions = local.transitions, blk.traces = local.traces_validated, blk.states = local.states;
                    blk.distinct = e.digests.size();
                },
                res);
        res.rule = "all 65536 first words: number of matching rows of the real decode table <= 1; table row, disassembler, assembler and test generator agree on the "
                   "row and on the need for a second word; one Run(1) at 4 start addresses: first program access at pc, second access is the operand word at pc+1 "
                   "exactly for two-word rows, pc advances by the length, and the cycle after a two-word instruction behaves like the instruction behind the operand "
                   "word; for every bit the table TEXT marks Unused<>: the flipped opcode decodes to the same row with the same operands, prints the same tokens and "
                   "executes identically (also for the operand-word bits a row documents as unused); every opcode the decoder knows and the disassembler renders is known to the assembler; 64 loop programs (block repeat x "
                   "single repeat x two-word instructions, counts 0..3) stepped cycle by cycle: the program counter never rests on an operand word";
        res.bound = "all 65536 opcodes x start addresses {0, 0x0FFF, 0x1FFFE, 0x3FFF0}; all unused bits of all rows; 4 loop program shapes x counts {0..3}^2";
        res.assumptions = {"rep over a two-word instruction is outside the statement",
                           "Unused<> positions are parsed from decoder.h's table text (row i of the text = row i of the table object, names cross-checked)"};
        res.AddSample("opcode D3C8 (mov repc,[r7+imm16]; unused bits 0,1,2): D3C9..D3CF decode to the same row, print and execute identically");
        res.AddSample("opcode 5E00 at 0x1FFFE: accesses [1FFFE, 1FFFF(operand), ...], pc -> 0x20000");
    } else {
        std::fprintf(stderr, "usage: text c05|c02\n");
        return 2;
    }
    return verif::Finish(args, res, shard_replay);
}
