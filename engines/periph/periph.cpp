// Engine binary for the peripheral-level checks: C13 (DMA), C15 (timer), C16 (audio FIFO).
#include "c13_dma.h"
#include "c15_timer.h"
#include "c16_btdmp.h"

int main(int argc, char** argv) {
    verif::Args args = verif::Args::Parse(argc, argv);
    verif::Result res;
    res.tier = args.tier;
    res.seed = args.seed;
    if (!args.replay.empty()) {
        if (args.replay.rfind("c13", 0) == 0)
            return c13::RunReplay(args.replay, res);
        if (args.replay.rfind("c15", 0) == 0)
            return c15::RunReplay(args.replay, res);
        if (args.replay.rfind("c16", 0) == 0)
            return c16::RunReplay(args.replay, res);
        return 2;
    }
    if (args.sub == "c13") {
        c13::Run(args, res);
    } else if (args.sub == "c15") {
        verif::QuietStdout quiet;
        c15::Run(args, res);
    } else if (args.sub == "c16") {
        verif::QuietStdout quiet;
        c16::Run(args, res);
    } else {
        std::fprintf(stderr, "usage: periph c13|c15|c16 [--tier t] [--seed n] [--out f] [--replay s]\n");
        return 2;
    }
    return res.Write(args.out.c_str()) ? 0 : 2;
}
