// Engine binary for the peripheral-level checks: C13 (DMA), C15 (timer), C16 (audio FIFO).
#include "c13_dma.h"
#include "c15_timer.h"
#include "c16_btdmp.h"

int main(int argc, char** argv) {
    verif::Args args = verif::Args::Parse(argc, argv);
    const bool shard_replay = verif::ParseShardReplay(args);
    verif::Result res;
    res.tier = args.tier;
    res.seed = args.seed;
    if (!args.replay.empty()) {
        if (args.replay.rfind("c13", 0) == 0)
            return c13::RunReplay(args.replay, res);
        if (args.replay.rfind("c15", 0) == 0)
            return c15::RunReplay(args.replay, res);
        if (args.replay.rfind("c16", 0) == 0)
            return c16::RunReplay(args.replay, res);
        return 2;
    }
    if (args.sub == "c13") {
        c13::Run(args, res);
    } else if (args.sub == "c15") {
        res.property = "C15";
        verif::RunIsolated(res, [&](verif::Result& r) {
            verif::QuietStdout quiet;
            c15::Run(args, r);
        });
    } else if (args.sub == "c16") {
        res.property = "C16";
        verif::RunIsolated(res, [&](verif::Result& r) {
            verif::QuietStdout quiet;
            c16::Run(args, r);
        });
    } else {
        std::fprintf(stderr, "usage: periph c13|c15|c16 [--tier t] [--seed n] [--out f] [--replay s]\n");
        return 2;
    }
    return verif::Finish(args, res, shard_replay);
}
