// C13 — exhaustive enumeration of DMA configurations on a real Dma+Ahbm+SharedMemory against a
// nested-loop reference; the memory observer (hook 2) gives the exact ordered write log.
#pragma once
#include "../common/verif.h"
#include "ahbm.h"
#include "dma.h"
#include "shared_memory.h"
#include "crash.h"

namespace c13 {
using namespace verif;

struct Cfg {
    u16 size[3];
    u16 sstep[3], dstep[3];
    u16 dword;
    u16 sspace, dspace; // 0 = DSP, 7 = external
    u16 channel;
    u32 src, dst;
    u16 unit, burst; // AHBM unit size code (1=U16, 2=U32), burst code (0,1,2)
};
inline std::string Show(const Cfg& c) {
    return Fmt("{ch=%u size=%u,%u,%u sstep=%X,%X,%X dstep=%X,%X,%X dword=%u space=%u->%u src=%08X dst=%08X unit=%u burst=%u}",
               c.channel, c.size[0], c.size[1], c.size[2], c.sstep[0], c.sstep[1], c.sstep[2],
               c.dstep[0], c.dstep[1], c.dstep[2], c.dword, c.sspace, c.dspace, c.src, c.dst, c.unit,
               c.burst);
}
inline std::string Replay(const Cfg& c) {
    return Fmt("c13 %u %u %u %u %u %u %u %u %u %u %u %u %u %u %u %u %u", c.size[0], c.size[1], c.size[2],
               c.sstep[0], c.sstep[1], c.sstep[2], c.dstep[0], c.dstep[1], c.dstep[2], c.dword, c.sspace,
               c.dspace, c.channel, c.src, c.dst, c.unit, c.burst);
}

struct Access {
    u32 addr;
    u32 value;
    u8 width; // bytes; for DSP side 2
    bool operator==(const Access& o) const {
        return addr == o.addr && value == o.value && width == o.width;
    }
};

inline u16 Pattern(u32 a) { // initial DSP data word at data address a (distinct among neighbours)
    return (u16)(a * 7 + 3);
}
inline u8 ExtPattern(u32 a) {
    return (u8)(a * 5 + 0x81);
}

// ---- reference: the documented 3-D strided element sequence ---------------------------------------
struct RefOut {
    std::vector<Access> dsp_writes; // ordered (word address in data space, value)
    std::vector<Access> ext_reads, ext_writes;
    u64 elements = 0;
};
struct RefMem { // sparse images over the initial patterns
    std::map<u32, u16> dsp;
    std::map<u32, u8> ext;
    u16 Dsp(u32 a) {
        auto it = dsp.find(a);
        return it == dsp.end() ? Pattern(a) : it->second;
    }
    u8 Ext(u32 a) {
        auto it = ext.find(a);
        return it == ext.end() ? ExtPattern(a) : it->second;
    }
};
inline void Reference(const Cfg& c, RefOut& o, RefMem& m) {
    u32 n0 = c.dword ? std::max<u32>(1, (c.size[0] + 1) / 2) : std::max<u32>(1, c.size[0]);
    u32 n1 = std::max<u32>(1, c.size[1]), n2 = std::max<u32>(1, c.size[2]);
    u32 s = c.src, d = c.dst;
    for (u32 k = 0; k < n2; ++k)
        for (u32 j = 0; j < n1; ++j)
            for (u32 i = 0; i < n0; ++i) {
                ++o.elements;
                u32 value = 0;
                if (c.dword) {
                    if (c.sspace == 0) {
                        value = m.Dsp(s & ~1u) | ((u32)m.Dsp(s | 1) << 16);
                    } else {
                        u32 a = s; // naturally aligned (multiple of 4)
                        value = m.Ext(a) | (m.Ext(a + 1) << 8) | (m.Ext(a + 2) << 16) | ((u32)m.Ext(a + 3) << 24);
                        o.ext_reads.push_back({a, value, 4});
                    }
                    if (c.dspace == 0) {
                        m.dsp[d & ~1u] = (u16)value;
                        o.dsp_writes.push_back({d & ~1u, (u16)value, 2});
                        m.dsp[d | 1] = (u16)(value >> 16);
                        o.dsp_writes.push_back({d | 1, (u16)(value >> 16), 2});
                    } else {
                        for (int b = 0; b < 4; ++b)
                            m.ext[d + b] = (u8)(value >> (8 * b));
                        o.ext_writes.push_back({d, value, 4});
                    }
                } else {
                    if (c.sspace == 0) {
                        value = m.Dsp(s);
                    } else {
                        value = m.Ext(s) | (m.Ext(s + 1) << 8);
                        o.ext_reads.push_back({s, value, 2});
                    }
                    if (c.dspace == 0) {
                        m.dsp[d] = (u16)value;
                        o.dsp_writes.push_back({d, (u16)value, 2});
                    } else {
                        m.ext[d] = (u8)value;
                        m.ext[d + 1] = (u8)(value >> 8);
                        o.ext_writes.push_back({d, (u16)value, 2});
                    }
                }
                if (i + 1 < n0) {
                    s += c.sstep[0];
                    d += c.dstep[0];
                } else if (j + 1 < n1) {
                    s += c.sstep[1];
                    d += c.dstep[1];
                } else if (k + 1 < n2) {
                    s += c.sstep[2];
                    d += c.dstep[2];
                }
            }
}

// ---- implementation under test ----------------------------------------------------------------------
struct Machine;
static Machine* g_machine = nullptr;
struct Machine {
    Teakra::SharedMemory mem;
    Teakra::Ahbm ahbm;
    Teakra::Dma dma{mem, ahbm};
    int irq = 0;
    std::vector<Access> dsp_writes, ext_reads, ext_writes;
    std::vector<std::pair<u32, u16>> undo;
    std::map<u32, u8> ext;
    bool oob = false;
    u32 oob_addr = 0;

    static void Hook(u32 wa, bool is_write, u16 value) {
        Machine* m = g_machine;
        if (wa >= 0x40000) {
            m->oob = true;
            m->oob_addr = wa;
            throw 1;
        }
        if (is_write) {
            u16 old = m->mem.raw[wa * 2] | (m->mem.raw[wa * 2 + 1] << 8);
            m->undo.push_back({wa, old});
            m->dsp_writes.push_back({wa - 0x20000, value, 2});
        }
    }
    u8 Ext(u32 a) {
        auto it = ext.find(a);
        return it == ext.end() ? ExtPattern(a) : it->second;
    }
    Machine() {
        for (u32 a = 0; a < 0x20000; ++a) {
            u16 v = Pattern(a);
            mem.raw[(0x20000 + a) * 2] = (u8)v;
            mem.raw[(0x20000 + a) * 2 + 1] = (u8)(v >> 8);
        }
        dma.SetInterruptHandler([this]() { ++irq; });
        ahbm.SetExternalMemoryCallback(
            [this](u32 a) -> u8 {
                u8 v = Ext(a);
                ext_reads.push_back({a, v, 1});
                return v;
            },
            [this](u32 a, u8 v) {
                ext[a] = v;
                ext_writes.push_back({a, v, 1});
            },
            [this](u32 a) -> u16 {
                u16 v = Ext(a) | (Ext(a + 1) << 8);
                ext_reads.push_back({a, v, 2});
                return v;
            },
            [this](u32 a, u16 v) {
                ext[a] = (u8)v;
                ext[a + 1] = (u8)(v >> 8);
                ext_writes.push_back({a, v, 2});
            },
            [this](u32 a) -> u32 {
                u32 v = Ext(a) | (Ext(a + 1) << 8) | (Ext(a + 2) << 16) | ((u32)Ext(a + 3) << 24);
                ext_reads.push_back({a, v, 4});
                return v;
            },
            [this](u32 a, u32 v) {
                for (int b = 0; b < 4; ++b)
                    ext[a + b] = (u8)(v >> (8 * b));
                ext_writes.push_back({a, v, 4});
            });
    }
    // returns outcome: 0 ok, 1 assert, 2 oob
    // fresh=true: peripheral reset first (transfer from the initial state); fresh=false: the transfer
    // follows whatever ran before on this Dma (history), memory and external images persist
    int RunCfg(const Cfg& c, std::string& why, bool fresh = true) {
        g_machine = this;
        if (fresh) {
            dma.Reset();
            ahbm.Reset();
            ext.clear();
            undo.clear();
        }
        irq = 0;
        dsp_writes.clear();
        ext_reads.clear();
        ext_writes.clear();
        oob = false;
        // every other channel holds a distinct decoy configuration that must not be used
        for (u16 ch = 0; ch < 8 && fresh; ++ch) {
            if (ch == c.channel)
                continue;
            dma.ActivateChannel(ch);
            dma.SetAddrSrcLow(0x4000 + ch * 0x100);
            dma.SetAddrDstLow(0x5000 + ch * 0x100);
            dma.SetSize0(5);
            dma.SetSize1(2);
            dma.SetSize2(2);
            dma.SetSrcStep0(3);
            dma.SetDstStep0(3);
            dma.SetSrcStep1(9);
            dma.SetDstStep1(9);
            dma.SetSrcStep2(17);
            dma.SetDstStep2(17);
        }
        dma.ActivateChannel(c.channel);
        dma.SetAddrSrcLow((u16)c.src);
        dma.SetAddrSrcHigh((u16)(c.src >> 16));
        dma.SetAddrDstLow((u16)c.dst);
        dma.SetAddrDstHigh((u16)(c.dst >> 16));
        dma.SetSize0(c.size[0]);
        dma.SetSize1(c.size[1]);
        dma.SetSize2(c.size[2]);
        dma.SetSrcStep0(c.sstep[0]);
        dma.SetSrcStep1(c.sstep[1]);
        dma.SetSrcStep2(c.sstep[2]);
        dma.SetDstStep0(c.dstep[0]);
        dma.SetDstStep1(c.dstep[1]);
        dma.SetDstStep2(c.dstep[2]);
        dma.SetSrcSpace(c.sspace);
        dma.SetDstSpace(c.dspace);
        dma.SetDwordMode(c.dword);
        if (c.sspace == 7 || c.dspace == 7) {
            // AHBM channel 1 serves this DMA channel; channel 0 and 2 are bound to other DMA channels
            ahbm.SetDmaChannel(0, (u16)(1u << ((c.channel + 1) & 7)));
            // odd DMA channels share their AHBM channel with another DMA channel (a connection mask with two bits set)
            ahbm.SetDmaChannel(1, (u16)((1u << c.channel) | ((c.channel & 1) ? (1u << ((c.channel + 5) & 7)) : 0)));
            ahbm.SetDmaChannel(2, (u16)(1u << ((c.channel + 2) & 7)));
            ahbm.SetUnitSize(1, c.unit);
            ahbm.SetBurstSize(1, c.burst);
            ahbm.SetDirection(1, c.dspace == 7 ? 1 : 0);
            ahbm.SetUnitSize(0, 0);
            ahbm.SetUnitSize(2, 0);
        }
        int outcome = 0;
        Teakra::verif_mem_hook = &Machine::Hook;
        try {
            dma.SetZ(0x40C0); // start
        } catch (const Teakra::VerifAssertion& a) {
            outcome = 1;
            why = a.expression;
        } catch (int) {
            outcome = 2;
            why = Fmt("word address %X outside the 0x40000-word array", oob_addr);
        }
        Teakra::verif_mem_hook = nullptr;
        return outcome;
    }
    void UndoMemory() {
        for (size_t i = undo.size(); i-- > 0;) {
            mem.raw[undo[i].first * 2] = (u8)undo[i].second;
            mem.raw[undo[i].first * 2 + 1] = (u8)(undo[i].second >> 8);
        }
        undo.clear();
    }
};

inline std::string ShowLog(const std::vector<Access>& v) {
    std::string s = "[";
    for (size_t i = 0; i < v.size() && i < 12; ++i)
        s += Fmt("%X<-%X/%u ", v[i].addr, v[i].value, v[i].width);
    if (v.size() > 12)
        s += Fmt("... %zu total", v.size());
    return s + "]";
}

inline std::string Cls(const Cfg& c) {
    auto z = [](u16 v) { return v == 0 ? "0" : v == 1 ? "1" : "n"; };
    return Fmt("space=%u->%u,dword=%u,size=%s%s%s,burst=%u,ch=%u", c.sspace, c.dspace, c.dword, z(c.size[0]),
               z(c.size[1]), z(c.size[2]), c.burst, c.channel);
}

// history = transfers already performed on this machine since its last reset (empty: initial state)
inline void CheckOne(Machine& m, const Cfg& c, Result& res, std::unordered_set<u64>& digests,
                     const std::vector<Cfg>& history = {}) {
    RefMem rmem;
    std::string why;
    std::string hist_cls, hist_show, hist_replay;
    for (size_t i = 0; i < history.size(); ++i) {
        RefOut dummy;
        Reference(history[i], dummy, rmem);
        m.RunCfg(history[i], why, i == 0);
        hist_cls = "after-transfer-on-" + std::string(history[i].channel == c.channel ? "same" : "other") + "-channel:";
        hist_show += "after " + Show(history[i]) + " ";
        hist_replay += Replay(history[i]) + " ; ";
    }
    RefOut ref;
    Reference(c, ref, rmem);
    int outcome = m.RunCfg(c, why, history.empty());
    m.UndoMemory();
    ++res.evaluations;
    ++res.transitions;
    ++res.traces_validated;
    if (outcome != 0) {
        res.AddViolation(Fmt("c13:%s:", outcome == 1 ? "assert" : "oob") + hist_cls + Cls(c),
                         Fmt("transfer %s%s ended with %s (%s)", hist_show.c_str(), Show(c).c_str(),
                             outcome == 1 ? "a deliberate assertion" : "an out-of-bounds access",
                             why.c_str()),
                         hist_replay + Replay(c));
        return;
    }
    const char* what = nullptr;
    if (!(m.dsp_writes == ref.dsp_writes))
        what = "dsp-writes";
    else if (!(m.ext_reads == ref.ext_reads))
        what = "ext-reads";
    else if (!(m.ext_writes == ref.ext_writes))
        what = "ext-writes";
    else if (m.irq != 1)
        what = "irq-count";
    if (what) {
        res.AddViolation(Fmt("c13:%s:", what) + hist_cls + Cls(c),
                         Fmt("transfer %s%s: implementation dsp_writes=%s ext_reads=%s ext_writes=%s irq=%d; "
                             "reference dsp_writes=%s ext_reads=%s ext_writes=%s irq=1",
                             hist_show.c_str(), Show(c).c_str(), ShowLog(m.dsp_writes).c_str(), ShowLog(m.ext_reads).c_str(),
                             ShowLog(m.ext_writes).c_str(), m.irq, ShowLog(ref.dsp_writes).c_str(),
                             ShowLog(ref.ext_reads).c_str(), ShowLog(ref.ext_writes).c_str()),
                         hist_replay + Replay(c));
    }
    u64 h = Fnv(m.dsp_writes.data(), m.dsp_writes.size() * sizeof(Access));
    h = Fnv(m.ext_writes.data(), m.ext_writes.size() * sizeof(Access), h);
    digests.insert(h);
}

// The enumeration: index -> configuration (so that it can be sharded and reported exactly)
struct Space {
    bool thorough;
    std::vector<Cfg> specials; // channel / start-address / overlap / external families are generated eagerly
    std::vector<std::pair<Cfg, Cfg>> pairs; // histories: first transfer, then the transfer under test (no reset between)
    std::vector<u16> sizes{0, 1, 2, 3};
    std::vector<u16> ssteps, dsteps;
    Space(bool th) : thorough(th) {
        // quick: the product that used to be the thorough tier; thorough: one more size, more strides
        ssteps = th ? std::vector<u16>{0, 1, 2, 3, 5, 0x10, 0x100} : std::vector<u16>{0, 1, 2, 5, 0x10};
        dsteps = th ? std::vector<u16>{0, 1, 2, 5, 0x10, 0x41} : std::vector<u16>{0, 1, 2, 5, 0x10};
        if (th)
            main_sizes = {0, 1, 2, 3, 5};
    }
    std::vector<u16> main_sizes{0, 1, 2, 3};
    u64 MainCount() const {
        u64 n = main_sizes.size() * main_sizes.size() * main_sizes.size();
        n *= ssteps.size() * ssteps.size() * ssteps.size();
        n *= dsteps.size() * dsteps.size() * dsteps.size();
        return n * 2; // word / dword
    }
    Cfg Main(u64 idx) const {
        Cfg c{};
        c.dword = idx & 1;
        idx >>= 1;
        for (int i = 0; i < 3; ++i) {
            c.size[i] = main_sizes[idx % main_sizes.size()];
            idx /= main_sizes.size();
        }
        for (int i = 0; i < 3; ++i) {
            c.sstep[i] = ssteps[idx % ssteps.size()];
            idx /= ssteps.size();
        }
        for (int i = 0; i < 3; ++i) {
            c.dstep[i] = dsteps[idx % dsteps.size()];
            idx /= dsteps.size();
        }
        c.sspace = c.dspace = 0;
        c.channel = 0;
        c.src = 0x0100;
        c.dst = 0x4000;
        c.unit = 1;
        c.burst = 0;
        return c;
    }
    void BuildPairs() {
        // first transfers chosen to leave every counter/terminal-state combination behind
        std::vector<Cfg> firsts;
        for (u16 dw = 0; dw < 2; ++dw)
            for (auto sz : std::vector<std::array<u16, 3>>{{4, 1, 1}, {2, 2, 3}, {3, 0, 2}, {0, 0, 0}, {1, 3, 1}, {5, 2, 2}}) {
                Cfg c{};
                c.size[0] = sz[0], c.size[1] = sz[1], c.size[2] = sz[2];
                c.sstep[0] = 1, c.sstep[1] = 2, c.sstep[2] = 3;
                c.dstep[0] = 2, c.dstep[1] = 1, c.dstep[2] = 5;
                c.dword = dw;
                c.src = 0x1000;
                c.dst = 0x1800;
                c.unit = 1;
                firsts.push_back(c);
            }
        std::vector<u16> st{1, 2};
        for (const Cfg& f0 : firsts)
            for (int same = 0; same < 2; ++same)
                for (u16 ch : {(u16)0, (u16)2, (u16)7})
                    for (u16 dw = 0; dw < 2; ++dw)
                        for (u16 s0 : sizes)
                            for (u16 s1 : sizes)
                                for (u16 s2 : sizes)
                                    for (u16 a : st) {
                                        Cfg f = f0;
                                        f.channel = same ? ch : (u16)((ch + 3) & 7);
                                        Cfg c{};
                                        c.size[0] = s0, c.size[1] = s1, c.size[2] = s2;
                                        c.sstep[0] = a, c.sstep[1] = 3, c.sstep[2] = 7;
                                        c.dstep[0] = 1, c.dstep[1] = 2, c.dstep[2] = 9;
                                        c.dword = dw;
                                        c.channel = ch;
                                        c.src = 0x1800; // reads what the first transfer wrote
                                        c.dst = 0x2000;
                                        c.unit = 1;
                                        pairs.push_back({f, c});
                                    }
        // external destination with bursts, twice in a row on the same AHBM channel (burst queue state)
        for (u16 burst : {(u16)0, (u16)1, (u16)2})
            for (int dir = 0; dir < 2; ++dir)
                for (u16 dw = 0; dw < 2; ++dw) {
                    Cfg c{};
                    u32 bl = burst == 0 ? 1 : burst == 1 ? 4 : 8;
                    c.size[0] = (u16)(dw ? 2 * bl * 2 : bl * 2), c.size[1] = 1, c.size[2] = 1;
                    u16 ub = dw ? 4 : 2;
                    u16* es = dir ? c.dstep : c.sstep;
                    u16* ds = dir ? c.sstep : c.dstep;
                    es[0] = es[1] = es[2] = ub;
                    ds[0] = ds[1] = ds[2] = dw ? 2 : 1;
                    c.dword = dw, c.unit = dw ? 2 : 1, c.burst = burst;
                    c.sspace = dir ? 0 : 7, c.dspace = dir ? 7 : 0;
                    (dir ? c.dst : c.src) = 0x20000200;
                    (dir ? c.src : c.dst) = 0x0400;
                    c.channel = 1;
                    Cfg d = c;
                    (dir ? d.dst : d.src) = 0x20000400;
                    pairs.push_back({c, d});
                }
    }
    void BuildSpecials() {
        // (a) every channel x start addresses (incl. a bank crossing) x overlap distances, reduced step set
        std::vector<u16> st{0, 1, 2};
        for (u16 ch = 0; ch < 8; ++ch)
            for (u32 src : {0x0100u, 0xFFF0u, 0x1FF00u})
                for (int dist : {0, 1, 2, -0x80})
                    for (u16 dw = 0; dw < 2; ++dw)
                        for (u16 s0 : sizes)
                            for (u16 s1 : sizes)
                                for (u16 s2 : {(u16)0, (u16)2})
                                    for (u16 a : st)
                                        for (u16 b : st) {
                                            Cfg c{};
                                            c.size[0] = s0, c.size[1] = s1, c.size[2] = s2;
                                            c.sstep[0] = a, c.sstep[1] = 2, c.sstep[2] = 5;
                                            c.dstep[0] = b, c.dstep[1] = 1, c.dstep[2] = 3;
                                            c.dword = dw;
                                            c.channel = ch;
                                            c.src = src;
                                            c.dst = src + dist;
                                            c.unit = 1;
                                            specials.push_back(c);
                                        }
        // (b) external memory on one side: (word,U16) and (dword,U32), naturally aligned
        for (u16 ch : {(u16)0, (u16)3, (u16)7})
            for (int dir = 0; dir < 2; ++dir)       // 0: ext->DSP, 1: DSP->ext
                for (u16 dw = 0; dw < 2; ++dw) {
                    u16 unit_bytes = dw ? 4 : 2;
                    for (u32 ext_base : {0x20000000u, 0x1FFFFFF0u, 0x0000FFFCu})
                        for (u16 s0 : sizes)
                            for (u16 s1 : sizes)
                                for (u16 s2 : sizes)
                                    for (u16 e0 : {unit_bytes, (u16)(unit_bytes * 3), (u16)0x8000, (u16)0xFFFC})
                                        for (u16 e1 : {unit_bytes, (u16)0x10, (u16)0xFFFC})
                                            for (u16 d0 : {(u16)1, (u16)2}) {
                                                Cfg c{};
                                                c.size[0] = s0, c.size[1] = s1, c.size[2] = s2;
                                                c.dword = dw;
                                                c.channel = ch;
                                                c.unit = dw ? 2 : 1;
                                                c.burst = 0;
                                                u16* es = dir ? c.dstep : c.sstep;
                                                u16* ds = dir ? c.sstep : c.dstep;
                                                es[0] = e0, es[1] = e1, es[2] = (u16)(unit_bytes * 5);
                                                ds[0] = d0 * (dw ? 2 : 1), ds[1] = 3 * (dw ? 2 : 1), ds[2] = 0x20;
                                                c.sspace = dir ? 0 : 7;
                                                c.dspace = dir ? 7 : 0;
                                                (dir ? c.dst : c.src) = ext_base;
                                                (dir ? c.src : c.dst) = 0x0200;
                                                specials.push_back(c);
                                            }
                    // bursts: contiguous, step == unit size, element count a multiple of the burst
                    for (u16 burst : {(u16)1, (u16)2}) {
                        u32 bl = burst == 1 ? 4 : 8;
                        for (u32 total : {bl, 2 * bl, 3 * bl})
                            for (int shape = 0; shape < 3; ++shape) {
                                Cfg c{};
                                u32 n0 = shape == 0 ? total : shape == 1 ? total / 2 : total / 4;
                                u32 n1 = shape == 0 ? 1 : 2, n2 = shape == 2 ? 2 : 1;
                                if (n0 * n1 * n2 != total || n0 == 0)
                                    continue;
                                c.size[0] = (u16)(dw ? n0 * 2 : n0), c.size[1] = (u16)n1, c.size[2] = (u16)n2;
                                c.dword = dw;
                                c.channel = ch;
                                c.unit = dw ? 2 : 1;
                                c.burst = burst;
                                u16* es = dir ? c.dstep : c.sstep;
                                u16* ds = dir ? c.sstep : c.dstep;
                                es[0] = es[1] = es[2] = unit_bytes;
                                ds[0] = ds[1] = ds[2] = dw ? 2 : 1;
                                c.sspace = dir ? 0 : 7;
                                c.dspace = dir ? 7 : 0;
                                // the burst may start at any unit-aligned address, not only at a multiple of the burst length
                                for (u32 skew : {0u, 1u, 3u}) {
                                    (dir ? c.dst : c.src) = 0x20000100 + skew * unit_bytes;
                                    (dir ? c.src : c.dst) = 0x0300;
                                    specials.push_back(c);
                                }
                            }
                    }
                }
        // (c) long transfers: element counts at and beyond 2^16 (the size registers are 16 bits each, their product is not), contiguous
        // and compact (a zero step keeps the addresses inside the data space)
        struct L { u16 s0, s1, s2; };
        for (u16 dw = 0; dw < 2; ++dw)
            for (int compact = 0; compact < 2; ++compact)
                for (L l : {L{256, 256, 1}, L{256, 257, 1}, L{0x4000, 5, 1}, L{0x1000, 4, 5}, L{0xFFFF, 1, 1}, L{3, 0x5556, 1}, L{2, 0x8001, 1},
                            L{1, 1, 0xFFFF}, L{1, 0xFFFF, 2}, L{0, 0x101, 0x100}}) {
                    Cfg c{};
                    u32 mul = dw ? 2 : 1;
                    c.size[0] = (u16)std::min<u32>(l.s0 * mul, 0xFFFE), c.size[1] = l.s1, c.size[2] = l.s2;
                    u64 words = (u64)std::max<u32>(c.size[0], 1) * std::max<u32>(l.s1, 1) * std::max<u32>(l.s2, 1);
                    if (!compact && words > 0x1FF00)
                        continue;
                    c.dword = dw, c.channel = dw ? 6 : 1, c.unit = 1;
                    for (int i = 0; i < 3; ++i)
                        c.sstep[i] = c.dstep[i] = (u16)(compact ? (i == 1 ? mul : 0) : mul);
                    if (compact && l.s1 <= 1)
                        c.sstep[2] = c.dstep[2] = (u16)mul;
                    c.src = 0x40, c.dst = 0;
                    // keep every address inside the data space (upper bound of the walk)
                    u64 n0 = std::max<u32>(c.size[0], 1), n1 = std::max<u32>(l.s1, 1), n2 = std::max<u32>(l.s2, 1);
                    u64 span = (n0 - 1) * c.sstep[0] * n1 * n2 + (n1 - 1) * c.sstep[1] * n2 + (n2 - 1) * c.sstep[2];
                    if (span + 0x44 > 0x1FF00)
                        continue;
                    specials.push_back(c);
                }
    }
};

inline bool ParseCfg(const std::string& r, Cfg& c) {
    unsigned v[17];
    if (std::sscanf(r.c_str(), " c13 %u %u %u %u %u %u %u %u %u %u %u %u %u %u %u %u %u", &v[0], &v[1], &v[2],
                    &v[3], &v[4], &v[5], &v[6], &v[7], &v[8], &v[9], &v[10], &v[11], &v[12], &v[13], &v[14],
                    &v[15], &v[16]) != 17)
        return false;
    for (int i = 0; i < 3; ++i)
        c.size[i] = v[i], c.sstep[i] = v[3 + i], c.dstep[i] = v[6 + i];
    c.dword = v[9], c.sspace = v[10], c.dspace = v[11], c.channel = v[12], c.src = v[13], c.dst = v[14],
    c.unit = v[15], c.burst = v[16];
    return true;
}
inline int RunReplay(const std::string& r, Result& res) {
    std::vector<Cfg> seq;
    size_t pos = 0;
    while (pos < r.size()) {
        size_t q = r.find(" ; ", pos);
        std::string part = r.substr(pos, q == std::string::npos ? std::string::npos : q - pos);
        Cfg c{};
        if (!ParseCfg(part, c))
            return 2;
        seq.push_back(c);
        if (q == std::string::npos)
            break;
        pos = q + 3;
    }
    if (seq.empty())
        return 2;
    Cfg c = seq.back();
    seq.pop_back();
    Machine m;
    std::unordered_set<u64> d;
    CheckOne(m, c, res, d, seq);
    std::printf("replay (%zu earlier transfers) %s: dsp_writes=%s ext_reads=%s ext_writes=%s irq=%d\n", seq.size(),
                Show(c).c_str(), ShowLog(m.dsp_writes).c_str(), ShowLog(m.ext_reads).c_str(),
                ShowLog(m.ext_writes).c_str(), m.irq);
    for (auto& x : res.violations)
        std::printf("  %s\n    %s\n", x.key.c_str(), x.text.c_str());
    return res.violations.empty() ? 0 : 1;
}

inline void Run(const Args& args, Result& res) {
    res.property = "C13";
    Space sp(args.thorough());
    sp.BuildSpecials();
    sp.BuildPairs();
    u64 main = sp.MainCount(), nsp = sp.specials.size(), total = main + nsp + sp.pairs.size();
    RunPool(args.jobs,
            [&](int idx, int cnt, WorkerBlock& blk, Result& local) {
                QuietStdout quiet;
                Machine m;
                std::unordered_set<u64> digests;
                for (u64 i = idx; i < total; i += cnt) {
                    if (i >= main + nsp) {
                        auto& pr = sp.pairs[i - main - nsp];
                        CheckOne(m, pr.second, local, digests, {pr.first});
                        continue;
                    }
                    Cfg c = i < main ? sp.Main(i) : sp.specials[i - main];
                    std::snprintf(blk.current, sizeof(blk.current), "%s", Replay(c).c_str());
                    CheckOne(m, c, local, digests);
                }
                blk.evaluations = local.evaluations;
                blk.transitions = local.transitions;
                blk.traces = local.traces_validated;
                blk.distinct = digests.size();
                blk.states = local.evaluations;
            },
            res);
    res.rule = "every configuration of the declared product is started once on a real Dma+Ahbm+SharedMemory "
               "(other channels hold decoy configurations); oracle = nested-loop reference: exact ordered DSP "
               "write log (memory observer), exact ordered external read and write logs, interrupt count 1; "
               "distinct = distinct write-log digests (summed over 16 shards)";
    res.bound = Fmt("sizes %s x source steps %s x destination steps %s x word/dword DSP->DSP "
                    "(%llu configs) + %zu channel/start/overlap/bank-crossing/external/burst/long (up to 131070 elements, beyond 2^16) configurations from the "
                    "reset state + %zu two-transfer histories (same/other channel, no reset in between)",
                    args.thorough() ? "{0,1,2,3,5}^3" : "{0..3}^3", args.thorough() ? "{0,1,2,3,5,0x10,0x100}^3" : "{0,1,2,5,0x10}^3",
                    args.thorough() ? "{0,1,2,5,0x10,0x41}^3" : "{0,1,2,5,0x10}^3", (unsigned long long)main,
                    sp.specials.size(), sp.pairs.size());
    res.assumptions = {"addresses stay inside the 0x20000-word data space (larger strides belong to C18)",
                       "external side: naturally aligned (word,U16)/(dword,U32) units; bursts only with step == unit "
                       "size and whole bursts",
                       "a configuration = one state of the model; states counts configurations"};
    res.AddSample(Show(sp.Main(123457 % main)));
    res.AddSample(Show(sp.specials[sp.specials.size() / 2]));
    res.AddSample(Show(sp.specials.back()));
}
} // namespace c13
