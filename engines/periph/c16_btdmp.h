// C16 — explicit-state BFS (to fixpoint) over a real Teakra::Btdmp with a reference FIFO + frame clock.
#pragma once
#include <memory>
#include <deque>
#include "../common/verif.h"
#include "../common/adapters.h"
#include "btdmp.h"
#include "crash.h"

namespace c16 {
using namespace verif;

// Canonical state.  Queued words are consecutive sequence numbers (Send always appends the next
// one), so the queue is (first, size); relabelling `first` to `base` merges only states whose
// futures are identical up to that relabelling (the code never looks at the values).
struct BS {
    u16 period, timer, enable, empty, full, size;
    bool operator==(const BS& o) const {
        return std::memcmp(this, &o, sizeof(BS)) == 0;
    }
};
struct BSHash {
    size_t operator()(const BS& s) const {
        return (size_t)Fnv(&s, sizeof(BS));
    }
};
inline std::string Show(const BS& s) {
    return Fmt("{period=%u timer=%u enable=%u empty=%u full=%u queued=%u}", s.period, s.timer, s.enable,
               s.empty, s.full, s.size);
}

struct Obs { // what one event made observable
    std::vector<std::array<std::int16_t, 2>> frames;
    int irq = 0;
    bool operator==(const Obs& o) const {
        return frames == o.frames && irq == o.irq;
    }
};
inline std::string Show(const Obs& o) {
    std::string s = Fmt("irq=%d frames(%zu)=[", o.irq, o.frames.size());
    for (size_t i = 0; i < o.frames.size() && i < 12; ++i)
        s += Fmt("(%d,%d)", o.frames[i][0], o.frames[i][1]);
    return s + (o.frames.size() > 12 ? "...]" : "]");
}

// full concrete state incl. queue contents, used for exact comparison
struct Full {
    BS b;
    std::deque<u16> q;
    bool operator==(const Full& o) const {
        return b == o.b && q == o.q;
    }
};
inline std::string Show(const Full& f) {
    std::string s = Show(f.b) + " q=[";
    for (u16 v : f.q)
        s += Fmt("%04X ", v);
    return s + "]";
}

struct Ref { // the statement
    static void Tick(Full& s, Obs& o) {
        if (!s.b.enable)
            return;
        ++s.b.timer;
        if (s.b.timer >= s.b.period) {
            s.b.timer = 0;
            std::array<std::int16_t, 2> fr{0, 0};
            for (int i = 0; i < 2; ++i) {
                if (!s.q.empty()) {
                    fr[i] = (std::int16_t)s.q.front();
                    s.q.pop_front();
                    s.b.full = 0;
                    s.b.empty = s.q.empty();
                    if (s.q.empty())
                        ++o.irq; // empty interrupt exactly when a pop empties the queue
                }
            }
            o.frames.push_back(fr);
        }
        s.b.size = (u16)s.q.size();
    }
    // k cycles at once, closed form over the frame clock (used for large k; agrees with k x Tick)
    static void Advance(Full& s, Obs& o, u64 k) {
        if (!s.b.enable || k == 0)
            return;
        u64 total = (u64)s.b.timer + k;
        u64 frames = total / s.b.period;
        s.b.timer = (u16)(total % s.b.period);
        for (u64 f = 0; f < frames; ++f) {
            std::array<std::int16_t, 2> fr{0, 0};
            for (int i = 0; i < 2; ++i)
                if (!s.q.empty()) {
                    fr[i] = (std::int16_t)s.q.front();
                    s.q.pop_front();
                    s.b.full = 0;
                    s.b.empty = s.q.empty();
                    if (s.q.empty())
                        ++o.irq;
                }
            o.frames.push_back(fr);
        }
        s.b.size = (u16)s.q.size();
    }
    static void Send(Full& s, u16 v) {
        if (s.q.size() == 16)
            return; // dropped
        s.q.push_back(v);
        s.b.empty = 0;
        s.b.full = s.q.size() == 16;
        s.b.size = (u16)s.q.size();
    }
    static void Flush(Full& s) {
        s.q.clear();
        s.b.empty = 1;
        s.b.full = 0;
        s.b.size = 0;
    }
};

enum { EvTick, EvSend, EvFlush, EvEnable, EvSkip, EvReset };
struct Event {
    int kind;
    u64 arg;
};
inline std::string Show(const Event& e) {
    static const char* n[] = {"Tick", "Send", "Flush", "Enable", "Skip", "Reset+SetPeriod"};
    return e.kind == EvTick || e.kind == EvFlush || e.kind == EvSend || e.kind == EvReset
               ? std::string(n[e.kind])
               : Fmt("%s(%llu)", n[e.kind], (unsigned long long)e.arg);
}

struct Engine {
    // every Load() constructs a fresh device: state beyond the fields loaded here starts from the constructor's value
    struct Rig {
        Teakra::CoreTiming core_timing;
        Teakra::Btdmp dev{core_timing};
    };
    std::unique_ptr<Rig> rig = std::make_unique<Rig>();
#define dev rig->dev
    Obs obs;
    Result& res;
    u16 base;
    bool large = false; // large-period layer: sparse Skip(k) alphabet, depth-bounded
    bool with_callback = true;
    std::set<u64> digests;

    Engine(Result& r, u16 base) : res(r), base(base) {}
    Full Concrete(const BS& b) const {
        Full f;
        f.b = b;
        for (u16 i = 0; i < b.size; ++i)
            f.q.push_back((u16)(base + i));
        return f;
    }
    void Load(const Full& f) {
        rig = std::make_unique<Rig>();
        dev.SetInterruptHandler([this]() { ++obs.irq; });
        if (with_callback) // without a listener (the second port of a Teakra never has one) frames are unobservable, everything else is not
            dev.SetAudioCallback([this](std::array<std::int16_t, 2> fr) { obs.frames.push_back(fr); });
        verif_adapt::BtdmpView v;
        v.clock_config = 0, v.period = f.b.period, v.timer = f.b.timer, v.enable = f.b.enable, v.empty = f.b.empty != 0, v.full = f.b.full != 0;
        v.queue = f.q;
        verif_adapt::WriteBtdmp(dev, v);
        obs = Obs();
    }
    Full Save() {
        Full f;
        const verif_adapt::BtdmpView v = verif_adapt::ReadBtdmp(dev);
        f.b.period = v.period, f.b.timer = v.timer, f.b.enable = v.enable, f.b.empty = v.empty, f.b.full = v.full;
        f.q = v.queue;
        f.b.size = (u16)f.q.size();
        return f;
    }
    static std::string Cls(const BS& s) {
        const char* q = s.size == 0 ? "0" : s.size == 1 ? "1" : s.size == 2 ? "2" : s.size == 16 ? "16"
                                                                          : (s.size & 1) ? "odd" : "even";
        return Fmt("enable=%u,queued=%s,phase=%s", s.enable, q,
                   s.timer + 1 >= s.period ? "last" : "early");
    }
    std::string Replay(const BS& s, const Event& e) const {
        return Fmt("c16 %u %u %u %u %u %u base %u ev %d %llu%s", s.period, s.timer, s.enable, s.empty,
                   s.full, s.size, base, e.kind, (unsigned long long)e.arg, with_callback ? "" : " nocb");
    }

    std::vector<Event> Enabled(const BS& s) {
        std::vector<Event> ev{{EvTick, 0}, {EvSend, 0}, {EvFlush, 0}, {EvEnable, 0}, {EvEnable, 1}, {EvReset, 0}};
        Load(Concrete(s));
        u64 h = dev.GetMaxSkip();
        if (large) {
            // sparse but boundary-complete set of k: frame boundaries, the horizon and its
            // neighbours, and the 16-bit wrap of the frame clock
            u64 p = s.period, t = s.timer;
            std::set<u64> ks{0, 1, 2, 3, p - t - 1, p - t, p - t + 1, p, p + 1, 2 * p, 2 * p - t, 3 * p - t - 1,
                             65535 - t, 65536 - t, 65537 - t, 70000};
            if (h != ~0ull) {
                ks.insert(h);
                ks.insert(h / 2);
                if (h)
                    ks.insert(h - 1);
            } else {
                ks.insert(100000);
                ks.insert(1u << 20);
            }
            for (u64 k : ks)
                if (k <= h && k <= (1u << 20))
                    ev.push_back({EvSkip, k});
            return ev;
        }
        u64 lim = std::min<u64>(h, 2 * s.period + 1);
        for (u64 k = 0; k <= lim; ++k)
            ev.push_back({EvSkip, k});
        if (h != ~0ull && h > lim)
            ev.push_back({EvSkip, h});
        if (h == ~0ull) // nothing bounds the skip (e.g. an enabled port with an empty queue sends silence): many frames in one skip
            for (u64 k : {(u64)(9 * s.period - s.timer), (u64)(9 * s.period), (u64)(17 * s.period + 1), (u64)(40 * s.period)})
                if (k > lim)
                    ev.push_back({EvSkip, k});
        return ev;
    }

    BS Step(const BS& s, const Event& e, bool& ok) {
        const size_t viol_before = res.violation_events;
        ok = true;
        Full start = Concrete(s);
        Load(start);
        Full ref = start;
        Obs ref_obs;
        u16 next = (u16)(base + s.size);
        try {
            switch (e.kind) {
            case EvTick:
                dev.Tick();
                Ref::Tick(ref, ref_obs);
                break;
            case EvSend:
                dev.Send(next);
                Ref::Send(ref, next);
                break;
            case EvFlush:
                dev.SetTransmitFlush(1);
                Ref::Flush(ref);
                break;
            case EvEnable:
                dev.SetTransmitEnable((u16)e.arg);
                ref.b.enable = (u16)e.arg;
                break;
            case EvReset:
                // Reset from any reached state (words still queued, mid-frame, full): the port is the freshly reset one - nothing
                // queued, flags empty/not full, disabled, frame clock 0; the period is programmed again so the search stays in
                // this period's state space
                dev.Reset();
                dev.SetTransmitPeriod(s.period);
                Ref::Flush(ref);
                ref.b.enable = 0, ref.b.timer = 0;
                break;
            case EvSkip:
                dev.Skip(e.arg);
                if (e.arg <= 64) {
                    for (u64 i = 0; i < e.arg; ++i)
                        Ref::Tick(ref, ref_obs);
                } else {
                    Ref::Advance(ref, ref_obs, e.arg);
                }
                break;
            }
        } catch (const Teakra::VerifAssertion& a) {
            res.AddViolation(Fmt("c16:assert:%s:%s:", e.kind == EvSkip ? "Skip" : Show(e).c_str(), a.expression) + Cls(s),
                             Fmt("deliberate assertion '%s' reached by %s in %s", a.expression,
                                 Show(e).c_str(), Show(s).c_str()),
                             Replay(s, e));
            ok = false;
            return s;
        }
        Full got = Save();
        Obs got_obs = obs;
        ++res.transitions;
        ++res.traces_validated;
        if (!with_callback)
            ref_obs.frames.clear();
        if (!(got == ref) || !(got_obs == ref_obs)) {
            std::string k = e.kind == EvSkip ? (e.arg == 0 ? "Skip(0)" : "Skip(k>0)") : Show(e);
            res.AddViolation("c16:model:" + k + ":" + Cls(s),
                             Fmt("%s from %s: implementation -> %s %s; statement model -> %s %s",
                                 Show(e).c_str(), Show(start).c_str(), Show(got).c_str(),
                                 Show(got_obs).c_str(), Show(ref).c_str(), Show(ref_obs).c_str()),
                             Replay(s, e));
        }
        if (e.kind == EvReset) {
            // behavioural probe on the very object that was reset (state the fields above do not show would surface here): the
            // same short script on it and on a device that was only constructed, reset and given the period
            auto script = [&]() {
                dev.SetTransmitEnable(1);
                for (u16 w = 0; w < 3; ++w)
                    dev.Send((u16)(0x4000 + w));
                for (u32 i = 0; i < 2u * std::min<u32>(s.period, 64) + 1; ++i)
                    dev.Tick();
                for (u16 w = 0; w < 17; ++w)
                    dev.Send((u16)(0x5000 + w));
                dev.Skip(std::min<u64>(dev.GetMaxSkip(), 3 * (u64)s.period));
            };
            obs = Obs();
            std::string bad;
            try {
                script();
            } catch (const Teakra::VerifAssertion& a) {
                bad = std::string("assertion ") + a.expression;
            }
            Full used = Save();
            Obs used_obs = obs;
            Full fresh_state = start;
            fresh_state.q.clear();
            fresh_state.b = BS{s.period, 0, 0, 1, 0, 0};
            Load(fresh_state);
            dev.Reset();
            dev.SetTransmitPeriod(s.period);
            obs = Obs();
            try {
                script();
            } catch (const Teakra::VerifAssertion&) {
            }
            Full fresh = Save();
            ++res.evaluations;
            if (!bad.empty() || !(used == fresh) || !(used_obs == obs))
                res.AddViolation("c16:reset-probe:" + Cls(s),
                                 Fmt("after Reset from %s the port behaves differently from a freshly reset one: %s %s %s vs %s %s", Show(start).c_str(),
                                     bad.c_str(), Show(used).c_str(), Show(used_obs).c_str(), Show(fresh).c_str(), Show(obs).c_str()),
                                 Replay(s, e));
        }
        if (e.kind == EvSkip && e.arg <= 200000) {
            // horizon never skips over the empty interrupt: k real Ticks must not fire it
            Load(start);
            try {
                for (u64 i = 0; i < e.arg; ++i)
                    dev.Tick();
            } catch (const Teakra::VerifAssertion&) {
            }
            Full ticked = Save();
            ++res.evaluations;
            if (!(ticked == got) || !(obs.frames == got_obs.frames) || obs.irq != 0) {
                res.AddViolation(std::string("c16:skip-vs-ticks:") + (e.arg == 0 ? "k=0:" : "k>0:") + Cls(s),
                                 Fmt("Skip(%llu) from %s gives %s %s but %llu x Tick gives %s %s",
                                     (unsigned long long)e.arg, Show(start).c_str(), Show(got).c_str(),
                                     Show(got_obs).c_str(), (unsigned long long)e.arg,
                                     Show(ticked).c_str(), Show(obs).c_str()),
                                 Replay(s, e));
            }
        }
        // canonical successor: relabel the queue so that its first element is `base` again; the
        // queue must be a run of consecutive numbers for the relabelling to be exact
        for (size_t i = 1; i < got.q.size(); ++i)
            if ((u16)(got.q[i] - got.q[0]) != i) {
                res.AddViolation("c16:queue-not-consecutive:" + Cls(s),
                                 "queue content is not a consecutive run after " + Show(e) + ": " + Show(got),
                                 Replay(s, e));
                ok = false;
            }
        if (!(got.b == s) || !got_obs.frames.empty() || got_obs.irq)
            digests.insert(Fnv(&got.b, sizeof(BS), Mix(e.kind * 131 + e.arg) ^ Fnv(&s, sizeof(BS))));
        // a transition that violated the property is reported and not expanded: the implementation's successor may lie outside
        // the (finite) state space of the statement and would make the search diverge
        if (res.violation_events != viol_before)
            ok = false;
        return got.b;
    }

    void Explore(u16 period, int max_depth = 1000000) {
        BS init{period, 0, 0, 1, 0, 0};
        std::unordered_set<BS, BSHash> seen{init};
        std::vector<BS> frontier{init}, next;
        int depth = 0;
        while (!frontier.empty() && depth < max_depth) {
            next.clear();
            for (auto& s : frontier)
                for (auto& e : Enabled(s)) {
                    bool ok;
                    BS n = Step(s, e, ok);
                    ++res.evaluations;
                    if (ok && seen.insert(n).second)
                        next.push_back(n);
                }
            frontier.swap(next);
            ++depth;
        }
        res.states += seen.size();
        res.Extra(Fmt("%speriod%u_base%04X_states", large ? "L2_" : "", period, base), seen.size());
        res.Extra(Fmt("%speriod%u_base%04X_depth", large ? "L2_" : "", period, base), depth);
    }

    // L3: the port behind CoreTiming (the way the interpreter's idle fast-forward drives it): CoreTiming::Skip(budget) must equal
    // that many CoreTiming::Tick - same frames in the same order, same interrupts, same state - also when the port reports an
    // infinite horizon (enabled with an empty queue it still owes one silent frame per period)
    void CoreTimingLayer() {
        for (u16 period : {(u16)1, (u16)2, (u16)3, (u16)5, (u16)8})
            for (u16 timer = 0; timer < period; ++timer)
                for (u16 enable = 0; enable < 2; ++enable)
                    for (u16 fill : {(u16)0, (u16)1, (u16)2, (u16)3, (u16)15, (u16)16})
                        for (u64 budget : {0ull, 1ull, 2ull, 3ull, 7ull, 20ull}) {
                            BS b{period, timer, enable, (u16)(fill == 0), (u16)(fill == 16), fill};
                            Full f = Concrete(b);
                            Load(f);
                            u64 ticks = 0;
                            std::string bad;
                            try {
                                ticks = rig->core_timing.Skip(budget);
                            } catch (const Teakra::VerifAssertion& a) {
                                bad = std::string("assertion ") + a.expression;
                            }
                            Full got = Save();
                            Obs got_obs = obs;
                            ++res.transitions, ++res.traces_validated, ++res.evaluations;
                            if (bad.empty() && ticks > budget)
                                bad = Fmt("returned %llu cycles for a budget of %llu", (unsigned long long)ticks, (unsigned long long)budget);
                            if (bad.empty()) {
                                Load(f);
                                for (u64 i = 0; i < ticks; ++i)
                                    rig->core_timing.Tick();
                                Full ticked = Save();
                                if (!(ticked.b == got.b) || ticked.q != got.q || !(obs == got_obs))
                                    bad = Fmt("Skip -> %s %s ; %llu x Tick -> %s %s", Show(got).c_str(), Show(got_obs).c_str(), (unsigned long long)ticks, Show(ticked).c_str(), Show(obs).c_str());
                            }
                            digests.insert(Fnv(&got.b, sizeof(BS), Mix(budget * 31 + ticks)));
                            if (!bad.empty())
                                res.AddViolation("c16:core-timing-skip:" + Cls(b), Fmt("CoreTiming::Skip(%llu) from %s: %s", (unsigned long long)budget, Show(f).c_str(), bad.c_str()),
                                                 Fmt("c16ct %u %u %u %u %llu base %u", period, timer, enable, fill, (unsigned long long)budget, base));
                        }
    }
};

#undef dev

inline int RunReplay(const std::string& r, Result& res) {
    {
        unsigned p, t, en, fill, b;
        unsigned long long budget;
        if (std::sscanf(r.c_str(), "c16ct %u %u %u %u %llu base %u", &p, &t, &en, &fill, &budget, &b) == 6) {
            Engine eng(res, (u16)b);
            eng.CoreTimingLayer();
            std::vector<verif::Violation> keep;
            for (auto& v : res.violations)
                if (v.replay == r)
                    keep.push_back(v);
            res.violations = keep;
            for (auto& v : res.violations)
                std::printf("  %s\n    %s\n", v.key.c_str(), v.text.c_str());
            return res.violations.empty() ? 0 : 1;
        }
    }
    unsigned a[6], base;
    int kind;
    unsigned long long arg;
    if (std::sscanf(r.c_str(), "c16 %u %u %u %u %u %u base %u ev %d %llu", &a[0], &a[1], &a[2], &a[3],
                    &a[4], &a[5], &base, &kind, &arg) != 9)
        return 2;
    BS s{(u16)a[0], (u16)a[1], (u16)a[2], (u16)a[3], (u16)a[4], (u16)a[5]};
    Engine eng(res, (u16)base);
    eng.with_callback = r.find(" nocb") == std::string::npos;
    bool ok;
    BS n = eng.Step(s, Event{kind, arg}, ok);
    std::printf("replay: %s --%s--> %s\n", Show(s).c_str(), Show(Event{kind, arg}).c_str(),
                Show(n).c_str());
    for (auto& v : res.violations)
        std::printf("  %s\n    %s\n", v.key.c_str(), v.text.c_str());
    return res.violations.empty() ? 0 : 1;
}

inline void Run(const Args& args, Result& res) {
    res.property = "C16";
    res.rule =
        "BFS to fixpoint over a real Teakra::Btdmp per (period, value labelling); state = period, frame "
        "clock, enable, empty/full flags, queue (consecutive sequence numbers, relabelled to start at "
        "base); events Tick, Send(next), Flush, Enable(0/1), Reset (followed by programming the period again; state compared with the reset state and a behavioural probe against a fresh port), Skip(k) for every k<=min(horizon,2*period+1) (and, where the horizon is unbounded, skips of 9, 17 and 40 periods) "
        "and k=horizon; every transition compared with the reference FIFO/frame-clock model (frames, "
        "flags, interrupt count, queue content) and Skip(k) with k real Ticks; the port behind CoreTiming (Skip(budget) vs that many Ticks); non-trivial = transition "
        "that changes state or emits a frame/interrupt";
    std::vector<u16> periods = args.thorough() ? std::vector<u16>{1, 2, 3, 4, 5, 6, 7, 8, 9, 12, 16, 17}
                                               : std::vector<u16>{1, 2, 3, 4, 5, 7, 8};
    std::vector<u16> bases = {1, 0x7FF8};
    int large_depth = args.thorough() ? 8 : 6;
    u64 dist = 0;
    for (u16 b : bases) {
        Engine eng(res, b);
        for (u16 p : periods)
            eng.Explore(p);
        // L2: large periods (default 4096 and values for which clock+k crosses 2^16), sparse Skip alphabet
        eng.large = true;
        for (u16 p : {(u16)4096, (u16)20000, (u16)0x8001, (u16)0xFFFF})
            eng.Explore(p, large_depth);
        eng.large = false;
        eng.CoreTimingLayer();
        dist += eng.digests.size();
    }
    {
        // the same machine without an audio listener (how the second port of a Teakra runs): frames are not observable, the
        // period clock, the flags, the queue, the empty interrupt and Skip(k) == k cycles are
        Engine eng(res, bases[0]);
        eng.with_callback = false;
        for (u16 p : {(u16)1, (u16)2, (u16)3, (u16)5})
            eng.Explore(p);
        dist += eng.digests.size();
    }
    res.distinct_nontrivial = dist;
    res.bound = Fmt("L1: complete reachable state set for each of %zu small periods x 2 value labellings, queue fills "
                    "0..16, every k up to the horizon; L2: periods 4096/20000/0x8001/0xFFFF to depth %d with Skip(k) at "
                    "frame boundaries, horizon, horizon-1, horizon/2 and around the 16-bit wrap of clock+k",
                    periods.size(), large_depth);
    res.assumptions = {
        "the transmit period is fixed before the first cycle (period changes and period 0 are outside the statement)",
        "queued values are consecutive sequence numbers; the device never inspects them"};
    res.AddSample("period=2: Enable(1),Send,Send,Send,Tick,Tick -> frame (1,2); Skip(k) k=0..5 from {period=2 timer=0 enable=1 queued=3}");
}
} // namespace c16
