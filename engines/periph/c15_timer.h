// C15 — explicit-state BFS over a real Teakra::Timer with a lock-step reference model.
#pragma once
#include <memory>
#include "../common/verif.h"
#include "timer.h"
#include "crash.h"

namespace c15 {
using namespace verif;

struct TS { // complete Timer state (all public fields)
    u16 mu, pause, mode, sh, sl;
    u32 counter;
    u16 ch, cl;
    bool operator==(const TS& o) const {
        return std::memcmp(this, &o, sizeof(TS)) == 0;
    }
};
struct TSHash {
    size_t operator()(const TS& s) const {
        return (size_t)Fnv(&s, sizeof(TS));
    }
};

inline void Load(Teakra::Timer& t, const TS& s) {
    t.update_mmio = s.mu;
    t.pause = s.pause;
    t.count_mode = static_cast<Teakra::Timer::CountMode>(s.mode);
    t.scale = 0;
    t.start_high = s.sh;
    t.start_low = s.sl;
    t.counter = s.counter;
    t.counter_high = s.ch;
    t.counter_low = s.cl;
}
inline TS Save(const Teakra::Timer& t) {
    TS s;
    std::memset(&s, 0, sizeof(s));
    s.mu = t.update_mmio;
    s.pause = t.pause;
    s.mode = static_cast<u16>(t.count_mode);
    s.sh = t.start_high;
    s.sl = t.start_low;
    s.counter = t.counter;
    s.ch = t.counter_high;
    s.cl = t.counter_low;
    return s;
}
inline std::string Show(const TS& s) {
    return Fmt("{mu=%u pause=%u mode=%u start=%04X%04X counter=%08X mirror=%04X%04X}", s.mu, s.pause,
               s.mode, s.sh, s.sl, s.counter, s.ch, s.cl);
}

// ---- reference model of the statement -----------------------------------------------------------
struct Ref {
    static u32 Start(const TS& s) {
        return ((u32)s.sh << 16) | s.sl;
    }
    static void Mirror(TS& s) {
        if (s.mu) {
            s.ch = s.counter >> 16;
            s.cl = s.counter & 0xFFFF;
        }
    }
    // one DSP cycle; returns number of interrupts raised
    static int Tick(TS& s) {
        if (s.pause || s.mode == 3)
            return 0;
        if (s.counter == 0) {
            if (s.mode == 1) { // auto-restart: reload on the cycle following the expiry
                s.counter = Start(s);
                Mirror(s);
            } else if (s.mode == 2) { // free-running wraps
                s.counter = 0xFFFFFFFF;
                Mirror(s);
            }
            return 0;
        }
        --s.counter;
        Mirror(s);
        return s.counter == 0 ? 1 : 0;
    }
    static int Event(TS& s) {
        if (s.pause || s.mode != 3 || s.counter == 0)
            return 0;
        --s.counter;
        Mirror(s);
        return s.counter == 0 ? 1 : 0;
    }
    static void Restart(TS& s) {
        if (s.mode != 2) {
            s.counter = Start(s);
            Mirror(s);
        }
    }
    // horizon: largest k such that k cycles raise no interrupt (Infinity when nothing can ever fire)
    static u64 Horizon(const TS& s) {
        if (s.pause || s.mode == 3)
            return ~0ull;
        if (s.counter == 0) {
            if (s.mode == 1)
                return Start(s);
            if (s.mode == 2)
                return 0xFFFFFFFFull;
            return ~0ull;
        }
        return s.counter - 1;
    }
    // closed form of k cycles without interrupt (k <= Horizon)
    static void Advance(TS& s, u64 k) {
        if (k == 0 || s.pause || s.mode == 3)
            return;
        if (s.counter == 0) {
            if (s.mode == 1)
                s.counter = Start(s) - (u32)(k - 1);
            else if (s.mode == 2)
                s.counter = 0xFFFFFFFFu - (u32)(k - 1);
            else
                return;
        } else {
            s.counter -= (u32)k;
        }
        Mirror(s);
    }
};

enum Ev : int { EvTick, EvEvent, EvRestart, EvMode, EvPause, EvMU, EvStartLow, EvStartHigh, EvSkip };
struct Event {
    int kind;
    u64 arg;
};
inline std::string Show(const Event& e) {
    static const char* n[] = {"Tick",    "TickEvent", "Restart",   "SetMode", "SetPause",
                              "SetMU",   "SetStartLow", "SetStartHigh", "Skip"};
    if (e.kind <= EvRestart)
        return n[e.kind];
    return Fmt("%s(%llu)", n[e.kind], (unsigned long long)e.arg);
}

struct Engine {
    // every transition runs on a freshly constructed timer loaded with the state's fields: whatever a Timer may hold beyond
    // its public fields starts from the constructor's value, at exploration time and at replay time alike
    struct Rig {
        Teakra::CoreTiming core_timing;
        Teakra::Timer timer{core_timing};
    };
    std::unique_ptr<Rig> rig;
    int irq = 0;
    Teakra::Timer& Fresh(const TS& s) {
        rig = std::make_unique<Rig>();
        rig->timer.SetInterruptHandler([this]() { ++irq; });
        Load(rig->timer, s);
        return rig->timer;
    }
    Result& res;
    bool thorough;
    std::set<u64> outcome_digests;

    Engine(Result& r, bool th) : res(r), thorough(th) {}

    std::vector<Event> Enabled(const TS& s, bool full) {
        std::vector<Event> ev;
        ev.push_back({EvTick, 0});
        ev.push_back({EvEvent, 0});
        ev.push_back({EvRestart, 0});
        for (u64 m = 0; m < 4; ++m)
            if (full || m != 2)
                ev.push_back({EvMode, m});
        for (u64 v = 0; v < 2; ++v) {
            ev.push_back({EvPause, v});
            ev.push_back({EvMU, v});
        }
        if (full) {
            for (u64 v : {0ull, 1ull, 2ull, 3ull, 0xFFFFull})
                ev.push_back({EvStartLow, v});
            for (u64 v : {0ull, 1ull, 0xFFFFull})
                ev.push_back({EvStartHigh, v});
        } else {
            for (u64 v : {0ull, 1ull, 2ull, 3ull})
                ev.push_back({EvStartLow, v});
        }
        // Skip(k): every k up to min(horizon, 8), the horizon itself, and for an infinite horizon
        // a few large values.  The horizon is the one the *implementation* reports.
        Teakra::Timer& timer = Fresh(s);
        u64 h = timer.GetMaxSkip();
        u64 lim = std::min<u64>(h, 8);
        for (u64 k = 0; k <= lim; ++k)
            ev.push_back({EvSkip, k});
        if (h != ~0ull && h > 8) {
            ev.push_back({EvSkip, h});
            ev.push_back({EvSkip, h - 1});
            ev.push_back({EvSkip, h / 2});
        }
        if (h == ~0ull) {
            ev.push_back({EvSkip, 1000});
            ev.push_back({EvSkip, 1ull << 40});
        }
        return ev;
    }

    static std::string Cls(const TS& s) {
        const char* c = s.counter == 0 ? "0" : s.counter == 1 ? "1" : "n";
        return Fmt("mode=%u,pause=%u,mu=%u,counter=%s,start=%s", s.mode, s.pause, s.mu, c,
                   Ref::Start(s) == 0 ? "0" : "n");
    }
    static std::string Replay(const TS& s, const Event& e) {
        return Fmt("c15 %u %u %u %u %u %u %u %u ev %d %llu", s.mu, s.pause, s.mode, s.sh, s.sl,
                   s.counter, s.ch, s.cl, e.kind, (unsigned long long)e.arg);
    }

    // Apply e to the real timer from state s; check oracles; return successor state.
    // ok=false if the implementation ended in a deliberate assertion (successor not explored).
    TS Step(const TS& s, const Event& e, bool& ok) {
        ok = true;
        Teakra::Timer& timer = Fresh(s);
        irq = 0;
        TS ref = s;
        int ref_irq = 0;
        bool have_ref = true;
        try {
            switch (e.kind) {
            case EvTick:
                timer.Tick();
                ref_irq = Ref::Tick(ref);
                break;
            case EvEvent:
                timer.TickEvent();
                ref_irq = Ref::Event(ref);
                break;
            case EvRestart:
                timer.Restart();
                Ref::Restart(ref);
                break;
            case EvMode:
                timer.count_mode = static_cast<Teakra::Timer::CountMode>(e.arg);
                ref.mode = (u16)e.arg;
                break;
            case EvPause:
                timer.pause = (u16)e.arg;
                ref.pause = (u16)e.arg;
                break;
            case EvMU:
                timer.update_mmio = (u16)e.arg;
                ref.mu = (u16)e.arg;
                break;
            case EvStartLow:
                timer.start_low = (u16)e.arg;
                ref.sl = (u16)e.arg;
                break;
            case EvStartHigh:
                timer.start_high = (u16)e.arg;
                ref.sh = (u16)e.arg;
                break;
            case EvSkip: {
                // (1) the reported horizon never exceeds the statement's horizon
                u64 h = timer.GetMaxSkip();
                u64 hr = Ref::Horizon(s);
                if (h > hr)
                    res.AddViolation("c15:horizon-too-large:" + Cls(s),
                                     Fmt("GetMaxSkip()=%llu exceeds the number of interrupt-free cycles %llu in %s",
                                         (unsigned long long)h, (unsigned long long)hr, Show(s).c_str()),
                                     Replay(s, e));
                timer.Skip(e.arg);
                Ref::Advance(ref, e.arg);
                ref_irq = 0;
                break;
            }
            }
        } catch (const Teakra::VerifAssertion& a) {
            res.AddViolation(Fmt("c15:assert:%s:%s:", Show(e).c_str(), a.expression) + Cls(s),
                             Fmt("deliberate assertion '%s' reached by %s in %s", a.expression,
                                 Show(e).c_str(), Show(s).c_str()),
                             Replay(s, e));
            ok = false;
            return s;
        }
        TS got = Save(timer);
        ++res.transitions;
        ++res.traces_validated;
        if (have_ref && (!(got == ref) || irq != ref_irq)) {
            std::string kcls = e.kind == EvSkip ? (e.arg == 0 ? "Skip(0)" : "Skip(k>0)") : Show(e);
            res.AddViolation("c15:model:" + kcls + ":" + Cls(s),
                             Fmt("%s from %s: implementation -> %s irq=%d, statement model -> %s irq=%d",
                                 Show(e).c_str(), Show(s).c_str(), Show(got).c_str(), irq,
                                 Show(ref).c_str(), ref_irq),
                             Replay(s, e));
        }
        // (2) differential on the real code: Skip(k) == k x Tick (k small enough to iterate)
        if (e.kind == EvSkip && e.arg <= 64) {
            Teakra::Timer& timer2 = Fresh(s);
            irq = 0;
            try {
                for (u64 i = 0; i < e.arg; ++i)
                    timer2.Tick();
            } catch (const Teakra::VerifAssertion&) {
            }
            TS ticked = Save(timer2);
            ++res.evaluations;
            if (!(ticked == got) || irq != 0) {
                res.AddViolation(std::string("c15:skip-vs-ticks:") + (e.arg == 0 ? "k=0:" : "k>0:") + Cls(s),
                                 Fmt("Skip(%llu) from %s gives %s but %llu x Tick gives %s with %d interrupt(s)",
                                     (unsigned long long)e.arg, Show(s).c_str(), Show(got).c_str(),
                                     (unsigned long long)e.arg, Show(ticked).c_str(), irq),
                                 Replay(s, e));
            }
        }
        if (!(got == s) || irq)
            outcome_digests.insert(Fnv(&got, sizeof(got), Mix(e.kind * 977 + e.arg) ^ Fnv(&s, sizeof(s))));
        return got;
    }

    // BFS from `init`; full=true: whole alphabet, depth-bounded; full=false: finite sub-alphabet to fixpoint
    void Explore(const TS& init, bool full, int max_depth, u64 max_states, const char* layer) {
        std::unordered_set<TS, TSHash> seen;
        std::vector<TS> frontier{init}, next;
        seen.insert(init);
        int depth = 0;
        bool capped = false;
        while (!frontier.empty() && depth < max_depth) {
            next.clear();
            for (const TS& s : frontier) {
                for (const Event& e : Enabled(s, full)) {
                    bool ok;
                    const u64 viol_before = res.violation_events;
                    TS n = Step(s, e, ok);
                    ++res.evaluations;
                    if (!ok || res.violation_events != viol_before)
                        continue; // a violating transition is reported, not expanded (its successor may lie outside the statement's state space)
                    if (seen.size() < max_states) {
                        if (seen.insert(n).second)
                            next.push_back(n);
                    } else if (!seen.count(n)) {
                        capped = true;
                    }
                }
            }
            frontier.swap(next);
            ++depth;
        }
        bool fix = frontier.empty();
        res.states += seen.size();
        res.Extra(std::string(layer) + "_states", seen.size());
        res.Extra(std::string(layer) + "_depth", depth);
        res.ExtraStr(std::string(layer) + "_closure", fix ? "fixpoint reached (complete reachable set)"
                                                           : (capped ? "state cap hit" : "depth bound reached"));
        if (capped || (!full && !fix))
            res.exhaustive = false;
    }
};


// ---- L3: two timers on one CoreTiming: the aggregated fast-forward equals that many aggregated cycles ----------
struct PairEngine {
    struct Rig {
        Teakra::CoreTiming ct;
        Teakra::Timer a{ct}, b{ct};
    };
    std::unique_ptr<Rig> rig;
    int irq_a = 0, irq_b = 0;
    Result& res;
    std::unordered_set<u64> digests;
    explicit PairEngine(Result& r) : res(r) {}
    void Fresh(const TS& sa, const TS& sb) {
        rig = std::make_unique<Rig>();
        rig->a.SetInterruptHandler([this]() { ++irq_a; });
        rig->b.SetInterruptHandler([this]() { ++irq_b; });
        Load(rig->a, sa), Load(rig->b, sb);
    }
    static std::vector<TS> Alphabet() {
        std::vector<TS> v;
        for (u16 mode : {0, 1, 2})
            for (u16 start : {0, 1, 2, 4, 1000})
                for (u32 counter : {0u, 1u, 2u, 3u, 10u, 1000u})
                    for (u16 pause : {0, 1}) {
                        TS s;
                        std::memset(&s, 0, sizeof(s));
                        s.mu = 1, s.pause = pause, s.mode = mode, s.sl = start, s.counter = counter;
                        s.cl = (u16)counter;
                        v.push_back(s);
                    }
        return v;
    }
    void Check(const TS& sa, const TS& sb, u64 maximum) {
        Fresh(sa, sb);
        irq_a = irq_b = 0;
        u64 ticks = 0;
        try {
            ticks = rig->ct.Skip(maximum);
        } catch (const Teakra::VerifAssertion& x) {
            res.AddViolation(std::string("c15:pair:assert:") + x.expression,
                             Fmt("CoreTiming::Skip(%llu) with timers %s and %s ends in the assertion '%s'", (unsigned long long)maximum, Show(sa).c_str(), Show(sb).c_str(), x.expression),
                             Replay(sa, sb, maximum));
            return;
        }
        TS ga = Save(rig->a), gb = Save(rig->b);
        int ia = irq_a, ib = irq_b;
        ++res.transitions, ++res.traces_validated, ++res.evaluations;
        std::string bad;
        if (ticks > maximum)
            bad = Fmt("returned %llu cycles, more than the %llu asked for", (unsigned long long)ticks, (unsigned long long)maximum);
        else if (ia || ib)
            bad = "an interrupt fired inside the fast-forward";
        else if (ticks <= 4096) {
            Fresh(sa, sb);
            irq_a = irq_b = 0;
            for (u64 i = 0; i < ticks; ++i)
                rig->ct.Tick();
            TS ta = Save(rig->a), tb = Save(rig->b);
            if (irq_a || irq_b)
                bad = Fmt("the %llu cycles it reports contain an interrupt when stepped one by one", (unsigned long long)ticks);
            else if (!(ta == ga))
                bad = Fmt("first timer becomes %s, %llu single cycles give %s", Show(ga).c_str(), (unsigned long long)ticks, Show(ta).c_str());
            else if (!(tb == gb))
                bad = Fmt("second timer becomes %s, %llu single cycles give %s", Show(gb).c_str(), (unsigned long long)ticks, Show(tb).c_str());
        }
        digests.insert(Fnv(&ga, sizeof(ga), Fnv(&gb, sizeof(gb), ticks)));
        if (!bad.empty())
            res.AddViolation(Fmt("c15:pair:skip-vs-ticks:%s", sa.counter > sb.counter && sb.counter ? "second-expires-first" : "other"),
                             Fmt("CoreTiming::Skip(%llu) with timers %s and %s returns %llu: %s", (unsigned long long)maximum, Show(sa).c_str(), Show(sb).c_str(),
                                 (unsigned long long)ticks, bad.c_str()),
                             Replay(sa, sb, maximum));
    }
    static std::string Replay(const TS& x, const TS& y, u64 maximum) {
        return Fmt("c15pair %u %u %u %u %u %u %u %u | %u %u %u %u %u %u %u %u | %llu", x.mu, x.pause, x.mode, x.sh, x.sl, x.counter, x.ch, x.cl, y.mu, y.pause, y.mode, y.sh, y.sl,
                   y.counter, y.ch, y.cl, (unsigned long long)maximum);
    }
    void Run() {
        auto al = Alphabet();
        for (const TS& x : al)
            for (const TS& y : al)
                for (u64 maximum : {0ull, 1ull, 2ull, 3ull, 9ull, 999ull, 5000ull})
                    Check(x, y, maximum);
        res.states += al.size() * al.size();
    }
};


// ---- L4: histories on a real object -------------------------------------------------------------------------------
// Every state of this layer is reached by replaying its event history on a freshly constructed timer (nothing is loaded
// into fields), so whatever the object remembers beyond its public fields is the product of a real history.  Nodes are
// merged only when the public fields AND a behavioural probe (reported horizon, one cycle, one small fast-forward, a
// restart) agree; at every node the statement's model is compared and Skip(k) is compared with k cycles for every k up to
// the reported horizon - each on its own replay of the history.
struct HistoryEngine {
    Result& res;
    std::unordered_set<u64> digests;
    int irq = 0;
    struct Rig {
        Teakra::CoreTiming ct;
        Teakra::Timer t{ct};
    };
    struct Node {
        TS vis, model;
        int parent;
        Event ev;
        int depth;
    };
    std::vector<Node> nodes;
    explicit HistoryEngine(Result& r) : res(r) {}

    static void Apply(Teakra::Timer& t, const Event& e) {
        switch (e.kind) {
        case EvTick: t.Tick(); break;
        case EvEvent: t.TickEvent(); break;
        case EvRestart: t.Restart(); break;
        case EvMode: t.count_mode = static_cast<Teakra::Timer::CountMode>(e.arg); break;
        case EvPause: t.pause = (u16)e.arg; break;
        case EvMU: t.update_mmio = (u16)e.arg; break;
        case EvStartLow: t.start_low = (u16)e.arg; break;
        case EvStartHigh: t.start_high = (u16)e.arg; break;
        case EvSkip: t.Skip(e.arg); break;
        }
    }
    static int ApplyModel(TS& m, const Event& e) {
        switch (e.kind) {
        case EvTick: return Ref::Tick(m);
        case EvEvent: return Ref::Event(m);
        case EvRestart: Ref::Restart(m); return 0;
        case EvMode: m.mode = (u16)e.arg; return 0;
        case EvPause: m.pause = (u16)e.arg; return 0;
        case EvMU: m.mu = (u16)e.arg; return 0;
        case EvStartLow: m.sl = (u16)e.arg; return 0;
        case EvStartHigh: m.sh = (u16)e.arg; return 0;
        default: return 0;
        }
    }
    std::vector<Event> Path(int n, const Event* last = nullptr) const {
        std::vector<Event> p;
        for (int i = n; i > 0; i = nodes[i].parent)
            p.push_back(nodes[i].ev);
        std::reverse(p.begin(), p.end());
        if (last)
            p.push_back(*last);
        return p;
    }
    std::unique_ptr<Rig> Build(const std::vector<Event>& path) {
        auto rig = std::make_unique<Rig>();
        rig->t.SetInterruptHandler([this]() { ++irq; });
        rig->t.Reset();
        for (auto& e : path)
            Apply(rig->t, e);
        irq = 0;
        return rig;
    }
    static std::string PathStr(const std::vector<Event>& p) {
        std::string s = "c15h";
        for (auto& e : p)
            s += Fmt(" %d,%llu", e.kind, (unsigned long long)e.arg);
        return s;
    }
    static std::string PathShow(const std::vector<Event>& p) {
        std::string s;
        for (auto& e : p)
            s += (s.empty() ? "" : " ; ") + Show(e);
        return s;
    }
    // checks at the end of `path`: model agreement of the last event (given the parent's model) and the fast-forward differential.
    // Returns the probe signature of the state reached.
    u64 CheckAt(const std::vector<Event>& path, const TS& parent_model, TS& vis_out, TS& model_out) {
        std::vector<Event> pre(path.begin(), path.end() - (path.empty() ? 0 : 1));
        TS model = parent_model;
        int model_irq = 0;
        auto rig = Build(pre);
        try {
            if (!path.empty()) {
                irq = 0;
                Apply(rig->t, path.back());
                model_irq = ApplyModel(model, path.back());
            }
        } catch (const Teakra::VerifAssertion&) {
            vis_out = Save(rig->t), model_out = model;
            return ~0ull; // a deliberate assertion (restart with an undefined mode etc.): not expanded
        }
        int got_irq = irq;
        TS vis = Save(rig->t);
        vis_out = vis, model_out = model;
        ++res.transitions, ++res.traces_validated, ++res.evaluations;
        if (!(vis == model) || got_irq != model_irq)
            res.AddViolation("c15:history:model:" + (path.empty() ? std::string("reset") : Show(path.back())),
                             Fmt("after [%s]: implementation %s irq=%d, statement model %s irq=%d", PathShow(path).c_str(), Show(vis).c_str(), got_irq, Show(model).c_str(), model_irq),
                             PathStr(path));
        u64 h = rig->t.GetMaxSkip(), hr = Ref::Horizon(vis);
        if (h > hr)
            res.AddViolation("c15:history:horizon-too-large",
                             Fmt("after [%s] the timer %s reports a horizon of %llu cycles, but an interrupt is due after %llu", PathShow(path).c_str(), Show(vis).c_str(),
                                 (unsigned long long)h, (unsigned long long)hr),
                             PathStr(path));
        std::vector<u64> ks;
        for (u64 k = 0; k <= std::min<u64>(h, 6); ++k)
            ks.push_back(k);
        if (h != ~0ull && h > 6 && h <= 64)
            ks.push_back(h);
        u64 sig = Mix(h);
        for (u64 k : ks) {
            auto a = Build(path);
            irq = 0;
            a->t.Skip(k);
            TS sa = Save(a->t);
            int ia = irq;
            auto b = Build(path);
            irq = 0;
            for (u64 i = 0; i < k; ++i)
                b->t.Tick();
            TS sb = Save(b->t);
            int ib = irq;
            ++res.evaluations;
            sig = Fnv(&sa, sizeof(sa), sig);
            if (!(sa == sb) || ia != 0 || ib != 0)
                res.AddViolation(std::string("c15:history:skip-vs-ticks:") + (k == 0 ? "k=0" : "k>0"),
                                 Fmt("after [%s] (%s, reported horizon %llu): Skip(%llu) gives %s with %d interrupt(s), %llu x Tick gives %s with %d interrupt(s)", PathShow(path).c_str(),
                                     Show(vis).c_str(), (unsigned long long)h, (unsigned long long)k, Show(sa).c_str(), ia, (unsigned long long)k, Show(sb).c_str(), ib),
                                 PathStr(path));
        }
        // behavioural probe for merging: one cycle, one event, one restart
        for (int probe = 0; probe < 3; ++probe) {
            auto a = Build(path);
            irq = 0;
            try {
                Apply(a->t, Event{probe == 0 ? EvTick : probe == 1 ? EvEvent : EvRestart, 0});
            } catch (const Teakra::VerifAssertion&) {
            }
            TS sa = Save(a->t);
            sig = Fnv(&sa, sizeof(sa), sig ^ (u64)irq);
        }
        digests.insert(Fnv(&vis, sizeof(vis), sig));
        return sig;
    }
    void Explore(int max_depth, u64 max_nodes) {
        std::vector<Event> alphabet = {{EvTick, 0}, {EvRestart, 0}, {EvMode, 0}, {EvMode, 1}, {EvMode, 2}, {EvPause, 0}, {EvPause, 1}, {EvMU, 0}, {EvMU, 1},
                                       {EvStartLow, 1}, {EvStartLow, 2}, {EvStartLow, 4}, {EvSkip, 1}, {EvSkip, 3}};
        std::unordered_set<u64> seen;
        TS zero;
        std::memset(&zero, 0, sizeof(zero));
        TS v0, m0;
        u64 s0 = CheckAt({}, zero, v0, m0);
        nodes.push_back({v0, m0, 0, {EvTick, 0}, 0});
        seen.insert(Fnv(&v0, sizeof(v0), s0));
        size_t lo = 0;
        bool capped = false;
        while (lo < nodes.size()) {
            Node n = nodes[lo];
            int ni = (int)lo++;
            if (n.depth >= max_depth)
                continue;
            for (auto& e : alphabet) {
                if (e.kind == EvSkip) { // only inside the reported horizon (fast-forwarding further is not promised anything)
                    auto rig = Build(Path(ni));
                    if (rig->t.GetMaxSkip() < e.arg)
                        continue;
                }
                const u64 before = res.violation_events;
                TS vis, model;
                std::vector<Event> path = Path(ni, &e);
                // the model follows a fast-forward by its closed form
                TS pm = n.model;
                u64 sig;
                if (e.kind == EvSkip) {
                    Ref::Advance(pm, e.arg);
                    std::vector<Event> dummy = path;
                    // check the state after the skip as a node of its own (model = advanced parent model, no event to apply)
                    auto rig = Build(path);
                    vis = Save(rig->t), model = pm;
                    ++res.transitions, ++res.traces_validated, ++res.evaluations;
                    if (!(vis == model))
                        res.AddViolation("c15:history:model:Skip", Fmt("after [%s]: implementation %s, statement model %s", PathShow(path).c_str(), Show(vis).c_str(), Show(model).c_str()), PathStr(path));
                    TS v2, m2;
                    sig = CheckTail(path, vis);
                } else {
                    sig = CheckAt(path, n.model, vis, model);
                }
                if (sig == ~0ull || res.violation_events != before)
                    continue; // violating or asserting transitions are reported, not expanded
                if (!seen.insert(Fnv(&vis, sizeof(vis), sig)).second)
                    continue;
                if (nodes.size() >= max_nodes) {
                    capped = true;
                    continue;
                }
                nodes.push_back({vis, model, ni, e, n.depth + 1});
            }
        }
        res.states += nodes.size();
        res.Extra("L4_history_nodes", nodes.size());
        res.Extra("L4_history_depth", (u64)max_depth);
        if (capped)
            res.exhaustive = false;
    }
    // the differential and probe part of CheckAt for a path whose last event was a fast-forward
    u64 CheckTail(const std::vector<Event>& path, const TS& vis) {
        TS dummy_v, dummy_m;
        // re-use CheckAt with an empty "last event": build the whole path as prefix by appending a no-op (Skip(0))
        std::vector<Event> p = path;
        p.push_back({EvSkip, 0});
        TS pm = vis;
        return CheckAt(p, pm, dummy_v, dummy_m);
    }
};

inline int RunReplay(const std::string& r, Result& res) {
    if (r.rfind("c15h", 0) == 0) {
        // "c15h k,a k,a ...": the history; re-run the checks along it (model from reset)
        std::vector<Event> path;
        const char* p = r.c_str() + 4;
        int k, used;
        unsigned long long a;
        while (std::sscanf(p, " %d,%llu%n", &k, &a, &used) == 2) {
            path.push_back({k, a});
            p += used;
        }
        HistoryEngine he(res);
        TS model, vis, m2;
        std::memset(&model, 0, sizeof(model));
        for (size_t i = 0; i + 1 < path.size(); ++i) {
            if (path[i].kind == EvSkip)
                Ref::Advance(model, path[i].arg);
            else
                HistoryEngine::ApplyModel(model, path[i]);
        }
        Result scratch;
        HistoryEngine hs(scratch);
        if (!path.empty() && path.back().kind == EvSkip) {
            std::vector<Event> pre(path.begin(), path.end() - 1);
            Ref::Advance(model, path.back().arg);
            auto rig = hs.Build(path);
            TS v = Save(rig->t);
            if (!(v == model))
                res.AddViolation("c15:history:model:Skip", "fast-forward differs from the model", r);
            he.CheckTail(path, v);
        } else {
            he.CheckAt(path, model, vis, m2);
        }
        for (auto& vi : res.violations)
            std::printf("  %s\n    %s\n", vi.key.c_str(), vi.text.c_str());
        return res.violations.empty() ? 0 : 1;
    }
    {
        unsigned v[16];
        unsigned long long mx;
        if (std::sscanf(r.c_str(), "c15pair %u %u %u %u %u %u %u %u | %u %u %u %u %u %u %u %u | %llu", &v[0], &v[1], &v[2], &v[3], &v[4], &v[5], &v[6], &v[7], &v[8], &v[9],
                        &v[10], &v[11], &v[12], &v[13], &v[14], &v[15], &mx) == 17) {
            TS x, y;
            std::memset(&x, 0, sizeof(x)), std::memset(&y, 0, sizeof(y));
            x.mu = v[0], x.pause = v[1], x.mode = v[2], x.sh = v[3], x.sl = v[4], x.counter = v[5], x.ch = v[6], x.cl = v[7];
            y.mu = v[8], y.pause = v[9], y.mode = v[10], y.sh = v[11], y.sl = v[12], y.counter = v[13], y.ch = v[14], y.cl = v[15];
            PairEngine pe(res);
            pe.Check(x, y, mx);
            for (auto& vi : res.violations)
                std::printf("  %s\n    %s\n", vi.key.c_str(), vi.text.c_str());
            return res.violations.empty() ? 0 : 1;
        }
    }
    TS s;
    std::memset(&s, 0, sizeof(s));
    unsigned a[8];
    int kind;
    unsigned long long arg;
    if (std::sscanf(r.c_str(), "c15 %u %u %u %u %u %u %u %u ev %d %llu", &a[0], &a[1], &a[2], &a[3],
                    &a[4], &a[5], &a[6], &a[7], &kind, &arg) != 10)
        return 2;
    s.mu = a[0], s.pause = a[1], s.mode = a[2], s.sh = a[3], s.sl = a[4], s.counter = a[5],
    s.ch = a[6], s.cl = a[7];
    Engine eng(res, true);
    bool ok;
    TS n = eng.Step(s, Event{kind, arg}, ok);
    std::printf("replay: %s --%s--> %s\n", Show(s).c_str(), Show(Event{kind, arg}).c_str(),
                Show(n).c_str());
    for (auto& v : res.violations)
        std::printf("  %s\n    %s\n", v.key.c_str(), v.text.c_str());
    return res.violations.empty() ? 0 : 1;
}

inline void Run(const Args& args, Result& res) {
    res.property = "C15";
    res.rule =
        "BFS over a real Teakra::Timer; state = all public fields; events Tick, TickEvent, Restart, "
        "mode/pause/MU/start writes, Skip(k) for every k<=min(GetMaxSkip,8) plus horizon, horizon-1, "
        "horizon/2 and large k for infinite horizons; every transition is compared with the statement "
        "model and Skip(k) with k real Ticks; the aggregated fast-forward of two timers (CoreTiming::Skip) against the same number of aggregated "
        "cycles; non-trivial = transition that changes state or fires";
    Engine eng(res, args.thorough());
    TS init;
    std::memset(&init, 0, sizeof(init));
    // L1: full alphabet incl. free-running and 32-bit start values, depth-bounded
    int depth = args.thorough() ? 10 : 7;
    eng.Explore(init, true, depth, 30000000ull, "L1_full_alphabet");
    // L2: modes {single,auto,event}, start in 0..3 -> finite machine, explored to fixpoint
    eng.Explore(init, false, 1000, 30000000ull, "L2_fixpoint");
    PairEngine pe(res);
    pe.Run();
    HistoryEngine he(res);
    he.Explore(args.thorough() ? 12 : 9, 400000);
    res.distinct_nontrivial = eng.outcome_digests.size() + pe.digests.size() + he.digests.size();
    res.bound = Fmt("L1 depth %d over the full alphabet; L2 complete reachable set of the start<=3, "
                    "non-free-running sub-machine; L3 two timers on one CoreTiming: 180 x 180 state pairs x 7 budgets, CoreTiming::Skip vs that many "
                    "CoreTiming::Tick; L4 histories replayed on fresh objects to depth %d (14-event alphabet, nodes merged on public fields + behavioural probe)",
                    depth, args.thorough() ? 12 : 9);
    res.assumptions = {"time scale (TS) fixed at 0: the model asserts on any other value",
                       "Restart in free-running mode is taken from the implementation (statement silent)",
                       "MMIO path to the timer registers is covered by C12"};
    TS ex = init;
    ex.mode = 1;
    ex.sl = 2;
    res.AddSample("Tick,TickEvent,Restart,SetMode(1),SetStartLow(2),Skip(0..h) from " + Show(ex));
}
} // namespace c15
